import NomtModel.Api.SeekerLoop
/-!
# Proof of `C13.T13_update_loop_transparent_statement` (`updLoop_transparent`, at the end; no extra hypothesis)

The loop `updLoop` over the toy FIFO seeker, for every warmed-up subset `S`, every `has_room` bound ≥ 1 and every latency
profile, returns and makes the calls of `Split.workerLoop`.

* `updLoop_succ`: one iteration = `takeStep` (choose the queue, take a completion, `complete` = skip / handle) then
  `afterStep` (`recv`, or `pushLoop` + `tryRecv`).
* invariant `Inv pre s`: the pending keys `pre ++ keys[start, start+pushes)` (`pre` = the `skips` keys covered by the last
  terminal; after a batch larger than `pushes` they are NOT adjacent to `start`) are split order-preservingly into
  `warmed` (in `S`) and the seeker's queue (not in `S`), all carrying `tp key`; `pre ++ keys.drop start` is strictly
  increasing; `start + pushes ≤ n`; the calls so far followed by `workerLoop` from `start` are `workerLoop` from 0.
* measure `meas`: Σ over the unpushed keys of `lat k + 2`, + remaining latency in the queue + lengths of both queues;
  strictly decreasing in every iteration while the loop condition holds (`updLoop_run`).
* the `warmed.length ≥ 512` exit of `pushLoop` is just an early stop (`pushLoop_spec` holds for any number of pushes).
-/
namespace Nomt.SeekerLoop
open Nomt

theorem sl_bitsLt_asymm : ∀ (a b : List Bool), bitsLt a b = true → bitsLt b a = false
  | [], [], h => by simp [bitsLt] at h
  | [], _ :: _, _ => by simp [bitsLt]
  | _ :: _, [], h => by simp [bitsLt] at h
  | a :: as, b :: bs, h => by
    have ih := sl_bitsLt_asymm as bs
    simp only [bitsLt] at h ⊢
    cases a <;> cases b <;> simp_all

section generic
variable {σ Res : Type}

def useWarm (I : Iface σ Res) (mutant : Bool) (s : LSt σ Res) : Bool :=
  match s.warmed.head? with
  | none => false
  | some (wk, _) =>
    match I.firstKey s.sk with
    | none => true
    | some k => (mutant && decide (s.skips > 0)) || bitsLt wk k

def complete (next : Nat → Key × Res → Nat) (s : LSt σ Res) (c : Key × Res) : Option (LSt σ Res) :=
  if s.skips > 0 then some { s with skips := s.skips - 1 }
  else
    let e := next s.start c
    let b := e - s.start
    if min s.pushes b = 0 then none
    else some { s with calls := s.calls ++ [(s.start, c)], skips := min s.pushes b - 1,
                       pushes := s.pushes - b, start := e }

def takeStep (I : Iface σ Res) (next : Nat → Key × Res → Nat) (mutant : Bool) (s : LSt σ Res) :
    Option (LSt σ Res) :=
  let sc : LSt σ Res × Option (Key × Res) :=
    if useWarm I mutant s then ({ s with warmed := s.warmed.tail }, s.warmed.head?)
    else ({ s with sk := (I.take s.sk).1 }, (I.take s.sk).2)
  match sc.2 with
  | none => some sc.1
  | some c => complete next sc.1 c

def afterStep (I : Iface σ Res) (keys : List Key) (re : Nat) (warm : Key → Option Res) (s : LSt σ Res) :
    Option (LSt σ Res) :=
  let s := { s with sk := I.submitAll s.sk }
  if !I.hasRoom s.sk && I.hasLive s.sk then some { s with sk := I.recv s.sk }
  else
    match pushLoop I keys re warm (re + 1) s with
    | none => none
    | some s => some { s with sk := I.tryRecv s.sk }

theorem updLoop_succ (I : Iface σ Res) (keys : List Key) (re : Nat) (warm : Key → Option Res)
    (next : Nat → Key × Res → Nat) (mutant : Bool) (f : Nat) (s : LSt σ Res) :
    updLoop I keys re warm next mutant (f + 1) s =
      if decide (s.start < re) || !I.isEmpty s.sk then
        match takeStep I next mutant s with
        | none => none
        | some s1 =>
          match afterStep I keys re warm s1 with
          | none => none
          | some s2 => updLoop I keys re warm next mutant f s2
      else some s := by
  rw [updLoop]
  split
  · show (match takeStep I next mutant s with
      | none => none
      | some s =>
        let s := { s with sk := I.submitAll s.sk }
        if !I.hasRoom s.sk && I.hasLive s.sk then updLoop I keys re warm next mutant f { s with sk := I.recv s.sk }
        else
          match pushLoop I keys re warm (re + 1) s with
          | none => none
          | some s => updLoop I keys re warm next mutant f { s with sk := I.tryRecv s.sk }) = _
    cases takeStep I next mutant s with
    | none => rfl
    | some s1 =>
      simp only [afterStep]
      split
      · rfl
      · split <;> rfl
  · rfl

end generic

/-! ### list facts -/

theorem take_min_split {α : Type} (L : List α) (m b : Nat) (hb : 1 ≤ b) (hm : 1 ≤ m) :
    L.take (m - 1) = L.take (min m b - 1) ++ (L.drop (b - 1)).take (m - b) := by
  by_cases h : b ≤ m
  · have h1 : min m b - 1 = b - 1 := by omega
    have h2 : m - 1 = (b - 1) + (m - b) := by omega
    rw [h1, h2, List.take_add]
  · have h1 : min m b - 1 = m - 1 := by omega
    have h2 : m - b = 0 := by omega
    rw [h1, h2]; simp

theorem take_drop_sublist {α : Type} (L : List α) (a c : Nat) (h : a ≤ c) :
    (L.take a ++ L.drop c).Sublist L := by
  have h1 : L.drop c = (L.drop a).drop (c - a) := by
    rw [List.drop_drop]; congr 1; omega
  have h2 : (L.take a ++ L.drop c).Sublist (L.take a ++ L.drop a) := by
    rw [h1]; exact List.Sublist.append (List.Sublist.refl _) (List.drop_sublist _ _)
  rwa [List.take_append_drop] at h2

/-! ### `decLast` -/

def qlat {Res : Type} (q : List (Key × Res × Nat)) : Nat := (q.map (·.2.2)).sum

theorem decLast_spec {Res : Type} : ∀ (q : List (Key × Res × Nat)),
    (decLast q).1.map (fun x => (x.1, x.2.1)) = q.map (fun x => (x.1, x.2.1)) ∧
    (decLast q).1.length = q.length ∧
    qlat (decLast q).1 + (decLast q).2.toNat = qlat q ∧
    (decLast q).2 = q.any (fun x => decide (x.2.2 > 0))
  | [] => by simp [decLast, qlat]
  | x :: xs => by
    obtain ⟨h1, h2, h3, h4⟩ := decLast_spec xs
    simp only [decLast]
    cases hd : decLast xs with
    | mk ys done =>
      rw [hd] at h1 h2 h3 h4
      simp only at h1 h2 h3 h4
      cases done with
      | true =>
        simp only [if_true, List.map_cons, h1, List.length_cons, h2, List.any_cons, ← h4, Bool.or_true, and_true,
          true_and]
        simp only [qlat, List.map_cons, List.sum_cons, Bool.toNat_true] at h3 ⊢
        omega
      | false =>
        simp only [Bool.false_eq_true, if_false]
        simp only [qlat, Bool.toNat_false] at h3
        by_cases hx : x.2.2 > 0
        · simp only [hx, if_true, List.map_cons, h1, List.length_cons, h2, List.any_cons, decide_true, Bool.true_or,
            and_true, true_and, qlat, List.sum_cons, Bool.toNat_true]
          omega
        · simp only [hx, if_false, List.map_cons, h1, List.length_cons, h2, List.any_cons, decide_false, ← h4,
            Bool.or_false, and_true, true_and, qlat, List.sum_cons, Bool.toNat_false]
          omega

/-! ### the instance: the toy seeker, warmed-up subset `S`, `next` by `batchSize` -/

abbrev TSt := LSt (Toy (List Bool)) (List Bool)

def opsOf (keys : List Key) : List (Split.Op Nat) := keys.map (fun k => (k, (Split.RW.read : Split.RW Nat)))

def warmF (tp : Key → List Bool) (S : List Key) : Key → Option (List Bool) :=
  fun k => if S.contains k then some (tp k) else none

def nextF (keys : List Key) : Nat → Key × List Bool → Nat :=
  fun start c => start + Split.batchSize c.2 (opsOf keys) start

/-- projected result of `Split.workerLoop` from `st` with fuel `f` -/
def W (keys : List Key) (tp : Key → List Bool) (f st : Nat) : Option (List (Nat × List Bool)) :=
  (Split.workerLoop tp (opsOf keys) (fun _ => true) 0 keys.length f st).map
    (fun bs => bs.map (fun b => (b.start, b.pos)))

def unp (lat : Key → Nat) (l : List Key) : Nat := (l.map (fun k => lat k + 2)).sum

/-- the termination measure -/
def meas (keys : List Key) (lat : Key → Nat) (s : TSt) : Nat :=
  unp lat (keys.drop (s.start + s.pushes)) + qlat s.sk.q + s.warmed.length + s.sk.q.length

/-- the two queues are the order-preserving split of the pending keys `pend` -/
structure Inv2 (tp : Key → List Bool) (S : List Key) (room : Nat) (lat : Key → Nat) (pend : List Key) (s : TSt) :
    Prop where
  hw : s.warmed = (pend.filter (fun k => S.contains k)).map (fun k => (k, tp k))
  hq : s.sk.q.map (fun x => (x.1, x.2.1)) = (pend.filter (fun k => !S.contains k)).map (fun k => (k, tp k))
  hroom : s.sk.room = room
  hlat : s.sk.lat = lat
  hspec : s.sk.spec = tp

structure Inv (keys : List Key) (tp : Key → List Bool) (S : List Key) (room : Nat) (lat : Key → Nat)
    (pre : List Key) (s : TSt) : Prop where
  h2 : Inv2 tp S room lat (pre ++ (keys.drop s.start).take s.pushes) s
  hlen : pre.length = s.skips
  hbound : s.start + s.pushes ≤ keys.length
  hpw : (pre ++ keys.drop s.start).Pairwise (fun a b => bitsLt a b = true)
  hcalls : ∃ f, keys.length - s.start < f ∧
    W keys tp (keys.length + 1) 0 = (W keys tp f s.start).map (fun r => s.calls.map (fun c => (c.1, c.2.2)) ++ r)

theorem Inv2.congr {tp : Key → List Bool} {S : List Key} {room : Nat} {lat : Key → Nat} {pend : List Key}
    {s s' : TSt} (h : Inv2 tp S room lat pend s) (hw : s'.warmed = s.warmed) (hsk : s'.sk = s.sk) :
    Inv2 tp S room lat pend s' := by
  constructor
  · rw [hw]; exact h.hw
  · rw [hsk]; exact h.hq
  · rw [hsk]; exact h.hroom
  · rw [hsk]; exact h.hlat
  · rw [hsk]; exact h.hspec

theorem unp_drop_le (lat : Key → Nat) (keys : List Key) (i j : Nat) (h : i ≤ j) :
    unp lat (keys.drop j) ≤ unp lat (keys.drop i) := by
  have h1 : keys.drop j = (keys.drop i).drop (j - i) := by
    rw [List.drop_drop]; congr 1; omega
  rw [h1]
  generalize keys.drop i = L
  generalize j - i = d
  induction d generalizing L with
  | zero => simp
  | succ d ih =>
    cases L with
    | nil => simp
    | cons x xs =>
      simp only [List.drop_succ_cons]
      have := ih xs
      simp only [unp, List.map_cons, List.sum_cons] at this ⊢
      omega

theorem unp_drop_getElem (lat : Key → Nat) (keys : List Key) (i : Nat) (k : Key) (h : keys[i]? = some k) :
    unp lat (keys.drop i) = lat k + 2 + unp lat (keys.drop (i + 1)) := by
  have hi : i < keys.length := by
    rcases Nat.lt_or_ge i keys.length with h' | h'
    · exact h'
    · rw [List.getElem?_eq_none h'] at h; cases h
  rw [List.drop_eq_getElem_cons hi]
  have : keys[i] = k := by
    rw [List.getElem?_eq_getElem hi] at h; exact Option.some.inj h
  simp [unp, this]

section generic2
variable {σ Res : Type}

theorem takeStep_warm (I : Iface σ Res) (next : Nat → Key × Res → Nat) (m : Bool) (s : LSt σ Res) (c : Key × Res)
    (hu : useWarm I m s = true) (hh : s.warmed.head? = some c) :
    takeStep I next m s = complete next { s with warmed := s.warmed.tail } c := by
  simp only [takeStep, hu, if_true, hh]

theorem takeStep_cold_some (I : Iface σ Res) (next : Nat → Key × Res → Nat) (m : Bool) (s : LSt σ Res) (c : Key × Res)
    (t' : σ) (hu : useWarm I m s = false) (ht : I.take s.sk = (t', some c)) :
    takeStep I next m s = complete next { s with sk := t' } c := by
  simp only [takeStep, hu, ht, Bool.false_eq_true, if_false]

theorem takeStep_cold_none (I : Iface σ Res) (next : Nat → Key × Res → Nat) (m : Bool) (s : LSt σ Res)
    (t' : σ) (hu : useWarm I m s = false) (ht : I.take s.sk = (t', none)) :
    takeStep I next m s = some { s with sk := t' } := by
  simp only [takeStep, hu, ht, Bool.false_eq_true, if_false]

end generic2

theorem toy_take_nil {Res : Type} (t : Toy Res) (h : t.q = []) : (toyIface Res).take t = (t, none) := by
  show (match t.q with
    | (k, r, 0) :: rest => (({ t with q := rest } : Toy Res), some (k, r))
    | _ => (t, none)) = _
  rw [h]

theorem toy_take_zero {Res : Type} (t : Toy Res) (k : Key) (r : Res) (rest : List (Key × Res × Nat))
    (h : t.q = (k, r, 0) :: rest) : (toyIface Res).take t = ({ t with q := rest }, some (k, r)) := by
  show (match t.q with
    | (k, r, 0) :: rest => (({ t with q := rest } : Toy Res), some (k, r))
    | _ => (t, none)) = _
  rw [h]; rfl

theorem toy_take_pos {Res : Type} (t : Toy Res) (k : Key) (r : Res) (l : Nat) (rest : List (Key × Res × Nat))
    (h : t.q = (k, r, l + 1) :: rest) : (toyIface Res).take t = (t, none) := by
  show (match t.q with
    | (k, r, 0) :: rest => (({ t with q := rest } : Toy Res), some (k, r))
    | _ => (t, none)) = _
  rw [h]; rfl

theorem useWarm_true (s : TSt) (p : Key) (r : List Bool) (wt : List (Key × List Bool))
    (hw : s.warmed = (p, r) :: wt) (hq : ∀ x ∈ s.sk.q, bitsLt p x.1 = true) :
    useWarm (toyIface (List Bool)) false s = true := by
  unfold useWarm
  rw [hw]
  show (match s.sk.q.head?.map (·.1) with
    | none => true
    | some k => (false && decide (s.skips > 0)) || bitsLt p k) = true
  cases hq' : s.sk.q with
  | nil => rfl
  | cons x xs =>
    simp only [List.head?_cons, Option.map_some, Bool.false_and, Bool.false_or]
    exact hq x (by rw [hq']; simp)

theorem useWarm_false (s : TSt) (p : Key) (r : List Bool) (l : Nat) (q' : List (Key × List Bool × Nat))
    (hq : s.sk.q = (p, r, l) :: q') (hw : ∀ x ∈ s.warmed, bitsLt p x.1 = true) :
    useWarm (toyIface (List Bool)) false s = false := by
  unfold useWarm
  cases hw' : s.warmed with
  | nil => rfl
  | cons x xs =>
    obtain ⟨wk, wr⟩ := x
    show (match s.sk.q.head?.map (·.1) with
      | none => true
      | some k => (false && decide (s.skips > 0)) || bitsLt wk k) = false
    rw [hq]
    simp only [List.head?_cons, Option.map_some, Bool.false_and, Bool.false_or]
    exact sl_bitsLt_asymm _ _ (hw (wk, wr) (by rw [hw']; simp))

section main
variable (keys : List Key) (tp : Key → List Bool) (S : List Key) (room : Nat) (lat : Key → Nat)

theorem take_succ_drop (start pushes : Nat) (k : Key) (h : keys[start + pushes]? = some k) :
    (keys.drop start).take (pushes + 1) = (keys.drop start).take pushes ++ [k] := by
  rw [List.take_add_one, List.getElem?_drop, h]; rfl

theorem push_warm {pre : List Key} {s : TSt} {k : Key} (hinv : Inv keys tp S room lat pre s)
    (hk : keys[s.start + s.pushes]? = some k) (hS : S.contains k = true) :
    Inv keys tp S room lat pre
      { s with pushes := s.pushes + 1, warmed := s.warmed ++ [(k, tp k)] } ∧
    meas keys lat { s with pushes := s.pushes + 1, warmed := s.warmed ++ [(k, tp k)] } < meas keys lat s := by
  have hlt : s.start + s.pushes < keys.length := by
    rcases Nat.lt_or_ge (s.start + s.pushes) keys.length with h' | h'
    · exact h'
    · rw [List.getElem?_eq_none h'] at hk; cases hk
  have hS' : k ∈ S := by simpa using hS
  constructor
  · constructor
    · constructor
      · show s.warmed ++ [(k, tp k)] = _
        rw [take_succ_drop keys _ _ k hk, ← List.append_assoc, List.filter_append, List.map_append, ← hinv.h2.hw]
        simp [hS']
      · show s.sk.q.map _ = _
        rw [take_succ_drop keys _ _ k hk, ← List.append_assoc, List.filter_append, List.map_append, ← hinv.h2.hq]
        simp [hS']
      · exact hinv.h2.hroom
      · exact hinv.h2.hlat
      · exact hinv.h2.hspec
    · exact hinv.hlen
    · show s.start + (s.pushes + 1) ≤ keys.length
      omega
    · exact hinv.hpw
    · exact hinv.hcalls
  · simp only [meas]
    rw [unp_drop_getElem lat keys _ k hk]
    simp only [List.length_append, List.length_cons, List.length_nil]
    have : s.start + (s.pushes + 1) = s.start + s.pushes + 1 := by omega
    rw [this]
    omega

theorem push_cold {pre : List Key} {s : TSt} {k : Key} (hinv : Inv keys tp S room lat pre s)
    (hk : keys[s.start + s.pushes]? = some k) (hS : S.contains k = false) :
    Inv keys tp S room lat pre
      { s with pushes := s.pushes + 1, sk := { s.sk with q := s.sk.q ++ [(k, s.sk.spec k, s.sk.lat k)] } } ∧
    meas keys lat { s with pushes := s.pushes + 1, sk := { s.sk with q := s.sk.q ++ [(k, s.sk.spec k, s.sk.lat k)] } } < meas keys lat s := by
  have hlt : s.start + s.pushes < keys.length := by
    rcases Nat.lt_or_ge (s.start + s.pushes) keys.length with h' | h'
    · exact h'
    · rw [List.getElem?_eq_none h'] at hk; cases hk
  have hS' : ¬ k ∈ S := by simpa using hS
  constructor
  · constructor
    · constructor
      · show s.warmed = _
        rw [take_succ_drop keys _ _ k hk, ← List.append_assoc, List.filter_append, List.map_append, ← hinv.h2.hw]
        simp [hS']
      · show (s.sk.q ++ [(k, s.sk.spec k, s.sk.lat k)]).map _ = _
        rw [take_succ_drop keys _ _ k hk, ← List.append_assoc, List.filter_append, List.map_append, List.map_append, ← hinv.h2.hq]
        simp [hS', hinv.h2.hspec]
      · exact hinv.h2.hroom
      · exact hinv.h2.hlat
      · exact hinv.h2.hspec
    · exact hinv.hlen
    · show s.start + (s.pushes + 1) ≤ keys.length
      omega
    · exact hinv.hpw
    · exact hinv.hcalls
  · simp only [meas]
    rw [unp_drop_getElem lat keys _ k hk]
    simp only [List.length_append, List.length_cons, List.length_nil, qlat, List.map_append, List.map_cons,
      List.map_nil, List.sum_append, List.sum_cons, List.sum_nil, hinv.h2.hlat]
    have : s.start + (s.pushes + 1) = s.start + s.pushes + 1 := by omega
    rw [this]
    omega

theorem pushLoop_spec : ∀ (fuel : Nat) (s : TSt) (pre : List Key), Inv keys tp S room lat pre s →
    keys.length - (s.start + s.pushes) < fuel →
    ∃ s', pushLoop (toyIface (List Bool)) keys keys.length (warmF tp S) fuel s = some s' ∧
      Inv keys tp S room lat pre s' ∧ meas keys lat s' ≤ meas keys lat s ∧
      ((toyIface (List Bool)).hasRoom s.sk = true → s.start + s.pushes < keys.length →
        meas keys lat s' < meas keys lat s) ∧
      (∃ ext, s'.sk.q = s.sk.q ++ ext)
  | 0, _, _, _, hf => by omega
  | f + 1, s, pre, hinv, hf => by
    rw [pushLoop]
    by_cases hc : ((toyIface (List Bool)).hasRoom s.sk && decide (s.start + s.pushes < keys.length)) = true
    · rw [if_pos hc]
      have hlt : s.start + s.pushes < keys.length := by
        simp only [Bool.and_eq_true, decide_eq_true_eq] at hc; exact hc.2
      rw [List.getElem?_eq_getElem hlt]
      simp only
      have hk : keys[s.start + s.pushes]? = some keys[s.start + s.pushes] := List.getElem?_eq_getElem hlt
      generalize keys[s.start + s.pushes] = k at hk
      cases hS : S.contains k with
      | true =>
        have hw : warmF tp S k = some (tp k) := by simp only [warmF, hS, if_true]
        rw [hw]
        simp only
        obtain ⟨hinv1, hm1⟩ := push_warm keys tp S room lat hinv hk hS
        split
        · exact ⟨_, rfl, hinv1, Nat.le_of_lt hm1, fun _ _ => hm1, [], by simp⟩
        · obtain ⟨s', he, hinv', hm', _, hext⟩ := pushLoop_spec f _ pre hinv1 (by show _ - (s.start + (s.pushes + 1)) < f; omega)
          exact ⟨s', he, hinv', by omega, fun _ _ => by omega, hext⟩
      | false =>
        have hw : warmF tp S k = none := by simp only [warmF, hS]; rfl
        rw [hw]
        simp only
        obtain ⟨hinv1, hm1⟩ := push_cold keys tp S room lat hinv hk hS
        obtain ⟨s', he, hinv', hm', _, ext, hext⟩ := pushLoop_spec f _ pre hinv1 (by show _ - (s.start + (s.pushes + 1)) < f; omega)
        refine ⟨s', he, hinv', by omega, fun _ _ => by omega, (k, s.sk.spec k, s.sk.lat k) :: ext, ?_⟩
        rw [hext]; simp
    · rw [if_neg hc]
      refine ⟨s, rfl, hinv, Nat.le_refl _, ?_, [], by simp⟩
      intro h1 h2
      exact absurd (by simp [h1, h2]) hc

def recvSt (s : TSt) : TSt := { s with sk := { s.sk with q := (decLast s.sk.q).1 } }

theorem decLast_inv {pre : List Key} {s : TSt} (hinv : Inv keys tp S room lat pre s) :
    Inv keys tp S room lat pre (recvSt s) ∧
    meas keys lat (recvSt s) + (s.sk.q.any (fun x => decide (x.2.2 > 0))).toNat = meas keys lat s := by
  obtain ⟨h1, h2, h3, h4⟩ := decLast_spec s.sk.q
  constructor
  · constructor
    · constructor
      · exact hinv.h2.hw
      · show (decLast s.sk.q).1.map _ = _
        rw [h1]; exact hinv.h2.hq
      · exact hinv.h2.hroom
      · exact hinv.h2.hlat
      · exact hinv.h2.hspec
    · exact hinv.hlen
    · exact hinv.hbound
    · exact hinv.hpw
    · exact hinv.hcalls
  · simp only [meas, recvSt, h2]
    rw [← h4]
    omega

theorem afterStep_spec {pre : List Key} {s : TSt} (hinv : Inv keys tp S room lat pre s) (hroom : 1 ≤ room) :
    ∃ s2, afterStep (toyIface (List Bool)) keys keys.length (warmF tp S) s = some s2 ∧
      Inv keys tp S room lat pre s2 ∧ meas keys lat s2 ≤ meas keys lat s ∧
      (s.sk.q.any (fun x => decide (x.2.2 > 0)) = true → meas keys lat s2 < meas keys lat s) ∧
      (s.pushes = 0 → s.sk.q = [] → s.start < keys.length → meas keys lat s2 < meas keys lat s) := by
  simp only [afterStep]
  by_cases hc : (!(toyIface (List Bool)).hasRoom ((toyIface (List Bool)).submitAll s.sk) && (toyIface (List Bool)).hasLive ((toyIface (List Bool)).submitAll s.sk)) = true
  · rw [if_pos hc]
    show ∃ s2, some (recvSt s) = some s2 ∧ _
    obtain ⟨hi, hm⟩ := decLast_inv keys tp S room lat hinv
    have hlive : s.sk.q.any (fun x => decide (x.2.2 > 0)) = true := by
      simp only [Bool.and_eq_true] at hc; exact hc.2
    rw [hlive] at hm
    simp only [Bool.toNat_true] at hm
    exact ⟨_, rfl, hi, by omega, fun _ => by omega, fun _ _ _ => by omega⟩
  · rw [if_neg hc]
    obtain ⟨s1, he, hinv1, hm1, hstrict, ext, hext⟩ :=
      pushLoop_spec keys tp S room lat (keys.length + 1) s pre hinv (by omega)
    have he' : pushLoop (toyIface (List Bool)) keys keys.length (warmF tp S) (keys.length + 1) { start := s.start, pushes := s.pushes, skips := s.skips, warmed := s.warmed, sk := (toyIface (List Bool)).submitAll s.sk, calls := s.calls } = some s1 := he
    rw [he']
    show ∃ s2, some (recvSt s1) = some s2 ∧ _
    obtain ⟨hi, hm⟩ := decLast_inv keys tp S room lat hinv1
    refine ⟨_, rfl, hi, by omega, ?_, ?_⟩
    · intro hany
      have : s1.sk.q.any (fun x => decide (x.2.2 > 0)) = true := by
        rw [hext, List.any_append, hany]; rfl
      rw [this] at hm
      simp only [Bool.toNat_true] at hm
      omega
    · intro hp hq hs
      have hr : (toyIface (List Bool)).hasRoom s.sk = true := by
        show decide ((s.sk.q.filter (fun x => x.2.2 > 0)).length < s.sk.room) = true
        rw [hq, hinv.h2.hroom]
        simp only [List.filter_nil, List.length_nil]
        exact decide_eq_true (by omega)
      have h3 : meas keys lat s1 < meas keys lat s := hstrict hr (by omega)
      omega

theorem getElem?_lt {α : Type} {L : List α} {i : Nat} {x : α} (h : L[i]? = some x) : i < L.length := by
  rcases Nat.lt_or_ge i L.length with h' | h'
  · exact h'
  · rw [List.getElem?_eq_none h'] at h; cases h

theorem take_drop_cons {α : Type} (L : List α) (i m : Nat) (p : α) (rest : List α)
    (h : (L.drop i).take m = p :: rest) : 1 ≤ m ∧ L[i]? = some p ∧ rest = (L.drop (i + 1)).take (m - 1) := by
  cases m with
  | zero => simp at h
  | succ m =>
    cases hd : L.drop i with
    | nil => rw [hd] at h; simp at h
    | cons y ys =>
      rw [hd, List.take_succ_cons] at h
      injection h with h1 h2
      refine ⟨by omega, ?_, ?_⟩
      · have : (L.drop i)[0]? = some y := by rw [hd]; rfl
        rw [List.getElem?_drop] at this
        rw [← h1]; simpa using this
      · have : L.drop (i + 1) = ys := by
          rw [← List.drop_drop, hd]; rfl
        rw [this, ← h2]; rfl

theorem batch_bounds (start : Nat) (p : Key) (hk : keys[start]? = some p) (hp : (tp p).isPrefixOf p = true) :
    1 ≤ Split.batchSize (tp p) (opsOf keys) start ∧
      start + Split.batchSize (tp p) (opsOf keys) start ≤ keys.length := by
  have hi : start < keys.length := getElem?_lt hk
  have hkp : keys[start] = p := by
    rw [List.getElem?_eq_getElem hi] at hk; exact Option.some.inj hk
  constructor
  · unfold Split.batchSize opsOf
    rw [← List.map_drop, List.drop_eq_getElem_cons hi, hkp, List.map_cons, List.takeWhile_cons]
    simp [Split.subtrieContains, hp]
  · unfold Split.batchSize
    have h1 := (List.takeWhile_sublist (fun (o : Split.Op Nat) => Split.subtrieContains (tp p) o.1)
      (l := (opsOf keys).drop start)).length_le
    have h2 : ((opsOf keys).drop start).length = keys.length - start := by simp [opsOf]
    omega

theorem W_step (f start : Nat) (p : Key) (hk : keys[start]? = some p)
    (hb : 1 ≤ Split.batchSize (tp p) (opsOf keys) start) :
    W keys tp (f + 1) start =
      (W keys tp f (start + Split.batchSize (tp p) (opsOf keys) start)).map (fun r => (start, tp p) :: r) := by
  have hi : start < keys.length := getElem?_lt hk
  have ho : (opsOf keys)[start]? = some (p, Split.RW.read) := by simp [opsOf, hk]
  simp only [W, Split.workerLoop, if_pos hi, Split.handleCompletion, ho]
  rw [if_neg (by omega)]
  simp [Option.map_map, Function.comp_def]

theorem W_end (f start : Nat) (h : ¬ start < keys.length) : W keys tp (f + 1) start = some [] := by
  simp only [W, Split.workerLoop, if_neg h]
  rfl

theorem complete_spec (htp : ∀ k ∈ keys, (tp k).isPrefixOf k = true) {pre : List Key} {s : TSt}
    {w0 : List (Key × List Bool)} {t0 : Toy (List Bool)} {p : Key} {rest : List Key}
    (hinv : Inv keys tp S room lat pre s)
    (hpend : pre ++ (keys.drop s.start).take s.pushes = p :: rest)
    (h0 : Inv2 tp S room lat rest ({ s with warmed := w0, sk := t0 } : TSt)) :
    ∃ s1 pre1, complete (nextF keys) ({ s with warmed := w0, sk := t0 } : TSt) (p, tp p) = some s1 ∧
      Inv keys tp S room lat pre1 s1 ∧ s1.warmed = w0 ∧ s1.sk = t0 ∧
      s.start + s.pushes ≤ s1.start + s1.pushes := by
  unfold complete
  by_cases hs : s.skips > 0
  · have hs' : ({ s with warmed := w0, sk := t0 } : TSt).skips > 0 := hs
    rw [if_pos hs']
    cases pre with
    | nil => have := hinv.hlen; simp at this; omega
    | cons x pre' =>
      rw [List.cons_append] at hpend
      injection hpend with h1 h2
      refine ⟨_, pre', rfl, ?_, rfl, rfl, Nat.le_refl _⟩
      constructor
      · show Inv2 tp S room lat (pre' ++ (keys.drop s.start).take s.pushes) _
        rw [h2]; exact h0.congr rfl rfl
      · have := hinv.hlen
        show pre'.length = s.skips - 1
        simp at this; omega
      · exact hinv.hbound
      · have := hinv.hpw
        rw [List.cons_append, List.pairwise_cons] at this
        exact this.2
      · exact hinv.hcalls
  · have hs' : ¬ ({ s with warmed := w0, sk := t0 } : TSt).skips > 0 := hs
    rw [if_neg hs']
    have hpre : pre = [] := by
      have := hinv.hlen
      cases pre with
      | nil => rfl
      | cons x xs => simp at this; omega
    subst hpre
    rw [List.nil_append] at hpend
    obtain ⟨hm, hk, hrest⟩ := take_drop_cons keys s.start s.pushes p rest hpend
    have hmem : p ∈ keys := List.mem_of_getElem? hk
    obtain ⟨hb1, hb2⟩ := batch_bounds keys tp s.start p hk (htp p hmem)
    have hnext : nextF keys s.start (p, tp p) = s.start + Split.batchSize (tp p) (opsOf keys) s.start := rfl
    generalize hbdef : Split.batchSize (tp p) (opsOf keys) s.start = b at hb1 hb2 hnext
    have hbound := hinv.hbound
    simp only [hnext, Nat.add_sub_cancel_left]
    rw [if_neg (by omega)]
    refine ⟨_, (keys.drop (s.start + 1)).take (min s.pushes b - 1), rfl, ?_, rfl, rfl, ?_⟩
    · constructor
      · show Inv2 tp S room lat
          ((keys.drop (s.start + 1)).take (min s.pushes b - 1) ++ (keys.drop (s.start + b)).take (s.pushes - b)) _
        have e : rest = (keys.drop (s.start + 1)).take (min s.pushes b - 1) ++
            (keys.drop (s.start + b)).take (s.pushes - b) := by
          rw [hrest, take_min_split (keys.drop (s.start + 1)) s.pushes b hb1 hm, List.drop_drop]
          congr 3; omega
        rw [← e]; exact h0.congr rfl rfl
      · show ((keys.drop (s.start + 1)).take (min s.pushes b - 1)).length = min s.pushes b - 1
        rw [List.length_take, List.length_drop]; omega
      · show s.start + b + (s.pushes - b) ≤ keys.length
        omega
      · show ((keys.drop (s.start + 1)).take (min s.pushes b - 1) ++ keys.drop (s.start + b)).Pairwise _
        have h1 : (keys.drop (s.start + 1)).Pairwise (fun a b => bitsLt a b = true) := by
          have := hinv.hpw
          rw [List.nil_append] at this
          exact this.sublist (by rw [← List.drop_drop]; exact List.drop_sublist _ _)
        have h2 : keys.drop (s.start + b) = (keys.drop (s.start + 1)).drop (b - 1) := by
          rw [List.drop_drop]; congr 1; omega
        rw [h2]
        exact h1.sublist (take_drop_sublist _ _ _ (by omega))
      · obtain ⟨f, hf, hW⟩ := hinv.hcalls
        cases f with
        | zero => omega
        | succ f =>
          refine ⟨f, ?_, ?_⟩
          · show keys.length - (s.start + b) < f
            omega
          · show _ = (W keys tp f (s.start + b)).map
              (fun r => (s.calls ++ [(s.start, (p, tp p))]).map (fun c => (c.1, c.2.2)) ++ r)
            rw [hW, W_step keys tp f s.start p hk (by omega), hbdef, Option.map_map]
            congr 1
            funext r
            simp
    · show s.start + s.pushes ≤ s.start + b + (s.pushes - b)
      omega

theorem mem_q_of {rest : List Key} {P : Key → Bool} {q : List (Key × List Bool × Nat)}
    (hq : q.map (fun x => (x.1, x.2.1)) = (rest.filter P).map (fun k => (k, tp k)))
    (x : Key × List Bool × Nat) (hx : x ∈ q) : x.1 ∈ rest := by
  have h1 : (x.1, x.2.1) ∈ q.map (fun x => (x.1, x.2.1)) := List.mem_map_of_mem hx
  rw [hq, List.mem_map] at h1
  obtain ⟨k, hk, he⟩ := h1
  have : k = x.1 := congrArg Prod.fst he
  rw [← this]
  exact (List.mem_filter.1 hk).1

theorem mem_w_of {rest : List Key} {P : Key → Bool} {w : List (Key × List Bool)}
    (hw : w = (rest.filter P).map (fun k => (k, tp k)))
    (x : Key × List Bool) (hx : x ∈ w) : x.1 ∈ rest := by
  rw [hw, List.mem_map] at hx
  obtain ⟨k, hk, he⟩ := hx
  have : k = x.1 := congrArg Prod.fst he
  rw [← this]
  exact (List.mem_filter.1 hk).1

theorem takeStep_spec (htp : ∀ k ∈ keys, (tp k).isPrefixOf k = true) {pre : List Key} {s : TSt}
    (hinv : Inv keys tp S room lat pre s) :
    ∃ s1 pre1, takeStep (toyIface (List Bool)) (nextF keys) false s = some s1 ∧
      Inv keys tp S room lat pre1 s1 ∧ meas keys lat s1 ≤ meas keys lat s ∧
      (meas keys lat s1 < meas keys lat s ∨
        (s1 = s ∧ ((s.sk.q = [] ∧ (s.start < keys.length → s.pushes = 0)) ∨
          s.sk.q.any (fun x => decide (x.2.2 > 0)) = true))) := by
  have hpwp : (pre ++ (keys.drop s.start).take s.pushes).Pairwise (fun a b => bitsLt a b = true) :=
    hinv.hpw.sublist (List.Sublist.append (List.Sublist.refl _) (List.take_sublist _ _))
  have hw := hinv.h2.hw
  have hq := hinv.h2.hq
  cases hpend : pre ++ (keys.drop s.start).take s.pushes with
  | nil =>
    rw [hpend] at hw hq
    simp only [List.filter_nil, List.map_nil] at hw hq
    have hq0 : s.sk.q = [] := by simpa using hq
    have hu : useWarm (toyIface (List Bool)) false s = false := by
      unfold useWarm; rw [hw]; rfl
    have e := takeStep_cold_none (toyIface (List Bool)) (nextF keys) false s s.sk hu (toy_take_nil s.sk hq0)
    refine ⟨s, pre, e, hinv, Nat.le_refl _, Or.inr ⟨rfl, Or.inl ⟨hq0, ?_⟩⟩⟩
    intro hlt
    have h1 := (List.append_eq_nil_iff.1 hpend).2
    rcases List.take_eq_nil_iff.1 h1 with h2 | h2
    · exact h2
    · have := congrArg List.length h2
      simp at this; omega
  | cons p rest =>
    rw [hpend] at hw hq hpwp
    have hlt : ∀ k ∈ rest, bitsLt p k = true := (List.pairwise_cons.1 hpwp).1
    cases hS : S.contains p with
    | true =>
      have hw1 : s.warmed = (p, tp p) :: (rest.filter (fun k => S.contains k)).map (fun k => (k, tp k)) := by
        rw [hw, List.filter_cons, hS]; rfl
      have hq1 : s.sk.q.map (fun x => (x.1, x.2.1)) =
          (rest.filter (fun k => !S.contains k)).map (fun k => (k, tp k)) := by
        rw [hq, List.filter_cons, hS]; rfl
      have hu := useWarm_true s p (tp p) _ hw1 (fun x hx => hlt _ (mem_q_of tp hq1 x hx))
      have hh : s.warmed.head? = some (p, tp p) := by rw [hw1]; rfl
      rw [takeStep_warm _ _ _ s _ hu hh]
      have h0 : Inv2 tp S room lat rest ({ s with warmed := s.warmed.tail, sk := s.sk } : TSt) := by
        constructor
        · show s.warmed.tail = _
          rw [hw1]; rfl
        · exact hq1
        · exact hinv.h2.hroom
        · exact hinv.h2.hlat
        · exact hinv.h2.hspec
      obtain ⟨s1, pre1, he, hinv1, hws, hsks, hge⟩ := complete_spec keys tp S room lat htp hinv hpend h0
      have hm : meas keys lat s1 < meas keys lat s := by
        have := unp_drop_le lat keys _ _ hge
        simp only [meas, hws, hsks]
        rw [hw1]
        simp only [List.tail_cons, List.length_cons]
        omega
      exact ⟨s1, pre1, he, hinv1, Nat.le_of_lt hm, Or.inl hm⟩
    | false =>
      have hw1 : s.warmed = (rest.filter (fun k => S.contains k)).map (fun k => (k, tp k)) := by
        rw [hw, List.filter_cons, hS]; rfl
      have hq1 : s.sk.q.map (fun x => (x.1, x.2.1)) =
          (p, tp p) :: (rest.filter (fun k => !S.contains k)).map (fun k => (k, tp k)) := by
        rw [hq, List.filter_cons, hS]; rfl
      cases hqq : s.sk.q with
      | nil => rw [hqq] at hq1; simp at hq1
      | cons x q' =>
        obtain ⟨k0, r0, l⟩ := x
        rw [hqq, List.map_cons] at hq1
        injection hq1 with h1 h2
        injection h1 with hk0 hr0
        simp only at hk0 hr0
        subst hk0
        subst hr0
        have hu := useWarm_false s k0 (tp k0) l q' hqq (fun x hx => hlt _ (mem_w_of tp hw1 x hx))
        cases l with
        | zero =>
          rw [takeStep_cold_some _ _ _ s _ _ hu (toy_take_zero s.sk _ _ _ hqq)]
          have h0 : Inv2 tp S room lat rest ({ s with warmed := s.warmed, sk := { s.sk with q := q' } } : TSt) := by
            constructor
            · exact hw1
            · exact h2
            · exact hinv.h2.hroom
            · exact hinv.h2.hlat
            · exact hinv.h2.hspec
          obtain ⟨s1, pre1, he, hinv1, hws, hsks, hge⟩ := complete_spec keys tp S room lat htp hinv hpend h0
          have hm : meas keys lat s1 < meas keys lat s := by
            have := unp_drop_le lat keys _ _ hge
            simp only [meas, hws, hsks, hqq, qlat, List.map_cons, List.sum_cons, List.length_cons]
            omega
          exact ⟨s1, pre1, he, hinv1, Nat.le_of_lt hm, Or.inl hm⟩
        | succ l =>
          have e := takeStep_cold_none (toyIface (List Bool)) (nextF keys) false s s.sk hu
            (toy_take_pos s.sk _ _ _ _ hqq)
          refine ⟨s, pre, e, hinv, Nat.le_refl _, Or.inr ⟨rfl, Or.inr ?_⟩⟩
          simp

theorem updLoop_run (htp : ∀ k ∈ keys, (tp k).isPrefixOf k = true) (hroom : 1 ≤ room) :
    ∀ (f : Nat) (s : TSt) (pre : List Key), Inv keys tp S room lat pre s → meas keys lat s < f →
    ∃ s' pre', updLoop (toyIface (List Bool)) keys keys.length (warmF tp S) (nextF keys) false f s = some s' ∧
      Inv keys tp S room lat pre' s' ∧ ¬ s'.start < keys.length
  | 0, _, _, _, hf => by omega
  | f + 1, s, pre, hinv, hf => by
    rw [updLoop_succ]
    by_cases hc : (decide (s.start < keys.length) || !(toyIface (List Bool)).isEmpty s.sk) = true
    · rw [if_pos hc]
      obtain ⟨s1, pre1, he1, hinv1, hle1, hcase⟩ := takeStep_spec keys tp S room lat htp hinv
      rw [he1]
      simp only
      obtain ⟨s2, he2, hinv2, hle2, hany, hempty⟩ := afterStep_spec keys tp S room lat hinv1 hroom
      rw [he2]
      simp only
      have hm : meas keys lat s2 < meas keys lat s := by
        rcases hcase with h | ⟨h0, h | h⟩
        · omega
        · subst h0
          have hlt : s1.start < keys.length := by
            have : (toyIface (List Bool)).isEmpty s1.sk = true := by
              show s1.sk.q.isEmpty = true
              rw [h.1]; rfl
            rw [this] at hc
            simpa using hc
          exact hempty (h.2 hlt) h.1 hlt
        · subst h0
          exact hany h
      exact updLoop_run htp hroom f s2 pre1 hinv2 (by omega)
    · rw [if_neg hc]
      refine ⟨s, pre, rfl, hinv, ?_⟩
      intro hlt
      apply hc
      simp [hlt]

end main

/-- **T13.warm (general)**: `C13.T13_update_loop_transparent_statement`, with no extra hypothesis. -/
theorem updLoop_transparent (keys : List Key) (tp : Key → List Bool) (S : List Key) (room : Nat) (lat : Key → Nat)
    (hroom : 1 ≤ room) (hsorted : keys.Pairwise (fun a b => bitsLt a b = true))
    (htp : ∀ k ∈ keys, (tp k).isPrefixOf k = true) :
    ∃ fuel s, updLoop (toyIface (List Bool)) keys keys.length (fun k => if S.contains k then some (tp k) else none)
        (fun start c => start + Split.batchSize c.2 (keys.map (fun k => (k, (Split.RW.read : Split.RW Nat)))) start)
        false fuel { start := 0, sk := { room := room, lat := lat, spec := tp } } = some s ∧
      (Split.workerLoop tp (keys.map (fun k => (k, (Split.RW.read : Split.RW Nat)))) (fun _ => true) 0 keys.length
          (keys.length + 1) 0).map (fun bs => bs.map (fun b => (b.start, b.pos))) =
        some (s.calls.map (fun c => (c.1, c.2.2))) := by
  have hinit : Inv keys tp S room lat [] ({ start := 0, sk := { room := room, lat := lat, spec := tp } } : TSt) := by
    constructor
    · constructor <;> rfl
    · rfl
    · exact Nat.zero_le _
    · exact hsorted
    · refine ⟨keys.length + 1, by show keys.length - 0 < _; omega, ?_⟩
      show _ = (W keys tp (keys.length + 1) 0).map (fun r => [] ++ r)
      simp
  obtain ⟨s', pre', he, hinv', hend⟩ := updLoop_run keys tp S room lat htp hroom _ _ [] hinit (Nat.lt_succ_self _)
  refine ⟨_, s', he, ?_⟩
  obtain ⟨f, hf, hW⟩ := hinv'.hcalls
  cases f with
  | zero => omega
  | succ f =>
    rw [W_end keys tp f s'.start hend] at hW
    simp only [Option.map_some, List.append_nil] at hW
    exact hW

end Nomt.SeekerLoop
