import NomtModel.Api.OvlBtSpec
import NomtModel.Api.OvlValue
/-!
`BeatreeIterator::new`: the fresh iterator satisfies the invariant, its leaf stream is the part of the on-disk
entries inside the half-open range, the fuel of `runAll` suffices.  (Helper lemmas for `Props/C05_BtIter.lean`.)
-/
namespace Nomt.Ovl
open Nomt
variable {V : Type}

theorem dropWhile_append_of_all_false {A : Type} (p : A → Bool) (a b : List A) (h : ∀ e ∈ b, p e = false) :
    (a ++ b).dropWhile p = a.dropWhile p ++ b := by
  induction a with
  | nil =>
    simp only [List.nil_append, List.dropWhile_nil]
    cases b with
    | nil => rfl
    | cons x xs => simp [List.dropWhile, h x (List.mem_cons_self ..)]
  | cons x xs ih =>
    simp only [List.cons_append, List.dropWhile]
    cases p x with
    | true => exact ih
    | false => rfl

theorem cutStop_eq_filter {stop : Option Key} {l : KVL V} (hs : KSorted l) :
    cutStop stop l = l.filter (fun e => beforeStop stop e.1) := by
  unfold cutStop
  cases stop with
  | none =>
    simp only [beforeStop]
    rw [takeWhile_true]
    exact (List.filter_eq_self.2 (fun _ _ => rfl)).symm
  | some s =>
    simp only [beforeStop]
    exact takeWhile_lt_eq_filter hs s

theorem inRange_eq (start : Key) (stop : Option Key) (k : Key) :
    inRange start stop k = (!bitsLt k start && beforeStop stop k) := by
  cases stop <;> rfl

theorem leavesOK_tail {l : Leaf V} {rest : List (Leaf V)} (h : LeavesOK (l :: rest)) : LeavesOK rest := h.2.2.2

/-- what `index.lookup(start)` + `search_branch` select: the leaves before are entirely below `start`, the
leaf's separator is not above `start`, all later separators are -/
theorem dropToStart_spec (a : Leaf V) (as : List (Leaf V)) (hl : LeavesOK (a :: as)) (start : Key)
    (h0 : bitsLt start a.sep = false) :
    ∃ pre l rest, dropToStart (a :: as) start = l :: rest ∧ a :: as = pre ++ l :: rest ∧
      (∀ e ∈ flat pre, bitsLt e.1 start = true) ∧ bitsLt start l.sep = false ∧
      (∀ l' ∈ rest, bitsLt start l'.sep = true) := by
  induction as generalizing a with
  | nil => exact ⟨[], a, [], rfl, rfl, fun e he => by simp [flat] at he, h0, fun l' hl' => by cases hl'⟩
  | cons b r ih =>
    obtain ⟨h1, h2, h3, h4⟩ := hl
    unfold dropToStart
    by_cases hb : bitsLt start b.sep = true
    · simp only [hb, Bool.not_true, Bool.false_eq_true, if_false]
      refine ⟨[], a, b :: r, rfl, rfl, fun e he => by simp [flat] at he, h0, ?_⟩
      intro l' hl'
      rcases List.mem_cons.1 hl' with e | e
      · subst e; exact hb
      · exact bitsLt_trans hb ((h4.2.2.1 l' e).1)
    · have hb' : bitsLt start b.sep = false := by simpa using hb
      simp only [hb', Bool.not_false, if_true]
      obtain ⟨pre, l, rest, e1, e2, e3, e4, e5⟩ := ih b h4 hb'
      refine ⟨a :: pre, l, rest, e1, by rw [e2]; rfl, ?_, e4, e5⟩
      intro e he
      rw [flat_cons, List.mem_append] at he
      rcases he with he | he
      · exact lt_of_lt_of_not_lt ((h3 b (List.mem_cons_self ..)).2 e he) hb'
      · exact e3 e he

theorem leavesOK_suffix {pre suf : List (Leaf V)} (h : LeavesOK (pre ++ suf)) : LeavesOK suf := by
  induction pre with
  | nil => exact h
  | cons x xs ih => exact ih (leavesOK_tail h)

theorem leafNew_spec {leaves : List (Leaf V)} (hl : LeavesOK leaves) (start : Key) (stop : Option Key)
    (h0 : ∀ l ∈ leaves.head?, bitsLt start l.sep = false) :
    LInv (LeafIt.new leaves start stop) ∧ (LeafIt.new leaves start stop).stop = stop ∧
    (LeafIt.new leaves start stop).stream = (flat leaves).filter (fun e => inRange start stop e.1) := by
  unfold LeafIt.new
  cases leaves with
  | nil => exact ⟨trivial, rfl, rfl⟩
  | cons a as =>
    have ha : bitsLt start a.sep = false := h0 a (by simp)
    simp only [ha, Bool.false_eq_true, if_false]
    obtain ⟨pre, l, rest, e1, e2, e3, e4, e5⟩ := dropToStart_spec a as hl start ha
    have hsuf : LeavesOK (l :: rest) := leavesOK_suffix (e2 ▸ hl)
    refine ⟨?_, (by first | rfl | trivial), ?_⟩
    · unfold LInv
      simp only
      rw [e1]
      exact ⟨by simp, hsuf⟩
    · unfold LeafIt.stream
      simp only
      rw [e1]
      simp only [skipStart]
      have hL := flat_sorted hsuf
      rw [flat_cons] at hL
      have hrest_ge : ∀ e ∈ flat rest, bitsLt e.1 start = false := by
        intro e he
        obtain ⟨l', hl', hel'⟩ := mem_flat he
        have h5 := leavesOK_mem (leavesOK_tail hsuf) hl' e hel'
        have h6 := e5 l' hl'
        cases hh : bitsLt e.1 start with
        | false => rfl
        | true => have := bitsLt_trans hh h6; rw [this] at h5; cases h5
      have hdw : (l.entries ++ flat rest).dropWhile (fun e => bitsLt e.1 start) =
          l.entries.dropWhile (fun e => bitsLt e.1 start) ++ flat rest :=
        dropWhile_append_of_all_false _ _ _ hrest_ge
      -- the leaves before `l` hold nothing in range
      have hflat : flat (a :: as) = flat pre ++ (l.entries ++ flat rest) := by
        rw [e2]; simp [flat]
      have hpre : (flat pre).filter (fun e => inRange start stop e.1) = [] := by
        apply List.filter_eq_nil_iff.2
        intro e he
        simp [inRange, e3 e he]
      have hR : (flat (a :: as)).filter (fun e => inRange start stop e.1) =
          (l.entries ++ flat rest).filter (fun e => inRange start stop e.1) := by
        rw [hflat, List.filter_append, hpre, List.nil_append]
      rw [hR, ← hdw, dropWhile_lt_eq_filter hL, cutStop_eq_filter (ksorted_filter hL _), List.filter_filter]
      apply List.filter_congr
      intro e _
      rw [inRange_eq, Bool.and_comm]

theorem foldl_pending_ge (ls : List (Leaf V)) (a : Nat) :
    a + (ls.map (fun l => l.entries.length + 1)).sum ≤ ls.foldl (fun a l => a + l.entries.length + 2) a := by
  induction ls generalizing a with
  | nil => simp
  | cons l rest ih =>
    simp only [List.map_cons, List.sum_cons, List.foldl_cons]
    have := ih (a + l.entries.length + 2)
    omega

theorem leaf_measure_le (it : LeafIt V) (h : it.st = .blocked ∨ it.st = .done) :
    it.measure ≤ it.pending.foldl (fun a l => a + l.entries.length + 2) 0 := by
  have := foldl_pending_ge it.pending 0
  unfold LeafIt.measure
  rcases h with h | h <;> rw [h] <;> simp only <;> omega

theorem wsLookup_filter_key (ws : List (Key × Option V)) (q : Key → Bool) (k : Key) :
    wsLookup (ws.filter (fun e => q e.1)) k = if q k then wsLookup ws k else none := by
  induction ws with
  | nil => simp [wsLookup]
  | cons x xs ih =>
    obtain ⟨k', w⟩ := x
    by_cases hq : q k' = true
    · simp only [List.filter, hq, wsLookup]
      by_cases hk : (k' == k) = true
      · have : k' = k := by simpa using hk
        subst this
        simp [hq]
      · simp only [hk, Bool.false_eq_true, if_false]; exact ih
    · have hq' : q k' = false := by simpa using hq
      simp only [List.filter, hq', wsLookup]
      by_cases hk : (k' == k) = true
      · have : k' = k := by simpa using hk
        subst this
        rw [ih]; simp [hq']
      · simp only [hk, Bool.false_eq_true, if_false]; exact ih

theorem runAll_of_inv (it : BtIt V) (inv : BtInv it) (hst : it.leaf.st = .blocked ∨ it.leaf.st = .done) :
    ∃ n, it.runAll = .ok (it.spec, n) := by
  have hm := leaf_measure_le it.leaf hst
  unfold BtIt.runAll
  obtain ⟨n, hn⟩ := run_spec (2 * (it.mem.primary.length + it.mem.secondary.length +
      it.leaf.pending.foldl (fun a l => a + l.entries.length + 2) 0) + 8) it [] 0 inv
    (by simp only [BtIt.measure]; omega)
  exact ⟨n, by simpa using hn⟩

/-- **the iterator run to exhaustion**: the items are the sorted-map union of the on-disk entries in range
with the staging stream -/
theorem runAll_spec (primary secondary : List (Key × Option V)) (leaves : List (Leaf V)) (start : Key)
    (stop : Option Key) (hp : OvSorted primary) (hs : OvSorted secondary) (hl : LeavesOK leaves)
    (h0 : ∀ l ∈ leaves.head?, bitsLt start l.sep = false) :
    ∃ n, (BtIt.new primary secondary leaves start stop).runAll =
      .ok (kvApply ((flat leaves).filter (fun e => inRange start stop e.1))
            (smerge (rangeOf primary start stop) (rangeOf secondary start stop)), n) := by
  obtain ⟨li, lstop, lstream⟩ := leafNew_spec hl start stop h0
  have inv : BtInv (BtIt.new primary secondary leaves start stop) := by
    refine ⟨li, List.Pairwise.filter _ hp, List.Pairwise.filter _ hs, ?_⟩
    intro e he
    show beforeStop (LeafIt.new leaves start stop).stop e.1 = true
    rw [lstop]
    have hin : inRange start stop e.1 = true := by
      rcases smerge_mem he with h | h
      · exact (List.mem_filter.1 h).2
      · exact (List.mem_filter.1 h).2
    simp only [inRange, Bool.and_eq_true] at hin
    exact hin.2
  have hst : (LeafIt.new leaves start stop).st = .blocked ∨ (LeafIt.new leaves start stop).st = .done := by
    unfold LeafIt.new
    cases leaves with
    | nil => exact .inr rfl
    | cons a as => simp only; split <;> simp
  obtain ⟨n, hn⟩ := runAll_of_inv _ inv hst
  refine ⟨n, ?_⟩
  rw [hn]
  simp only [BtIt.spec]
  have hleaf : (BtIt.new primary secondary leaves start stop).leaf = LeafIt.new leaves start stop := rfl
  rw [hleaf, lstream]
  rfl

end Nomt.Ovl
