import NomtModel.Api.OvlMerge
/-!
# Mirror of `nomt/src/beatree/iterator.rs`: `BeatreeIterator` (C05 / C11)

`BeatreeIterator::next` merges the in-memory staging maps (`StagingIterator`: primary over secondary, both
restricted to the half-open range by `OrdMap::range`) with the on-disk leaves (`LeafIterator`).  The merge
loop, `StagingIterator::peek / next` and the `LeafIterator` state machine (`Blocked` on a separator,
`Proceeding` inside a leaf, `Done`; `provide_leaf` skipping the keys below `start` in the first leaf; the
end-of-range tests on keys and separators) are mirrored; the branch nodes / `Index` (which leaf comes next)
are abstracted to the ordered list of leaves with their separators.
-/
namespace Nomt.Ovl
open Nomt
variable {V : Type}

/-- a leaf page with the separator the branch node holds for it -/
structure Leaf (V : Type) where
  sep : Key
  entries : KVL V

inductive LeafSt (V : Type) where
  | done
  | blocked
  | proceeding (cur : KVL V)     -- `current.leaf[current.index..]`, never empty

/-- `LeafIterator`; `pending` = the leaves not yet provided (when `blocked` its head is the one needed) -/
structure LeafIt (V : Type) where
  st : LeafSt V
  pending : List (Leaf V)
  start : Option Key
  stop : Option Key

/-- `end.map_or(true, |end| k < end)` -/
def beforeStop (stop : Option Key) (k : Key) : Bool :=
  match stop with | none => true | some e => bitsLt k e

/-- `index.lookup(start)` + `search_branch`: the last leaf whose separator is `≤ start` -/
def dropToStart : List (Leaf V) → Key → List (Leaf V)
  | a :: b :: rest, start => if !bitsLt start b.sep then dropToStart (b :: rest) start else a :: b :: rest
  | l, _ => l

def LeafIt.new (leaves : List (Leaf V)) (start : Key) (stop : Option Key) : LeafIt V :=
  match leaves with
  | [] => { st := .done, pending := [], start := some start, stop := stop }
  | a :: _ =>
    if bitsLt start a.sep then { st := .done, pending := [], start := some start, stop := stop }
    else { st := .blocked, pending := dropToStart leaves start, start := some start, stop := stop }

/-- `peek_key`: `(key, pending)` -/
def LeafIt.peekKey (it : LeafIt V) : Option (Key × Bool) :=
  match it.st with
  | .done => none
  | .blocked => it.pending.head?.map (fun l => (l.sep, true))
  | .proceeding cur => cur.head?.map (fun e => (e.1, false))

/-- `new_state_leaf_consumed`: block on the next leaf if its separator is inside the range -/
def leafConsumed (pending : List (Leaf V)) (stop : Option Key) : LeafSt V :=
  match pending with
  | [] => .done
  | l :: _ => if beforeStop stop l.sep then .blocked else .done

inductive ItOut (V : Type) where
  | blocked
  | item (k : Key) (v : V)

/-- `LeafIterator::next` -/
def LeafIt.next (it : LeafIt V) : LeafIt V × Option (ItOut V) :=
  match it.st with
  | .done => (it, none)
  | .blocked => (it, some .blocked)
  | .proceeding [] => ({ it with st := .done }, none)          -- unreachable (never empty)
  | .proceeding (x :: cur) =>
    let lastInRange := beforeStop it.stop x.1
    match cur with
    | [] =>                                                       -- `is_consumed`
      if lastInRange then ({ it with st := leafConsumed it.pending it.stop }, some (.item x.1 x.2))
      else ({ it with st := .done }, none)
    | y :: _ =>
      if !beforeStop it.stop y.1 then
        ({ it with st := .done }, if lastInRange then some (.item x.1 x.2) else none)
      else ({ it with st := .proceeding cur }, some (.item x.1 x.2))

/-- `provide_leaf` (the leaf handed in is the head of `pending`) -/
def LeafIt.provide (it : LeafIt V) : Outcome Unit (LeafIt V) :=
  match it.st, it.pending with
  | .blocked, l :: rest =>
    let cur := match it.start with
      | some s => l.entries.dropWhile (fun e => bitsLt e.1 s)     -- binary search for `start`
      | none => l.entries
    let st := match cur with
      | [] => leafConsumed rest it.stop
      | _ => .proceeding cur
    .ok { st := st, pending := rest, start := none, stop := it.stop }
  | _, _ => .panic "No leaf expected in iterator"

/-- `StagingIterator`: the two range-restricted staging maps -/
structure Staging (V : Type) where
  primary : List (Key × Option V)
  secondary : List (Key × Option V)

def Staging.peek (s : Staging V) : Option (Key × Option V) :=
  match s.primary.head?, s.secondary.head? with
  | none, none => none
  | some x, none => some x
  | none, some x => some x
  | some p, some q => if !bitsLt q.1 p.1 then some p else some q       -- `primary.0 <= secondary.0`

def Staging.next (s : Staging V) : Staging V × Option (Key × Option V) :=
  match s.primary, s.secondary with
  | [], [] => (s, none)
  | p :: ps, [] => ({ s with primary := ps }, some p)
  | [], q :: qs => ({ s with secondary := qs }, some q)
  | p :: ps, q :: qs =>
    if bitsLt p.1 q.1 then ({ s with primary := ps }, some p)
    else if p.1 == q.1 then ({ primary := ps, secondary := qs }, some p)
    else ({ s with secondary := qs }, some q)

structure BtIt (V : Type) where
  mem : Staging V
  leaf : LeafIt V

inductive Action where | takeLeaf | takeMemory | blocked | finished

/-- the `let action = loop { … }` of `BeatreeIterator::next`; every `continue` consumes a staging item, the
fuel is their number -/
def chooseAction : Nat → BtIt V → BtIt V × Action
  | 0, it => (it, .finished)
  | fuel + 1, it =>
    match it.leaf.peekKey, it.mem.peek with
    | none, none => (it, .finished)
    | some _, none => (it, .takeLeaf)
    | none, some (_, none) => chooseAction fuel { it with mem := it.mem.next.1 }
    | none, some _ => (it, .takeMemory)
    | some (lk, pending), some (mk, mv) =>
      if bitsLt mk lk then
        match mv with
        | none => chooseAction fuel { it with mem := it.mem.next.1 }
        | some _ => (it, .takeMemory)
      else if mk == lk then
        if pending then (it, .blocked)
        else match mv with
          | none => chooseAction fuel { mem := it.mem.next.1, leaf := it.leaf.next.1 }
          | some _ => ({ it with leaf := it.leaf.next.1 }, .takeMemory)
      else (it, .takeLeaf)

/-- `BeatreeIterator::next` -/
def BtIt.next (it : BtIt V) : Outcome Unit (BtIt V × Option (ItOut V)) :=
  let fuel := it.mem.primary.length + it.mem.secondary.length + 1
  match chooseAction fuel it with
  | (it, .finished) => .ok (it, none)
  | (it, .blocked) => .ok (it, some .blocked)
  | (it, .takeLeaf) => let r := it.leaf.next; .ok ({ it with leaf := r.1 }, r.2)
  | (it, .takeMemory) =>
    match it.mem.next with
    | (mem, some (k, some v)) => .ok ({ it with mem := mem }, some (.item k v))
    | (_, some (_, none)) => .panic "take memory: deleted"
    | (_, none) => .panic "take memory: unwrap"

/-- `OrdMap::range(start..end)` of a staging map -/
def rangeOf (m : List (Key × Option V)) (start : Key) (stop : Option Key) : List (Key × Option V) :=
  m.filter (fun e => inRange start stop e.1)

def BtIt.new (primary secondary : List (Key × Option V)) (leaves : List (Leaf V)) (start : Key) (stop : Option Key) :
    BtIt V :=
  { mem := { primary := rangeOf primary start stop, secondary := rangeOf secondary start stop },
    leaf := LeafIt.new leaves start stop }

/-- drive the iterator to exhaustion the way `seek.rs` does: on `Blocked` the needed leaf is provided.
Result: the items and how many leaves were loaded. -/
def BtIt.run : Nat → BtIt V → List (Key × V) → Nat → Outcome Unit (List (Key × V) × Nat)
  | 0, _, _, _ => .panic "fuel"
  | fuel + 1, it, acc, loaded =>
    match it.next with
    | .panic m => .panic m
    | .err e => .err e
    | .ok (_, none) => .ok (acc.reverse, loaded)
    | .ok (it, some (.item k v)) => BtIt.run fuel it ((k, v) :: acc) loaded
    | .ok (it, some .blocked) =>
      match it.leaf.provide with
      | .ok lf => BtIt.run fuel { it with leaf := lf } acc (loaded + 1)
      | .panic m => .panic m
      | .err e => .err e

/-- enough fuel: every step yields an item, loads a leaf or ends -/
def BtIt.runAll (it : BtIt V) : Outcome Unit (List (Key × V) × Nat) :=
  let n := it.mem.primary.length + it.mem.secondary.length +
    it.leaf.pending.foldl (fun a l => a + l.entries.length + 2) 0
  BtIt.run (2 * n + 8) it [] 0

end Nomt.Ovl
