import NomtModel.Basic.ExecHasher
/-!
The MSB labelling of `core/src/hasher.rs` (`set_msb`, `unset_msb`, `node_kind_by_msb`), shared by BOTH production
hashers (`BinaryHasher<Blake3>`, `BinaryHasher<Sha2>`): the *kind* clauses of `Hasher.Sound` hold for any digest
function whatsoever — only "no digest of an internal preimage is all-zero after the MSB is cleared" and collision
freedom remain cryptographic assumptions.
-/
namespace Nomt

theorem u8_or80_shr7 (x : UInt8) : (x ||| 0x80) >>> 7 = 1 := by
  cases x with | ofBitVec bv =>
  revert bv; decide

theorem u8_and7f_shr7 (x : UInt8) : (x &&& 0x7f) >>> 7 ≠ 1 := by
  cases x with | ofBitVec bv =>
  revert bv; decide

theorem ByteArray.get!_set!_zero (b : ByteArray) (v : UInt8) (h : 0 < b.size) : (b.set! 0 v).get! 0 = v := by
  cases b with | mk a =>
  simp only [ByteArray.set!, ByteArray.get!, ByteArray.size] at *
  simp [Array.setIfInBounds, h]

theorem ByteArray.size_set! (b : ByteArray) (i : Nat) (v : UInt8) : (b.set! i v).size = b.size := by
  cases b with | mk a =>
  simp [ByteArray.set!, ByteArray.size, Array.setIfInBounds]
  split <;> simp

/-- `node_kind_by_msb (set_msb h) = Leaf` for every non-empty digest -/
theorem kind_setMsb (h : ByteArray) (hs : 0 < h.size) : kindByMsb (setMsb h) = .leaf := by
  unfold kindByMsb setMsb
  rw [ByteArray.get!_set!_zero _ _ hs, u8_or80_shr7]
  simp

/-- `node_kind_by_msb (unset_msb h)` is never `Leaf` -/
theorem kind_unsetMsb (h : ByteArray) (hs : 0 < h.size) : kindByMsb (unsetMsb h) ≠ .leaf := by
  unfold kindByMsb unsetMsb
  rw [ByteArray.get!_set!_zero _ _ hs]
  have := u8_and7f_shr7 (h.get! 0)
  simp [this]
  split <;> simp

theorem ByteArray.eq_of_beq' {a b : ByteArray} (h : (a == b) = true) : a = b := by
  have : (a.data == b.data) = true := h
  exact ByteArray.ext (eq_of_beq this)

/-- the all-zero terminator is classified as a terminator -/
theorem kind_zeros32 : kindByMsb zeros32 = .terminator := by decide

end Nomt

namespace Nomt
theorem range8 : Array.range 8 = #[0,1,2,3,4,5,6,7] := by decide

theorem Sha256.size_hash (b : ByteArray) : (Sha256.hash b).size = 32 := by
  unfold Sha256.hash
  simp only [range8]
  simp [ByteArray.size_push, ByteArray.size_empty]

theorem Blake3.size_hash (b : ByteArray) : (Blake3.hash b).size = 32 := by
  unfold Blake3.hash
  simp only [range8]
  simp [ByteArray.size_push, ByteArray.size_empty]
end Nomt
