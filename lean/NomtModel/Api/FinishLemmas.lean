import NomtModel.Api.Finish
import NomtModel.Api.SplitCanon
import NomtModel.Api.DeltaBuildLemmas
/-!
Lemmas about the mirror of `Session::finish` (`Api/Finish.lean`): the compact list against the actuals, the
sortedness loop, value hashes against `kvApply`, "a batch that is only advanced past holds no write", and the
explicit form of a successful `finish`.
-/
set_option linter.unusedSectionVars false
namespace Nomt.Finish
open Nomt Nomt.Api Nomt.Split Nomt.Dlt
variable {Node VH V : Type}

instance (a : Actuals V) : Decidable (ASorted a) := by unfold ASorted; exact inferInstance

/-! ### the compact list -/

theorem subtrieOps_compact (hv : V → VH) : ∀ a : Actuals V, subtrieOps (compact hv a) = hashW hv (writesOf a)
  | [] => rfl
  | (k, .read _) :: rest => by
    have ih := subtrieOps_compact hv rest
    simp only [compact, subtrieOps, hashW, writesOf, List.map_cons, List.filterMap_cons, toCompact, RW.written] at ih ⊢
    simpa using ih
  | (k, .write w) :: rest => by
    have ih := subtrieOps_compact hv rest
    simp only [compact, subtrieOps, hashW, writesOf, List.map_cons, List.filterMap_cons, toCompact, RW.written] at ih ⊢
    simpa using ih
  | (k, .rtw _ w) :: rest => by
    have ih := subtrieOps_compact hv rest
    simp only [compact, subtrieOps, hashW, writesOf, List.map_cons, List.filterMap_cons, toCompact, RW.written] at ih ⊢
    simpa using ih

theorem readKeys_compact (hv : V → VH) : ∀ a : Actuals V, readKeys (compact hv a) = readKeysA a
  | [] => rfl
  | (k, .read _) :: rest => by
    have ih := readKeys_compact hv rest
    simp only [compact, readKeys, readKeysA, List.map_cons, toCompact, RW.isRead, List.filter_cons] at ih ⊢
    simpa using ih
  | (k, .write w) :: rest => by
    have ih := readKeys_compact hv rest
    simp only [compact, readKeys, readKeysA, List.map_cons, toCompact, RW.isRead, List.filter_cons] at ih ⊢
    simpa using ih
  | (k, .rtw _ w) :: rest => by
    have ih := readKeys_compact hv rest
    simp only [compact, readKeys, readKeysA, List.map_cons, toCompact, RW.isRead, List.filter_cons] at ih ⊢
    simpa using ih

theorem compact_sorted (hv : V → VH) (a : Actuals V) (hs : ASorted a) : (compact hv a).Pairwise KeyLt := by
  unfold compact
  rw [List.pairwise_map]
  exact hs

theorem compact_len (hv : V → VH) (L : Nat) (a : Actuals V) (hl : ∀ x ∈ a, x.1.length = L) :
    ∀ o ∈ compact hv a, o.1.length = L := by
  intro o ho
  obtain ⟨x, hx, rfl⟩ := List.mem_map.mp ho
  exact hl x hx

theorem compact_length (hv : V → VH) (a : Actuals V) : (compact hv a).length = a.length := by simp [compact]

/-- per entry: what each kind of actual becomes -/
theorem compact_getElem? (hv : V → VH) (a : Actuals V) (i : Nat) :
    (compact hv a)[i]? = (a[i]?).map fun x => (x.1, toCompact hv x.2) := by simp [compact]

/-! ### the sortedness loop -/

theorem firstUnsorted_none_iff : ∀ (i : Nat) (a : Actuals V), firstUnsorted i a = none ↔ ASorted a
  | _, [] => by simp [firstUnsorted, ASorted]
  | _, [_] => by simp [firstUnsorted, ASorted]
  | i, x :: y :: rest => by
    have ih := firstUnsorted_none_iff (i+1) (y :: rest)
    unfold firstUnsorted
    by_cases h : bitsLt x.1 y.1 = true
    · rw [if_pos h, ih]
      constructor
      · intro hs
        refine List.pairwise_cons.mpr ⟨?_, hs⟩
        intro z hz
        rcases List.mem_cons.mp hz with rfl | hz
        · exact h
        · exact bitsLt_trans h ((List.pairwise_cons.mp hs).1 z hz)
      · intro hs; exact (List.pairwise_cons.mp hs).2
    · rw [if_neg h]
      constructor
      · intro h'; cases h'
      · intro hs; exact absurd ((List.pairwise_cons.mp hs).1 y (List.mem_cons_self ..)) h

/-- the index the assertion reports is a position `1 ≤ i < len` whose key is not above its predecessor's -/
theorem firstUnsorted_some : ∀ (i0 : Nat) (a : Actuals V) (i : Nat), firstUnsorted i0 a = some i →
    i0 ≤ i ∧ i - i0 + 1 < a.length ∧
      ∃ x y, a[i - i0]? = some x ∧ a[i - i0 + 1]? = some y ∧ bitsLt x.1 y.1 = false
  | _, [], _, h => by simp [firstUnsorted] at h
  | _, [_], _, h => by simp [firstUnsorted] at h
  | i0, x :: y :: rest, i, h => by
    unfold firstUnsorted at h
    by_cases hb : bitsLt x.1 y.1 = true
    · rw [if_pos hb] at h
      obtain ⟨h1, h2, x', y', hx, hy, hlt⟩ := firstUnsorted_some (i0+1) (y :: rest) i h
      have e : i - i0 = (i - (i0+1)) + 1 := by omega
      refine ⟨by omega, by simp only [List.length_cons] at h2 ⊢; omega, x', y', ?_, ?_, hlt⟩
      · rw [e, List.getElem?_cons_succ]; exact hx
      · rw [e, List.getElem?_cons_succ]; exact hy
    · rw [if_neg hb] at h
      injection h with h
      subst h
      refine ⟨Nat.le_refl _, by simp, x, y, by simp, by simp, by simpa using hb⟩

/-! ### value hashes commute with applying a batch -/

theorem hashKV_kvInsert (hv : V → VH) (k : Key) (v : V) : ∀ m : KVL V,
    kvInsert (hashKV hv m) k (hv v) = hashKV hv (kvInsert m k v)
  | [] => rfl
  | (k', v') :: rest => by
    have ih := hashKV_kvInsert hv k v rest
    simp only [hashKV, List.map_cons, kvInsert] at ih ⊢
    by_cases h1 : (k' == k) = true
    · simp [h1]
    · by_cases h2 : bitsLt k k' = true
      · simp [h1, h2]
      · simp [h1, h2, ih]

theorem hashKV_kvErase (hv : V → VH) (k : Key) : ∀ m : KVL V, kvErase (hashKV hv m) k = hashKV hv (kvErase m k)
  | [] => rfl
  | (k', v') :: rest => by
    have ih := hashKV_kvErase hv k rest
    simp only [hashKV, List.map_cons, kvErase] at ih ⊢
    by_cases h1 : (k' == k) = true
    · simp [h1]
    · simp [h1, ih]

theorem hashKV_kvWrite (hv : V → VH) (m : KVL V) (k : Key) (w : Option V) :
    kvWrite (hashKV hv m) k (w.map hv) = hashKV hv (kvWrite m k w) := by
  cases w with
  | none => exact hashKV_kvErase hv k m
  | some v => exact hashKV_kvInsert hv k v m

/-- the trie's view after the batch is the hashed view after the batch -/
theorem hashKV_kvApply (hv : V → VH) : ∀ (ws : Writes V) (m : KVL V),
    kvApply (hashKV hv m) (hashW hv ws) = hashKV hv (kvApply m ws)
  | [], _ => rfl
  | (k, w) :: rest, m => by
    have ih := hashKV_kvApply hv rest (kvWrite m k w)
    simp only [hashW, List.map_cons] at ih ⊢
    rw [kvApply_cons, kvApply_cons, hashKV_kvWrite]
    exact ih

theorem hashKV_sorted (hv : V → VH) (m : KVL V) (hs : KSorted m) : KSorted (hashKV hv m) := by
  unfold hashKV KSorted
  rw [List.pairwise_map]
  exact hs

theorem hashKV_len (hv : V → VH) (L : Nat) (m : KVL V) (hl : ∀ kv ∈ m, kv.1.length = L) :
    ∀ kv ∈ hashKV hv m, kv.1.length = L := by
  intro kv hkv
  obtain ⟨x, hx, rfl⟩ := List.mem_map.mp hkv
  exact hl x hx

theorem kvGet_hashKV (hv : V → VH) (k : Key) : ∀ m : KVL V, kvGet (hashKV hv m) k = (kvGet m k).map hv
  | [] => rfl
  | (k', v') :: rest => by
    have ih := kvGet_hashKV hv k rest
    simp only [hashKV, List.map_cons, kvGet] at ih ⊢
    by_cases h1 : (k' == k) = true
    · simp [h1]
    · simp [h1, ih]

/-! ### the written operations -/

theorem writesOf_sublist_keys : ∀ a : Actuals V, ((writesOf a).map (·.1)).Sublist (a.map (·.1))
  | [] => List.Sublist.slnil
  | (k, .read _) :: rest => by
    simp only [writesOf, List.map_cons]; exact (writesOf_sublist_keys rest).cons _
  | (k, .write w) :: rest => by
    simp only [writesOf, List.map_cons]; exact (writesOf_sublist_keys rest).cons_cons _
  | (k, .rtw _ w) :: rest => by
    simp only [writesOf, List.map_cons]; exact (writesOf_sublist_keys rest).cons_cons _

/-- strictly ascending actuals write every key at most once -/
theorem writesOf_distinct (a : Actuals V) (hs : ASorted a) : WDistinct (writesOf a) := by
  have h1 : (a.map (·.1)).Pairwise (fun x y => bitsLt x y = true) := by
    rw [List.pairwise_map]; exact hs
  have h2 := h1.sublist (writesOf_sublist_keys a)
  rw [List.pairwise_map] at h2
  refine h2.imp ?_
  intro x y hxy e
  rw [e] at hxy
  simp [bl_irrefl] at hxy

/-! ### a batch that is only advanced past holds no write -/

theorem effFrom_id (bss : List (List Batch)) : ∀ (l : List (Op VH)) (i : Nat),
    (∀ (j : Nat) (o : Op VH), l[j]? = some o → skipped bss (i + j) = true → o.2 = Split.RW.read) → effFrom bss i l = l
  | [], _, _ => rfl
  | o :: rest, i, h => by
    unfold effFrom
    have ih := effFrom_id bss rest (i+1) (fun j o' hj hsk => h (j+1) o' (by simpa using hj) (by rw [← Nat.add_assoc] at *; simpa [Nat.add_comm 1 j, Nat.add_assoc] using hsk))
    rw [ih]
    by_cases hsk : skipped bss i = true
    · have := h 0 o (by simp) (by simpa using hsk)
      rw [if_pos hsk]
      congr 1
      obtain ⟨k, rw⟩ := o
      simp only at this
      rw [this]
    · rw [if_neg hsk]

theorem isWrite_false {rw : Split.RW VH} (h : rw.isWrite = false) : rw = Split.RW.read := by
  cases rw <;> simp [Split.RW.isWrite] at h ⊢

theorem mem_sliceOf (ops : List (Op VH)) (s e i : Nat) (o : Op VH) (h1 : s ≤ i) (h2 : i < e) (ho : ops[i]? = some o) :
    o ∈ sliceOf ops (s, e) := by
  unfold sliceOf
  rw [List.mem_iff_getElem?]
  refine ⟨i - s, ?_⟩
  rw [List.getElem?_take]
  have : i - s < e - s := by omega
  simp only [this, if_true]
  rw [List.getElem?_drop]
  have : s + (i - s) = i := by omega
  rw [this]; exact ho

/-- if every batch carries the `has_writes` of the code, demoting the operations of skipped batches changes nothing -/
theorem effOps_id (ops : List (Op VH)) (bss : List (List Batch))
    (hb : ∀ bs ∈ bss, ∀ b ∈ bs, b.hasWrites = (sliceOf ops (b.start, b.next)).any (fun o => o.2.isWrite)) :
    effOps ops bss = ops := by
  unfold effOps
  apply effFrom_id
  intro j o hj hsk
  rw [Nat.zero_add] at hsk
  unfold skipped at hsk
  rw [List.any_eq_true] at hsk
  obtain ⟨bs, hbs, hsk⟩ := hsk
  rw [List.any_eq_true] at hsk
  obtain ⟨b, hbm, hsk⟩ := hsk
  simp only [Bool.and_eq_true, Bool.not_eq_true', decide_eq_true_eq] at hsk
  obtain ⟨⟨⟨⟨_, _⟩, hw⟩, h1⟩, h2⟩ := hsk
  rw [hb bs hbs b hbm] at hw
  have hmem := mem_sliceOf ops b.start b.next j o h1 h2 hj
  have := List.any_eq_false.mp hw o hmem
  exact isWrite_false (by simpa using this)

/-! ### the explicit form of a successful `finish` -/

section Ok
variable [DecidableEq Node] [DecidableEq VH] (H : Hasher Node VH) (hs : H.Sound) (hv : V → VH) (L : Nat)
  (view : KVL VH) (hvlen : ∀ kv ∈ view, kv.1.length = L) (hsorted : view.Pairwise KeyLt)
  (P : Params) (h1 : 1 ≤ P.n) (h64 : P.n ≤ 64) (hL : 6 ≤ L)
  (a : Actuals V) (hal : ∀ x ∈ a, x.1.length = L) (has : ASorted a)
include hs hvlen hsorted h1 h64 hL hal

/-- the batches the real workers compute carry `has_writes = some operation of the batch is a write` -/
theorem real_batches_hasWrites (bss0 : List (List Batch))
    (hrun : runWorkers L P.n (tpOf (proveSpec H L view)) (compact hv a) = some bss0) :
    ∀ bs ∈ bss0, ∀ b ∈ bs,
      b.hasWrites = (sliceOf (compact hv a) (b.start, b.next)).any (fun o => o.2.isWrite) := by
  have hc := canon_of_view L view hvlen hsorted
  have T := termFn_spec H hs L view hc
  have hlen := compact_len hv L a hal
  rw [runWorkers_spec L P.n (proveSpec H L view) (compact hv a) T hlen hL h1 h64] at hrun
  injection hrun with hrun
  subst hrun
  intro bs hbs b hb
  obtain ⟨i, hi, rfl⟩ := List.mem_map.mp hbs
  obtain ⟨bs', hbs', _⟩ := runWorker_spec L P.n (proveSpec H L view) (compact hv a) T hlen hL h1 h64 i (List.mem_range.mp hi)
  rw [hbs', Option.getD_some] at hb
  unfold runWorker at hbs'
  obtain ⟨start, hst⟩ := workerLoop_mem _ _ _ _ _ _ _ _ hbs' b hb
  exact handleCompletion_hasWrites _ _ _ _ _ b hst

include has in
theorem finish_ok (load : Key → Outcome Unit (Option V)) (hints : List Key) (hnsup : P.superseded = false)
    (delta : Option (PMap V)) (hfin : finalizeStep P load hints a = .ok delta)
    (hord : P.order.Perm (List.range P.n)) :
    ∃ bss0 w, runWorkers L P.n (tpOf (proveSpec H L view)) (compact hv a) = some bss0 ∧
      (if P.witness then (assemble L P.n (proveSpec H L view) (compact hv a) P.order).map some else some none) = some w ∧
      finish false H hv L P load hints view a = .ok
        { ops := compact hv a, bss := bss0, advances := bss0.map (advancesOf (compact hv a)), applied := compact hv a,
          changes := writesOf a, delta := delta,
          root := nodeAt H L 0 (kvApply view (hashW hv (writesOf a))), witness := w } := by
  have hc := canon_of_view L view hvlen hsorted
  have T := termFn_spec H hs L view hc
  have hlen := compact_len hv L a hal
  have hsort := compact_sorted hv a has
  have hrw := runWorkers_spec L P.n (proveSpec H L view) (compact hv a) T hlen hL h1 h64
  obtain ⟨w0, hw0, _, _⟩ := assemble_any_order H hs L view hc hsorted P.n (compact hv a) hlen hsort hL h1 h64 P.order hord
  have hfu : (if P.debug = true then firstUnsorted 1 a else none) = none := by
    split
    · exact (firstUnsorted_none_iff 1 a).mpr has
    · rfl
  have heff := effOps_id (compact hv a) _ (real_batches_hasWrites H hs hv L view hvlen hsorted P h1 h64 hL a hal _ hrw)
  have hroot := root_of_workers H hs L view hvlen hsorted P.n (compact hv a) hlen hsort hL h1 h64
  rw [hrw, Option.getD_some, subtrieOps_compact] at hroot
  refine ⟨_, (if P.witness then some w0 else none), hrw, ?_, ?_⟩
  · rw [hw0]; cases P.witness <;> rfl
  · unfold finish finishWith
    simp only [hfu, hnsup, hfin, hrw, tagged, heff, hroot, hw0, Bool.false_eq_true, if_false]
    cases P.witness <;> rfl
end Ok

/-! ### the delta step -/

/-- the builder never fails when every load succeeds — whatever the hints, the order of the actuals and the priors the
caller claims -/
theorem finalize_total {load : Key → Outcome Unit (Option V)} {viewV : Key → Option V}
    (hl : ∀ k, load k = .ok (viewV k)) (hints : List Key) (a : Actuals V) : ∃ d, Dlt.finalize load hints a = .ok d := by
  unfold Dlt.finalize
  obtain ⟨t, ht, _, _⟩ := lookupAll_spec hl [] KSorted.nil hints
  rw [ht]
  obtain ⟨f, hf, _, _⟩ := lookupAll_spec hl [] KSorted.nil
    (a.foldl finStep { tentative := t, final := [], lookups := [] }).lookups
  simp only [hf]
  exact ⟨_, rfl⟩

theorem finalizeStep_total {load : Key → Outcome Unit (Option V)} {viewV : Key → Option V}
    (hl : ∀ k, load k = .ok (viewV k)) (P : Params) (hints : List Key) (a : Actuals V) :
    ∃ d, finalizeStep P load hints a = .ok d ∧ d.isSome = P.rollback := by
  unfold finalizeStep
  cases hrb : P.rollback
  · exact ⟨none, by simp, rfl⟩
  · obtain ⟨d, hd⟩ := finalize_total hl hints a
    exact ⟨some d, by simp [hd], rfl⟩

theorem finalizeStep_spec {load : Key → Outcome Unit (Option V)} {viewV : Key → Option V}
    (hl : ∀ k, load k = .ok (viewV k)) (P : Params) (hints : List Key) (a : Actuals V)
    (hr : RtwTruthful viewV a) (hs : ASorted a) :
    finalizeStep P load hints a = .ok (if P.rollback then some (priorSpec viewV a) else none) := by
  unfold finalizeStep
  cases hrb : P.rollback
  · simp
  · simp [finalize_eq_priorSpec hl hints a hr hs]

/-! ### no-op writes, keys that are not written -/

theorem kvWrite_self {m : KVL V} (hs : KSorted m) (k : Key) : kvWrite m k (kvGet m k) = m := by
  apply kv_ext (kvWrite_sorted hs k _) hs
  intro k'
  rw [kvGet_kvWrite hs]
  by_cases h : k' = k
  · subst h; simp
  · simp [h]

/-- a batch that writes every key back to the value it has changes nothing -/
theorem kvApply_noop : ∀ (ws : Writes V) {m : KVL V}, KSorted m → (∀ kw ∈ ws, kw.2 = kvGet m kw.1) → kvApply m ws = m
  | [], _, _, _ => rfl
  | (k, w) :: rest, m, hs, h => by
    rw [kvApply_cons]
    have hw : w = kvGet m k := h (k, w) (List.mem_cons_self ..)
    subst hw
    rw [kvWrite_self hs k]
    exact kvApply_noop rest hs (fun kw hkw => h kw (List.mem_cons_of_mem _ hkw))

theorem wsLookup_none : ∀ (ws : Writes V) (k : Key), k ∉ ws.map (·.1) → wsLookup ws k = none
  | [], _, _ => rfl
  | (k', w) :: rest, k, h => by
    simp only [List.map_cons, List.mem_cons, not_or] at h
    have hb : (k' == k) = false := by simpa using fun e => h.1 e.symm
    simp only [wsLookup, hb]
    exact wsLookup_none rest k h.2

end Nomt.Finish
