import NomtModel.Api.DeltaWorkerInv
/-!
`resubmit_overflow` re-establishes the worker invariant (C09): no panic site, at least one further page is requested
when nothing is outstanding, the new request ids are fresh.
-/
namespace Nomt.Wk
open Nomt
variable {V : Type}

/-- entries of `requests` name a key or carry one -/
theorem key_ne_of_kinds {m : Reqs} (h : Keys m) {a b : Nat} {l : Look} {k : Key} {r i : Nat}
    (h1 : (a, Req.main l k) ∈ m) (h2 : (b, Req.ovf r i) ∈ m) : a ≠ b := by
  intro e
  subst e
  have := entry_unique h h1 h2
  cases this

theorem resubmit_inv {val : Key → Option V} {w : W V} {id : Nat} (h : Inv' val w (some id)) (rd : Reader) (k : Key)
    (hm : (id, Req.main (.overflow rd none) k) ∈ w.reqs) (hroom : w.reqIdx + 129 ≤ w.ovfIdx) :
    ∃ w', w.resubmitOverflow id = .ok w' ∧ Inv val w' ∧ w'.priors = w.priors ∧ w'.reqIdx = w.reqIdx ∧
      w.ovfIdx ≤ w'.ovfIdx + 128 ∧ w'.ovfIdx ≤ w.ovfIdx ∧ w'.shutdown = w.shutdown ∧ w'.storeLive = w.storeLive ∧
      (∀ id' l' k', (id', Req.main l' k') ∈ w.reqs → ∃ l'', (id', Req.main l'' k') ∈ w'.reqs) ∧
      (∀ id' l' k', (id', Req.main l' k') ∈ w'.reqs → ∃ l'', (id', Req.main l'' k') ∈ w.reqs) := by
  have hlook := h.mainOk id _ k hm
  obtain ⟨rok, _, hout⟩ := hlook
  have hne : w.reqs ≠ [] := by intro e; rw [e] at hm; cases hm
  have hlive : w.storeLive = true := by
    rcases h.store with h1 | h1
    · exact h1
    · exact absurd h1 hne
  have hlen : ¬ (w.reqs.length < w.dormant) := by
    rw [h.dorm]; have := countP_le_length' w.reqs isDormant; omega
  -- the loop
  let count := max 1 (TARGET_OVERFLOW_REQUESTS - (w.reqs.length - w.dormant))
  have hc1 : 0 < count := by simp [count]; omega
  have hc2 : count ≤ 128 := by simp [count, TARGET_OVERFLOW_REQUESTS]; omega
  obtain ⟨j, hj, rok', hloop, hprog⟩ := submitLoop_spec id count rd rok w.ovfIdx [] (by omega)
  have hj128 : j ≤ 128 := by omega
  have hjoi : j ≤ w.ovfIdx := by omega
  let rd' : Reader := { rd with req := rd.req + j }
  let m1 := rput w.reqs id (Req.main (.overflow rd' none) k)
  let new := newEntries id w.ovfIdx rd.req j
  let fin := new.foldl (fun m e => rput m e.1 e.2) m1
  have hnd : (new.map (·.1)).Nodup := newEntries_keys_nodup id w.ovfIdx rd.req j hjoi
  -- membership in the pieces
  have hm1 : ∀ e, e ∈ m1 ↔ e = (id, Req.main (.overflow rd' none) k) ∨ (e ∈ w.reqs ∧ e.1 ≠ id) := fun e => mem_rput
  have hnew : ∀ e, e ∈ new ↔ ∃ t, t < j ∧ e = (w.ovfIdx - t, Req.ovf id (rd.req + t)) := fun e => mem_newEntries hjoi
  have hidlt : id < w.reqIdx := h.mainLt id _ k hm
  have hfresh : ∀ e ∈ m1, e.1 ∉ new.map (·.1) := by
    intro e he hmem
    obtain ⟨e', he', hk⟩ := List.mem_map.1 hmem
    obtain ⟨t, ht, rfl⟩ := (hnew e').1 he'
    simp only at hk
    rcases (hm1 e).1 he with rfl | ⟨h1, _⟩
    · simp only at hk; omega
    · obtain ⟨a, b⟩ := e
      cases b with
      | main l k' => have := h.mainLt a l k' h1; simp only at hk; omega
      | ovf r i => have := h.ovfGt a r i h1; simp only at hk; omega
  have hfin : ∀ e, e ∈ fin ↔ e ∈ new ∨ e ∈ m1 := by
    intro e
    rw [mem_foldl_rput new m1 hnd e]
    constructor
    · rintro (g | ⟨g, _⟩)
      · exact Or.inl g
      · exact Or.inr g
    · rintro (g | g)
      · exact Or.inl g
      · exact Or.inr ⟨g, hfresh e g⟩
  have hmainfin : (id, Req.main (.overflow rd' none) k) ∈ fin := (hfin _).2 (Or.inr ((hm1 _).2 (Or.inl rfl)))
  have hold : ∀ e, e ∈ w.reqs → e.1 ≠ id → e ∈ fin := fun e g1 g2 => (hfin e).2 (Or.inr ((hm1 e).2 (Or.inr ⟨g1, g2⟩)))
  have hovfne : ∀ ud r i, (ud, Req.ovf r i) ∈ w.reqs → ud ≠ id := fun ud r i g => (key_ne_of_kinds h.keys hm g).symm
  -- the result of the call
  have hres : w.resubmitOverflow id = .ok { w with reqs := fin, ovfIdx := w.ovfIdx - j } := by
    unfold W.resubmitOverflow
    rw [if_neg hlen, rget_of_mem h.keys hm]
    simp only [hlive, Bool.not_true, Bool.false_eq_true, if_false]
    show (match submitLoop id count (.overflow rd none) w.ovfIdx [] with
      | .ok (l', oi, submitted) => _ | .err e => _ | .panic s => _) = _
    rw [hloop]
    simp only [List.nil_append]
    rfl
  refine ⟨_, hres, ?_, rfl, rfl, by show w.ovfIdx ≤ w.ovfIdx - j + 128; omega, by show w.ovfIdx - j ≤ w.ovfIdx; omega, rfl, rfl, ?_, ?_⟩
  · -- the invariant
    refine ⟨⟨keys_foldl_rput new m1 (keys_rput h.keys _ _), ?_, ?_, by show w.reqIdx ≤ w.ovfIdx - j; omega, ?_, ?_, ?_, ?_,
      h.ps, h.pv⟩, Or.inl hlive, h.live, (fun _ (e : fin = []) => by rw [e] at hmainfin; cases hmainfin)⟩
    · -- mainLt
      intro id' l k' hmem
      rcases (hfin _).1 hmem with g | g
      · obtain ⟨t, _, ht⟩ := (hnew _).1 g; cases ht
      · rcases (hm1 _).1 g with g | ⟨g, _⟩
        · cases g; exact hidlt
        · exact h.mainLt id' l k' g
    · -- ovfGt
      intro ud r i hmem
      show w.ovfIdx - j < ud
      rcases (hfin _).1 hmem with g | g
      · obtain ⟨t, ht, he⟩ := (hnew _).1 g
        cases he; omega
      · rcases (hm1 _).1 g with g | ⟨g, _⟩
        · cases g
        · have := h.ovfGt ud r i g; omega
    · -- ovfMain
      intro ud r i hmem
      rcases (hfin _).1 hmem with g | g
      · obtain ⟨t, ht, he⟩ := (hnew _).1 g
        cases he
        refine ⟨rd', k, hmainfin, ?_, ?_, ?_⟩
        · show rd.proc ≤ rd.req + t; have := rok.pr; omega
        · show rd.req + t < rd.req + j; omega
        · intro ha; have := rok.arr _ ha; omega
      · rcases (hm1 _).1 g with g | ⟨g, _⟩
        · cases g
        · obtain ⟨rd0, k0, g1, g2, g3, g4⟩ := h.ovfMain ud r i g
          by_cases hr : r = id
          · subst hr
            have := entry_unique h.keys g1 hm
            cases this
            exact ⟨rd', k, hmainfin, g2, by show i < rd.req + j; omega, g4⟩
          · exact ⟨rd0, k0, hold _ g1 hr, g2, g3, g4⟩
    · -- ovfInj
      intro ud ud' r i g g'
      have hlt : ∀ u, (u, Req.ovf id i) ∈ w.reqs → i < rd.req := by
        intro u gu
        obtain ⟨rd0, k0, g1, _, g3, _⟩ := h.ovfMain u id i gu
        have := entry_unique h.keys g1 hm
        cases this
        exact g3
      rcases (hfin _).1 g with a | a <;> rcases (hfin _).1 g' with b | b
      · obtain ⟨t, _, e1⟩ := (hnew _).1 a
        obtain ⟨t', _, e2⟩ := (hnew _).1 b
        simp only [Prod.mk.injEq, Req.ovf.injEq] at e1 e2
        omega
      · obtain ⟨t, _, e1⟩ := (hnew _).1 a
        cases e1
        rcases (hm1 _).1 b with b | ⟨b, _⟩
        · cases b
        · have := hlt ud' b; omega
      · obtain ⟨t, _, e1⟩ := (hnew _).1 b
        cases e1
        rcases (hm1 _).1 a with a | ⟨a, _⟩
        · cases a
        · have := hlt ud a; omega
      · rcases (hm1 _).1 a with a | ⟨a, _⟩
        · cases a
        · rcases (hm1 _).1 b with b | ⟨b, _⟩
          · cases b
          · exact h.ovfInj ud ud' r i a b
    · -- mainOk
      intro id' l k' hmem
      rcases (hfin _).1 hmem with g | g
      · obtain ⟨t, _, ht⟩ := (hnew _).1 g; cases ht
      · rcases (hm1 _).1 g with g | ⟨g, gne⟩
        · cases g
          refine ⟨rok', fun _ => ?_, fun i a b c => ?_⟩
          · show rd.proc < rd.req + j
            by_cases hst : rd.proc = rd.req
            · have := hprog hc1 hst; omega
            · have := rok.pr; omega
          · by_cases hi : i < rd.req
            · obtain ⟨ud, hu⟩ := hout i a hi c
              exact ⟨ud, hold _ hu (hovfne ud id i hu)⟩
            · have b' : i < rd.req + j := b
              refine ⟨w.ovfIdx - (i - rd.req), (hfin _).2 (Or.inl ((hnew _).2 ⟨i - rd.req, by omega, ?_⟩))⟩
              congr 2; omega
        · have hne' : id' ≠ id := gne
          have := h.mainOk id' l k' g
          refine this.mono (fun _ => by simp; exact fun e => hne' e.symm) ?_
          intro ud i hu
          exact ⟨ud, hold _ hu (hovfne ud id' i hu)⟩
    · -- dorm
      show w.dormant = fin.countP isDormant
      rw [countP_foldl_rput isDormant new m1 hnd]
      · rw [countP_rput, h.dorm, countP_rdel h.keys isDormant hm]
        rfl
      · intro e he
        obtain ⟨t, _, ht⟩ := (hnew _).1 he
        rw [ht]; rfl
      · intro e he e' he' heq
        exact hfresh e' he' (List.mem_map.2 ⟨e, he, heq.symm⟩)
  · -- pending keys stay
    intro id' l' k' g
    by_cases hid : id' = id
    · subst hid
      have := entry_unique h.keys g hm
      cases this
      exact ⟨_, hmainfin⟩
    · exact ⟨l', hold _ g hid⟩
  · intro id' l' k' hmem
    rcases (hfin _).1 hmem with g | g
    · obtain ⟨t, _, ht⟩ := (hnew _).1 g; cases ht
    · rcases (hm1 _).1 g with g | ⟨g, _⟩
      · cases g; exact ⟨_, hm⟩
      · exact ⟨l', g⟩

end Nomt.Wk
