import NomtModel.Api.Locks3
/-!
Invariants of the three-resource LTS (`Api/Locks3.lean`) under the code's order of `begin_session`:
`RtInv` (a read transaction is held only under the session's read guard, or its drop is queued before the holder's next
lock micro-step) is preserved by every event; the `Locks2` component of a run is a `Locks2` run, so `Inv1` and the
caller discipline `Disc` carry over.
-/
namespace Nomt.Locks3
open Nomt.Locks2
variable {C R W D : Type} [DecidableEq R] (ops : DbOps C R W D)

/-! ### how a `Locks2` micro-step changes the set of read guards -/

theorem hasReader_abort (s : S C R W D) (t u : Tid) (r : Res) (sid : Nat) :
    hasReader (abort s t r) u sid = hasReader s u sid := by simp [hasReader, abort]

theorem hasReader_map (l : List (Sess C R)) (f : Sess C R → Sess C R) (u : Tid) (sid : Nat)
    (hf : ∀ x, (f x).owner = x.owner ∧ (f x).sid = x.sid) :
    (l.map f).any (fun x => x.owner == u && x.sid == sid) = l.any (fun x => x.owner == u && x.sid == sid) := by
  induction l with
  | nil => rfl
  | cons a l ih => simp [(hf a).1, (hf a).2] at ih ⊢; rw [ih]

/-- a micro-step of `t` keeps every read guard but the one it releases -/
theorem hasReader_exec (s : S C R W D) (t : Tid) (i : Instr R W D) (rest : List (Instr R W D)) (u : Tid) (sid : Nat)
    (h : hasReader s u sid = true) (hne : u ≠ t ∨ isUnlockOf sid i = false) :
    hasReader (exec ops s t i rest).1 u sid = true := by
  by_cases hi : i.isEff = true
  · rw [exec_isEff ops s t i rest hi]
    cases eff ops i (s.thr t).regs s.db with
    | cont rg db => exact h
    | stop r db =>
      simp only
      split
      · exact h
      · rw [hasReader_abort]; exact h
  cases i with
  | aRead sd =>
    simp only [exec]; split
    · exact h
    · simp only [hasReader, List.any_cons] at h ⊢; simp [h]
  | aReadUnlock sd =>
    simp only [exec, hasReader, List.any_eq_true, List.mem_filter] at h ⊢
    obtain ⟨x, hx, hxu⟩ := h
    refine ⟨x, ⟨hx, ?_⟩, hxu⟩
    simp only [Bool.and_eq_true, beq_iff_eq] at hxu
    rcases hne with hne | hne
    · have : ¬ x.owner = t := by rw [hxu.1]; exact hne
      simp [this]
    · have : ¬ x.sid = sd := by
        rw [hxu.2]; intro e; simp [isUnlockOf, e] at hne
      simp [this]
  | aWrite1 => simp only [exec]; split <;> exact h
  | aWrite2 => simp only [exec]; split <;> exact h
  | aTryWrite =>
    simp only [exec]; split
    · rw [hasReader_abort]; exact h
    · exact h
  | aWriteUnlock rv => exact h
  | mLock => simp only [exec]; split <;> exact h
  | mUnlock => exact h
  | sessRoot sd =>
    simp only [exec, hasReader]
    rw [hasReader_map]
    · exact h
    · intro x; split <;> simp
  | sessBase sd b =>
    simp only [exec, hasReader]
    rw [hasReader_map]
    · exact h
    · intro x; split <;> simp
  | finChk sd => simp only [exec]; split <;> exact h
  | ret r => exact h
  | _ => simp [Instr.isEff] at hi

/-- a read guard that was taken is there -/
theorem hasReader_aRead (s : S C R W D) (t : Tid) (sid : Nat) (rest : List (Instr R W D))
    (hnb : (exec ops s t (.aRead sid) rest).2 ≠ .blocked) :
    hasReader (exec ops s t (.aRead sid) rest).1 t sid = true := by
  simp only [exec] at hnb ⊢
  split
  · rename_i hw; simp [hw] at hnb
  · simp [hasReader]

theorem hasReader_next (s : S C R W D) (e : Event R W D) (u : Tid) (sid : Nat) (h : hasReader s u sid = true)
    (hne : u ≠ e.tid ∨ ∀ i rest, (s.thr u).prog = i :: rest → isUnlockOf sid i = false) :
    hasReader (next ops s e).1 u sid = true := by
  cases e with
  | call t c => simp only [next]; split <;> exact h
  | step t =>
    simp only [next]
    cases hp : (s.thr t).prog with
    | nil => exact h
    | cons i rest =>
      simp only
      apply hasReader_exec ops s t i rest u sid h
      rcases hne with hne | hne
      · exact Or.inl hne
      · by_cases hut : u = t
        · subst hut; exact Or.inr (hne i rest hp)
        · exact Or.inl hut
  | spur t v =>
    simp only [next]; split
    · split
      · rw [hasReader_abort]; exact h
      · exact h
    · exact h

/-! ### `pendOk` -/

theorem pendOk_mono (hr hr' : Nat → Bool) (h : ∀ sid, hr sid = true → hr' sid = true) (l : List RtI)
    (hl : pendOk hr l) : pendOk hr' l := by
  induction l with
  | nil => trivial
  | cons a l ih =>
    cases a with
    | rtBegin sid =>
      obtain ⟨h1, h2⟩ := hl
      exact ⟨h1.elim (fun x => Or.inl (h sid x)) Or.inr, ih h2⟩
    | rtDrop sid => exact ih hl

theorem mem_dropRt (rt : List (Tid × Nat)) (t : Tid) (sid : Nat) (u : Tid) (sd : Nat) :
    (u, sd) ∈ dropRt rt t sid ↔ (u, sd) ∈ rt ∧ ¬ (u = t ∧ sd = sid) := by
  simp [dropRt, List.mem_filter]
  intro _
  by_cases h : u = t <;> simp [h]

/-! ### the rt micro-step -/

theorem rtInv_rtStep (s : S3 C R W D) (t : Tid) (h : RtInv s) : RtInv (rtStep s t).1 := by
  unfold rtStep
  cases hp : s.pend t with
  | nil => exact h
  | cons a q =>
    have hpt := h.pend t
    rw [hp] at hpt
    cases a with
    | rtBegin sid =>
      obtain ⟨hb, hq⟩ := hpt
      refine ⟨?_, ?_⟩
      · intro u sd hm
        simp only [List.mem_cons, Prod.mk.injEq] at hm
        by_cases hut : u = t
        · subst hut
          simp only [upd_same]
          rcases hm with ⟨_, rfl⟩ | hm
          · exact hb
          · rcases h.held u sd hm with h1 | h1
            · exact Or.inl h1
            · rw [hp] at h1; simp at h1; exact Or.inr h1
        · rcases hm with ⟨e, _⟩ | hm
          · exact absurd e hut
          · simp only [upd_other _ _ _ _ hut]; exact h.held u sd hm
      · intro u
        by_cases hut : u = t
        · subst hut; simpa using hq
        · simp only [upd_other _ _ _ _ hut]; exact h.pend u
    | rtDrop sid =>
      refine ⟨?_, ?_⟩
      · intro u sd hm
        have hm' := (mem_dropRt s.rt t sid u sd).1 hm
        by_cases hut : u = t
        · subst hut
          simp only [upd_same]
          rcases h.held u sd hm'.1 with h1 | h1
          · exact Or.inl h1
          · rw [hp] at h1
            simp only [List.mem_cons, RtI.rtDrop.injEq] at h1
            rcases h1 with e | h1
            · exact absurd ⟨rfl, e⟩ hm'.2
            · exact Or.inr h1
        · simp only [upd_other _ _ _ _ hut]; exact h.held u sd hm'.1
      · intro u
        by_cases hut : u = t
        · subst hut; simpa [pendOk] using hpt
        · simp only [upd_other _ _ _ _ hut]; exact h.pend u

/-! ### the queued steps of the code's order are fine -/

theorem pendOk_rtAtCall_code (hr : Nat → Bool) (c : Call R W D) : pendOk hr (rtAtCall .code c) := by
  cases c <;> simp [rtAtCall, pendOk]

theorem pendOk_rtAfter_code (s : S C R W D) (t : Tid) (i : Instr R W D) (rest : List (Instr R W D))
    (hnb : (exec ops s t i rest).2 ≠ .blocked) :
    pendOk (hasReader (exec ops s t i rest).1 t) (rtAfter .code i rest) := by
  unfold rtAfter
  split
  · have := hasReader_aRead ops s t _ _ hnb
    simp [pendOk, this]
  · simp [pendOk]
  · simp [pendOk]
  · simp [pendOk]

end Nomt.Locks3
