import NomtModel.Api.BtTreeFrame
/-!
The invariant of the `Tree` state machine and its preservation by every enabled step (`g = true`: sync start
waits for the read transactions).
-/
namespace Nomt.BtTree
open Nomt Nomt.Ovl
variable {α : Type}

/-- what the staging maps sit on: the secondary map (when a sync is in flight) over the leaves -/
def baseOf (sec : Option (SMap α)) (ls : List (Leaf (List α))) (k : Key) : Option (List α) :=
  match sec with
  | some s => over s (kvGet (flat ls)) k
  | none => kvGet (flat ls) k

/-- a holder of `(idx, prim, sec)` reads the key-value list `view` from disk `d` -/
def ViewOK (d : Disk α) (idx : Idx) (prim : SMap α) (sec : Option (SMap α)) (view : KVL (List α)) : Prop :=
  ∃ ls, leavesOf d idx = some ls ∧ LeavesOK ls ∧ OvSorted prim ∧ (∀ s, sec = some s → OvSorted s) ∧
    ∀ k, kvGet view k = over prim (baseOf sec ls) k

structure Inv (st : St α) : Prop where
  specSorted : KSorted st.spec
  shared : ViewOK st.disk st.idx st.prim st.sec st.spec
  sharedRefs : ∀ pn ∈ refs st.disk st.idx, ¬ alloc st pn
  phaseSec : st.phase = .writing ↔ st.sec.isSome = true
  readers : ∀ r ∈ st.rtx, ViewOK st.disk r.2.idx r.2.prim r.2.sec r.2.view
  readersRefs : st.phase ≠ .idle → ∀ r ∈ st.rtx, ∀ pn ∈ refs st.disk r.2.idx, ¬ alloc st pn

theorem inv_init : Inv ({} : St α) where
  specSorted := KSorted.nil
  shared := ⟨[], rfl, trivial, List.Pairwise.nil, (fun _ h => by cases h), fun _ => rfl⟩
  sharedRefs := fun _ h => by simp [refs] at h
  phaseSec := by simp
  readers := fun _ h => by cases h
  readersRefs := fun _ _ h => by cases h

/-- **what a holder reads**: the routed lookup through its staging maps and its index = its view -/
theorem viewGet_of_ok {d : Disk α} {idx : Idx} {prim : SMap α} {sec : Option (SMap α)} {view : KVL (List α)}
    (h : ViewOK d idx prim sec view) (k : Key) : viewGet prim sec d idx k = kvGet view k := by
  obtain ⟨ls, hl, hok, _, _, hv⟩ := h
  rw [hv k]
  unfold viewGet stagedGet over
  cases wsLookup prim k with
  | some c => rfl
  | none =>
    simp only
    cases sec with
    | none => simp [baseOf, treeGet_eq _ _ k hl hok]
    | some s =>
      simp only [baseOf, over]
      cases wsLookup s k with
      | some c => rfl
      | none => simp [treeGet_eq _ _ k hl hok]

theorem viewOK_frame {d d' : Disk α} {idx : Idx} {prim : SMap α} {sec : Option (SMap α)} {view : KVL (List α)}
    (h : ViewOK d idx prim sec view) (ha : Agree d d' (refs d idx)) : ViewOK d' idx prim sec view := by
  obtain ⟨ls, hl, rest⟩ := h
  exact ⟨ls, by rw [(leaves_frame idx ha).1]; exact hl, rest⟩

theorem step_inv [DecidableEq α] {st st' : St α} (inv : Inv st) (s : Step α) (h : step true st s = .ok st') : Inv st' := by
  cases s with
  | commit cs =>
    simp only [step] at h
    injection h with h; subst h
    obtain ⟨ls, hl, hok, hp, hs, hv⟩ := inv.shared
    exact { inv with
      specSorted := kvApply_sorted inv.specSorted cs
      shared := ⟨ls, hl, hok, insertAll_sorted cs _ hp, hs, over_insertAll _ cs _ _ inv.specSorted hv⟩ }
  | gate =>
    simp only [step] at h
    split at h
    · cases h
    · rename_i hph
      split at h
      · cases h
      · rename_i hr
        injection h with h; subst h
        have hph' : st.phase = .idle := by simpa using hph
        have hempty : st.rtx = [] := by
          cases hx : st.rtx with
          | nil => rfl
          | cons a b => simp [hx] at hr
        refine { inv with phaseSec := ?_, readersRefs := ?_ }
        · have := inv.phaseSec
          rw [hph'] at this
          simp only at this ⊢
          constructor
          · intro e; cases e
          · intro e; exact absurd (this.2 e) (by decide)
        · intro _ r hr; simp only at hr; rw [hempty] at hr; cases hr
  | take =>
    simp only [step] at h
    split at h
    · cases h
    · rename_i hph
      have hph' : st.phase = .gated := by simpa using hph
      split at h
      · cases h
      · rename_i hsec
        injection h with h; subst h
        obtain ⟨ls, hl, hok, hp, hs, hv⟩ := inv.shared
        refine { inv with shared := ?_, phaseSec := by simp, readersRefs := ?_ }
        · refine ⟨ls, hl, hok, List.Pairwise.nil, ?_, ?_⟩
          · intro s e; injection e with e; subst e; exact hp
          · intro k
            rw [hv k, hsec]
            rfl
        · intro _
          exact inv.readersRefs (by rw [hph']; decide)
  | write pn pg =>
    simp only [step] at h
    split at h
    · cases h
    · rename_i hph
      have hph' : st.phase = .writing := by simpa using hph
      split at h
      · cases h
      · rename_i ha
        have ha' : alloc st pn := by simpa using ha
        injection h with h; subst h
        have hshared : pn ∉ refs st.disk st.idx := fun hm => inv.sharedRefs pn hm ha'
        have hagree := agree_write st.disk pn pg hshared
        have hrd : ∀ r ∈ st.rtx, pn ∉ refs st.disk r.2.idx :=
          fun r hr hm => inv.readersRefs (by rw [hph']; decide) r hr pn hm ha'
        refine { inv with shared := viewOK_frame inv.shared hagree, sharedRefs := ?_, readers := ?_,
                          readersRefs := ?_ }
        · intro q hq
          simp only at hq
          rw [(leaves_frame st.idx hagree).2] at hq
          exact inv.sharedRefs q hq
        · intro r hr
          exact viewOK_frame (inv.readers r hr) (agree_write st.disk pn pg (hrd r hr))
        · intro hne r hr q hq
          simp only at hq
          rw [(leaves_frame r.2.idx (agree_write st.disk pn pg (hrd r hr))).2] at hq
          exact inv.readersRefs hne r hr q hq
  | finish idx' free' bump' =>
    simp only [step] at h
    split at h
    · cases h
    · split at h
      · cases h
      · rename_i hfin
        injection h with h; subst h
        have hfin' : FinishOK st idx' free' bump' := (finishOKb_iff st idx' free' bump').1 (by simpa using hfin)
        obtain ⟨ls0, ls', sec, h0, h1, hsec, hok', hflat, hrefs⟩ := hfin'
        obtain ⟨ls, hl, hok, hp, hs, hv⟩ := inv.shared
        have hls : ls0 = ls := by rw [h0] at hl; exact Option.some.inj hl
        subst hls
        refine { inv with shared := ?_, sharedRefs := ?_, phaseSec := by simp, readersRefs := ?_ }
        · refine ⟨ls', h1, hok', hp, (fun s e => by cases e), ?_⟩
          intro k
          rw [hv k, hsec]
          unfold over
          cases wsLookup st.prim k with
          | some c => rfl
          | none =>
            simp only [baseOf, over]
            rw [hflat, kvGet_kvApply_distinct (flat_sorted hok) (ovSorted_distinct (hs sec hsec))]
            cases wsLookup sec k <;> rfl
        · intro pn hp' ha
          obtain ⟨n1, n2⟩ := hrefs pn hp'
          rcases ha with ha | ha
          · exact n1 ha
          · simp only at ha; omega
        · intro hne; exact absurd rfl hne
  | begin id =>
    simp only [step] at h
    split at h
    · cases h
    · injection h with h; subst h
      refine { inv with readers := ?_, readersRefs := ?_ }
      · intro r hr
        rcases List.mem_cons.1 hr with e | e
        · subst e; exact inv.shared
        · exact inv.readers r e
      · intro hne r hr
        rcases List.mem_cons.1 hr with e | e
        · subst e; exact inv.sharedRefs
        · exact inv.readersRefs hne r e
  | drop id =>
    simp only [step] at h
    split at h
    · injection h with h; subst h
      refine { inv with readers := ?_, readersRefs := ?_ }
      · intro r hr; exact inv.readers r (List.mem_filter.1 hr).1
      · intro hne r hr; exact inv.readersRefs hne r (List.mem_filter.1 hr).1
    · cases h

theorem run_inv [DecidableEq α] : ∀ (steps : List (Step α)) {st st' : St α}, Inv st → run true st steps = .ok st' → Inv st'
  | [], st, st', inv, h => by
    simp only [run] at h; injection h with h; subst h; exact inv
  | s :: rest, st, st', inv, h => by
    simp only [run] at h
    cases hs : step true st s with
    | ok st1 => rw [hs] at h; exact run_inv rest (step_inv inv s hs) h
    | err e => rw [hs] at h; cases h
    | panic m => rw [hs] at h; cases h

/-- the ghost `spec` is the fold of the committed changesets -/
theorem step_spec [DecidableEq α] {g : Bool} {st st' : St α} (s : Step α) (h : step g st s = .ok st') :
    st'.spec = kvApplyAll st.spec (commitsOf [s]) := by
  cases s <;> simp only [step] at h
  case commit cs => injection h with h; subst h; rfl
  all_goals (repeat' split at h) <;> first | (injection h with h; subst h; rfl) | cases h

theorem run_spec [DecidableEq α] {g : Bool} : ∀ (steps : List (Step α)) {st st' : St α}, run g st steps = .ok st' →
    st'.spec = kvApplyAll st.spec (commitsOf steps)
  | [], st, st', h => by simp only [run] at h; injection h with h; subst h; rfl
  | s :: rest, st, st', h => by
    simp only [run] at h
    cases hs : step g st s with
    | ok st1 =>
      rw [hs] at h
      rw [run_spec rest h, step_spec s hs]
      cases s <;> simp [commitsOf, kvApplyAll]
    | err e => rw [hs] at h; cases h
    | panic m => rw [hs] at h; cases h

/-! ### a live read transaction keeps its fields and its pages -/

theorem step_keeps [DecidableEq α] {g : Bool} {st st' : St α} {id : Nat} {r : Rtx α} (s : Step α)
    (h : step g st s = .ok st') (hm : (id, r) ∈ st.rtx) (hnd : s ≠ .drop id) : (id, r) ∈ st'.rtx := by
  cases s <;> simp only [step] at h
  case commit cs => injection h with h; subst h; exact hm
  case drop id' =>
    split at h
    · injection h with h; subst h
      refine List.mem_filter.2 ⟨hm, ?_⟩
      have : id ≠ id' := fun e => hnd (e ▸ rfl)
      simpa using this
    · cases h
  case begin id' =>
    split at h
    · cases h
    · injection h with h; subst h; exact List.mem_cons_of_mem _ hm
  all_goals (repeat' split at h) <;> first | (injection h with h; subst h; exact hm) | cases h

/-- a step rewrites no page a live read transaction may read -/
theorem step_pages [DecidableEq α] {st st' : St α} {id : Nat} {r : Rtx α} (inv : Inv st) (s : Step α)
    (h : step true st s = .ok st') (hm : (id, r) ∈ st.rtx) : Agree st.disk st'.disk (refs st.disk r.idx) := by
  cases s <;> simp only [step] at h
  case commit cs => injection h with h; subst h; exact fun _ _ => rfl
  case write pn pg =>
    split at h
    · cases h
    · rename_i hph
      have hph' : st.phase = .writing := by simpa using hph
      split at h
      · cases h
      · rename_i ha
        have ha' : alloc st pn := by simpa using ha
        injection h with h; subst h
        exact agree_write st.disk pn pg
          (fun hmem => inv.readersRefs (by rw [hph']; decide) (id, r) hm pn hmem ha')
  all_goals (repeat' split at h) <;> first | (injection h with h; subst h; exact fun _ _ => rfl) | cases h

/-- a live read transaction stays in the state, the invariant holds, and no page it may read is rewritten -/
theorem run_snapshot [DecidableEq α] {id : Nat} {r : Rtx α} : ∀ (post : List (Step α)) {st st' : St α}, Inv st → (id, r) ∈ st.rtx →
    run true st post = .ok st' → (∀ s ∈ post, s ≠ .drop id) →
    (id, r) ∈ st'.rtx ∧ Inv st' ∧ Agree st.disk st'.disk (refs st.disk r.idx)
  | [], st, st', inv, hm, h, _ => by
    simp only [run] at h; injection h with h; subst h; exact ⟨hm, inv, fun _ _ => rfl⟩
  | s :: rest, st, st', inv, hm, h, hnd => by
    simp only [run] at h
    cases hs : step true st s with
    | err e => rw [hs] at h; cases h
    | panic m => rw [hs] at h; cases h
    | ok st1 =>
      rw [hs] at h
      have hm1 := step_keeps s hs hm (hnd s (List.mem_cons_self ..))
      have inv1 := step_inv inv s hs
      have hag := step_pages inv s hs hm
      obtain ⟨hm', inv', hag'⟩ := run_snapshot rest inv1 hm1 h (fun s' hs' => hnd s' (List.mem_cons_of_mem _ hs'))
      refine ⟨hm', inv', fun pn hp => ?_⟩
      rw [(leaves_frame r.idx hag).2] at hag'
      rw [hag' pn hp, hag pn hp]

end Nomt.BtTree
