import NomtModel.Api.OvlIndex
/-!
# Where overlay values and on-disk leaves are merged (`nomt/src/merkle/seek.rs`)

* `leavesMerge`: mirror of the merge loop of `SeekRequest::continue_leaves_fetch` (reconstruction of elided
  pages): `collected_leaf_data` (what the beatree iterator produced for the key range, ascending) merged with
  `overlay.value_iter(range)` (ascending): overlay insertions override / are inserted between disk entries,
  overlay deletions remove the disk entry, "naked" deletions are skipped.
* `leafFetch`: mirror of `RequestState::begin_leaf_fetch` + `SeekRequest::continue_leaf_fetch` (the single leaf
  below a leaf node of the session's trie): the first overlay insertion of the range if there is one, else
  the first beatree item that is not deleted by the overlay (`manage_deletions`), else the panic
  "leaf must exist".

Specification of both: the sorted-map union `kvApply disk ov` (overlay entries override, `none` deletes).
-/
namespace Nomt.Ovl
open Nomt
variable {VH : Type}

/-- `collected[start_idx..beatree_leaf_idx]` after `while idx < len && collected[idx].0 < overlay_key { idx += 1 }` -/
def preOf (coll : KVL VH) (ok : Key) : KVL VH := coll.takeWhile (fun e => bitsLt e.1 ok)

/-- `collected[beatree_leaf_idx..]` after the loop body: the entry with `key_path == Some(&overlay_key)` is
stepped over -/
def restAfter (coll : KVL VH) (ok : Key) : KVL VH :=
  let rest := coll.dropWhile (fun e => bitsLt e.1 ok)
  let hit := match rest.head? with | some e => e.1 == ok | none => false
  if hit then rest.tail else rest

/-- the `for (overlay_key, overlay_valuechange) in overlay.value_iter(..)` loop; the second argument is
`collected_leaf_data[beatree_leaf_idx..]` -/
def mergeLoop : List (Key × Option VH) → KVL VH → KVL VH
  | [], coll => coll                                   -- `extend_from_slice(&collected[idx..])`
  | (ok, oc) :: ov, coll =>
    match oc with
    | some v => preOf coll ok ++ (ok, v) :: mergeLoop ov (restAfter coll ok)
    | none => preOf coll ok ++ mergeLoop ov (restAfter coll ok)

/-- the merge of `continue_leaves_fetch` with its `collected_leaf_data.is_empty()` fast path -/
def leavesMerge (coll : KVL VH) (ov : List (Key × Option VH)) : KVL VH :=
  if coll.isEmpty then ov.filterMap (fun e => e.2.map (fun v => (e.1, v)))
  else mergeLoop ov coll

/-- the closure `manage_deletions`: `(remaining deletions, should_skip)` -/
def manageDeletions : List Key → Key → List Key × Bool
  | [], _ => ([], false)
  | d :: ds, key =>
    if bitsLt key d then (d :: ds, false)
    else if key == d then (ds, true)
    else manageDeletions ds key

/-- the `loop` of `continue_leaf_fetch` over the items the beatree iterator yields -/
def fetchLoop : KVL VH → List Key → Outcome Unit (Key × VH)
  | [], _ => .panic "leaf must exist"
  | (k, v) :: rest, dels =>
    let r := manageDeletions dels k
    if r.2 then fetchLoop rest r.1 else .ok (k, v)

/-- `begin_leaf_fetch`: the first insertion of the overlay's range decides; otherwise all items are deletions -/
def firstInsert : List (Key × Option VH) → Option (Key × VH)
  | [] => none
  | (k, some v) :: _ => some (k, v)
  | (_, none) :: rest => firstInsert rest

def leafFetch (disk : KVL VH) (ov : List (Key × Option VH)) : Outcome Unit (Key × VH) :=
  match firstInsert ov with
  | some x => .ok x
  | none => fetchLoop disk (ov.map (·.1))

/-- the overlay's items of a range: ascending keys -/
def OvSorted (ov : List (Key × Option VH)) : Prop := ov.Pairwise (fun x y => bitsLt x.1 y.1 = true)

/-! ### `leavesMerge` = sorted-map union -/

theorem kvWrite_append_of_lt (pre m : KVL VH) (k : Key) (w : Option VH)
    (hpre : ∀ e ∈ pre, bitsLt e.1 k = true) : kvWrite (pre ++ m) k w = pre ++ kvWrite m k w := by
  induction pre with
  | nil => rfl
  | cons x xs ih =>
    have hx := hpre x (List.mem_cons_self ..)
    have hne : (x.1 == k) = false := bitsLt_beq_false hx
    have hnlt : bitsLt k x.1 = false := bitsLt_asymm hx
    have ih' := ih (fun e he => hpre e (List.mem_cons_of_mem _ he))
    cases w with
    | none =>
      simp only [kvWrite] at ih' ⊢
      simp only [List.cons_append, kvErase, hne]
      rw [ih']; rfl
    | some v =>
      simp only [kvWrite] at ih' ⊢
      simp only [List.cons_append, kvInsert, hne, hnlt]
      rw [ih']; rfl

theorem kvApply_append_of_lt (pre m : KVL VH) (ws : List (Key × Option VH))
    (h : ∀ e ∈ pre, ∀ w ∈ ws, bitsLt e.1 w.1 = true) : kvApply (pre ++ m) ws = pre ++ kvApply m ws := by
  induction ws generalizing m with
  | nil => rfl
  | cons w ws ih =>
    rw [kvApply_cons, kvApply_cons, kvWrite_append_of_lt pre m w.1 w.2 (fun e he => h e he w (List.mem_cons_self ..))]
    exact ih _ (fun e he w' hw' => h e he w' (List.mem_cons_of_mem _ hw'))

theorem takeWhile_append_dropWhile' {A : Type} (p : A → Bool) (l : List A) : l.takeWhile p ++ l.dropWhile p = l :=
  List.takeWhile_append_dropWhile

theorem mem_takeWhile_true {A : Type} (p : A → Bool) (l : List A) {e : A} (h : e ∈ l.takeWhile p) : p e = true := by
  induction l with
  | nil => cases h
  | cons y ys ih =>
    simp only [List.takeWhile] at h
    cases hp : p y with
    | false => rw [hp] at h; cases h
    | true =>
      rw [hp] at h
      rcases List.mem_cons.1 h with e1 | e1
      · subst e1; exact hp
      · exact ih e1

theorem dropWhile_head_not {A : Type} (p : A → Bool) (l : List A) (x : A) (h : (l.dropWhile p).head? = some x) :
    p x = false := by
  induction l with
  | nil => simp at h
  | cons y ys ih =>
    simp only [List.dropWhile] at h
    cases hp : p y with
    | true => rw [hp] at h; exact ih h
    | false => rw [hp] at h; simp at h; subst h; exact hp

theorem kvErase_absent {l : KVL VH} {ok : Key} (hl : ∀ e ∈ l, bitsLt ok e.1 = true) : kvErase l ok = l := by
  induction l with
  | nil => rfl
  | cons y ys ihy =>
    have hy := hl y (List.mem_cons_self ..)
    simp only [kvErase, bitsLt_beq_false' hy]
    rw [ihy (fun e he => hl e (List.mem_cons_of_mem _ he))]; rfl

/-- one overlay item written into a sorted list, in the shape of the loop body -/
theorem kvWrite_split {coll : KVL VH} (hs : KSorted coll) (ok : Key) (oc : Option VH) :
    kvWrite coll ok oc = (match oc with
      | some v => preOf coll ok ++ (ok, v) :: restAfter coll ok
      | none => preOf coll ok ++ restAfter coll ok) ∧
    (∀ e ∈ preOf coll ok, bitsLt e.1 ok = true) ∧ (∀ e ∈ restAfter coll ok, bitsLt ok e.1 = true) ∧
    KSorted (restAfter coll ok) := by
  have hpre : ∀ e ∈ preOf coll ok, bitsLt e.1 ok = true := by
    intro e he
    exact mem_takeWhile_true (fun e : Key × VH => bitsLt e.1 ok) coll he
  have hsplit : coll = preOf coll ok ++ coll.dropWhile (fun e => bitsLt e.1 ok) :=
    (List.takeWhile_append_dropWhile).symm
  have hsr : KSorted (coll.dropWhile (fun e => bitsLt e.1 ok)) := by
    have : KSorted (preOf coll ok ++ coll.dropWhile (fun e => bitsLt e.1 ok)) := hsplit ▸ hs
    exact (List.pairwise_append.1 this).2.1
  have hrest' : (∀ e ∈ restAfter coll ok, bitsLt ok e.1 = true) ∧ KSorted (restAfter coll ok) ∧
      kvWrite (coll.dropWhile (fun e => bitsLt e.1 ok)) ok oc =
        (match oc with | some v => (ok, v) :: restAfter coll ok | none => restAfter coll ok) := by
    unfold restAfter
    cases hr : coll.dropWhile (fun e => bitsLt e.1 ok) with
    | nil =>
      simp only [List.head?_nil, Bool.false_eq_true, if_false]
      refine ⟨fun e he => (by cases he), KSorted.nil, ?_⟩
      cases oc <;> simp [kvWrite, kvInsert, kvErase]
    | cons x xs =>
      obtain ⟨hx, hxs⟩ := ksorted_cons.1 (hr ▸ hsr)
      have hnlt : bitsLt x.1 ok = false :=
        dropWhile_head_not (fun e : Key × VH => bitsLt e.1 ok) coll x (by rw [hr]; rfl)
      by_cases heq : x.1 = ok
      · have hb : (x.1 == ok) = true := by simpa using heq
        simp only [List.head?_cons, hb, if_true, List.tail_cons]
        refine ⟨fun e he => heq ▸ hx e he, hxs, ?_⟩
        cases oc with
        | none => simp [kvWrite, kvErase, hb]
        | some v => simp [kvWrite, kvInsert, hb]
      · have hb : (x.1 == ok) = false := by simpa using heq
        have hlt : bitsLt ok x.1 = true := bitsLt_of_not hnlt heq
        simp only [List.head?_cons, hb, Bool.false_eq_true, if_false]
        refine ⟨?_, hr ▸ hsr, ?_⟩
        · intro e he
          rcases List.mem_cons.1 he with e1 | e1
          · subst e1; exact hlt
          · exact bitsLt_trans hlt (hx e e1)
        · cases oc with
          | none =>
            simp only [kvWrite, kvErase, hb, Bool.false_eq_true, if_false]
            congr 1
            exact kvErase_absent (fun e he => bitsLt_trans hlt (hx e he))
          | some v => simp [kvWrite, kvInsert, hb, hlt]
  obtain ⟨h1, h2, h3⟩ := hrest'
  refine ⟨?_, hpre, h1, h2⟩
  conv => lhs; rw [hsplit]
  rw [kvWrite_append_of_lt _ _ ok oc hpre, h3]
  cases oc <;> rfl

theorem kvApply_cons_of_lt (x : Key × VH) (m : KVL VH) (ws : List (Key × Option VH))
    (h : ∀ w ∈ ws, bitsLt x.1 w.1 = true) : kvApply (x :: m) ws = x :: kvApply m ws :=
  kvApply_append_of_lt [x] m ws (fun e he w hw => by
    have : e = x := by simpa using he
    subst this; exact h w hw)

theorem mergeLoop_eq_kvApply {coll : KVL VH} (hs : KSorted coll) {ov : List (Key × Option VH)} (ho : OvSorted ov) :
    mergeLoop ov coll = kvApply coll ov := by
  induction ov generalizing coll with
  | nil => rfl
  | cons x ov ih =>
    obtain ⟨ok, oc⟩ := x
    obtain ⟨hx, hov⟩ := List.pairwise_cons.1 ho
    obtain ⟨hw, hpre, hrest, hsr⟩ := kvWrite_split hs ok oc
    rw [kvApply_cons, hw]
    unfold mergeLoop
    cases oc with
    | none =>
      simp only
      rw [kvApply_append_of_lt _ _ ov (fun e he w hw' => bitsLt_trans (hpre e he) (hx w hw')), ih hsr hov]
    | some v =>
      simp only
      rw [kvApply_append_of_lt _ _ ov (fun e he w hw' => bitsLt_trans (hpre e he) (hx w hw')),
        kvApply_cons_of_lt _ _ ov (fun w hw' => hx w hw'), ih hsr hov]

theorem kvApply_nil_eq_filterMap {ov : List (Key × Option VH)} (ho : OvSorted ov) :
    kvApply ([] : KVL VH) ov = ov.filterMap (fun e => e.2.map (fun v => (e.1, v))) := by
  induction ov with
  | nil => rfl
  | cons x ov ih =>
    obtain ⟨ok, oc⟩ := x
    obtain ⟨hx, hov⟩ := List.pairwise_cons.1 ho
    rw [kvApply_cons]
    cases oc with
    | none =>
      simp only [kvWrite, kvErase, List.filterMap_cons, Option.map_none]
      exact ih hov
    | some v =>
      simp only [kvWrite, kvInsert, List.filterMap_cons, Option.map_some]
      rw [kvApply_cons_of_lt _ _ ov (fun w hw' => hx w hw'), ih hov]

/-- **the merge of `continue_leaves_fetch` is the sorted-map union** -/
theorem leavesMerge_eq_kvApply {coll : KVL VH} (hs : KSorted coll) {ov : List (Key × Option VH)} (ho : OvSorted ov) :
    leavesMerge coll ov = kvApply coll ov := by
  unfold leavesMerge
  cases coll with
  | nil => simp only [List.isEmpty_nil, if_true]; exact (kvApply_nil_eq_filterMap ho).symm
  | cons x xs => simp only [List.isEmpty_cons, Bool.false_eq_true, if_false]; exact mergeLoop_eq_kvApply hs ho

/-! ### `leafFetch` -/

/-- the first beatree item that the overlay does not delete -/
def firstLive (disk : KVL VH) (dels : List Key) : Option (Key × VH) := disk.find? (fun e => !dels.contains e.1)

def KeysSorted (ks : List Key) : Prop := ks.Pairwise (fun a b => bitsLt a b = true)

theorem manageDeletions_spec {dels : List Key} (hd : KeysSorted dels) (key : Key) :
    ((manageDeletions dels key).2 = true ↔ key ∈ dels) ∧
    ∃ pre, dels = pre ++ (manageDeletions dels key).1 ∧ ∀ d ∈ pre, bitsLt key d = false := by
  induction dels with
  | nil => exact ⟨by simp [manageDeletions], [], rfl, fun d hd => (by cases hd)⟩
  | cons d ds ih =>
    obtain ⟨hx, hds⟩ := List.pairwise_cons.1 hd
    unfold manageDeletions
    by_cases h1 : bitsLt key d = true
    · simp only [h1, if_true]
      refine ⟨?_, [], rfl, fun d hd => (by cases hd)⟩
      simp only [Bool.false_eq_true, false_iff, List.mem_cons, not_or]
      refine ⟨bitsLt_ne h1, fun hm => ?_⟩
      have := bitsLt_trans h1 (hx key hm)
      rw [bitsLt_irrefl] at this; cases this
    · have h1' : bitsLt key d = false := by simpa using h1
      simp only [h1', Bool.false_eq_true, if_false]
      by_cases h2 : key = d
      · subst h2
        simp only [beq_self_eq_true, if_true, List.mem_cons, true_or, iff_true]
        exact ⟨trivial, [key], rfl, fun d hd => by
          have : d = key := by simpa using hd
          subst this; exact bitsLt_irrefl _⟩
      · have hb : (key == d) = false := by simpa using h2
        simp only [hb, Bool.false_eq_true, if_false]
        obtain ⟨ih1, pre, ih2, ih3⟩ := ih hds
        refine ⟨?_, d :: pre, ?_, ?_⟩
        · rw [ih1]; simp [h2]
        · simp only [List.cons_append]; rw [← ih2]
        · intro d' hd'
          rcases List.mem_cons.1 hd' with e | e
          · subst e; exact h1'
          · exact ih3 d' e

theorem find?_congr' {A : Type} {p q : A → Bool} {l : List A} (h : ∀ x ∈ l, p x = q x) : l.find? p = l.find? q := by
  induction l with
  | nil => rfl
  | cons x xs ih =>
    simp only [List.find?_cons, h x (List.mem_cons_self ..)]
    rw [ih (fun y hy => h y (List.mem_cons_of_mem _ hy))]

/-- the loop of `continue_leaf_fetch` returns the first item the overlay does not delete -/
theorem fetchLoop_spec {disk : KVL VH} (hs : KSorted disk) {dels : List Key} (hd : KeysSorted dels) :
    fetchLoop disk dels = match firstLive disk dels with
      | some y => .ok y
      | none => .panic "leaf must exist" := by
  induction disk generalizing dels with
  | nil => rfl
  | cons x rest ih =>
    obtain ⟨k, v⟩ := x
    obtain ⟨hx, hrest⟩ := ksorted_cons.1 hs
    obtain ⟨h1, pre, h2, h3⟩ := manageDeletions_spec hd k
    unfold fetchLoop
    simp only
    by_cases hm : k ∈ dels
    · have hr : (manageDeletions dels k).2 = true := h1.2 hm
      rw [if_pos hr]
      have hd' : KeysSorted (manageDeletions dels k).1 := by
        have : KeysSorted (pre ++ (manageDeletions dels k).1) := h2 ▸ hd
        exact (List.pairwise_append.1 this).2.1
      rw [ih hrest hd']
      have hc : dels.contains k = true := by simpa using hm
      have : firstLive ((k, v) :: rest) dels = firstLive rest (manageDeletions dels k).1 := by
        unfold firstLive
        simp only [List.find?_cons, hc, Bool.not_true]
        apply find?_congr'
        intro e he
        congr 1
        have hlt := hx e he
        -- `e.1` is above `k`, hence not among the deletions stepped over
        have : e.1 ∈ dels ↔ e.1 ∈ (manageDeletions dels k).1 := by
          conv => lhs; rw [h2]
          rw [List.mem_append]
          constructor
          · rintro (hp | hp)
            · have := h3 _ hp
              simp only at hlt
              rw [hlt] at this; cases this
            · exact hp
          · exact fun hp => .inr hp
        rw [Bool.eq_iff_iff]
        simpa using this
      rw [this]
    · have hr : ¬ (manageDeletions dels k).2 = true := fun hh => hm (h1.1 hh)
      rw [if_neg hr]
      have hc : dels.contains k = false := by simpa using hm
      have : firstLive ((k, v) :: rest) dels = some (k, v) := by
        unfold firstLive
        simp only [List.find?_cons, hc, Bool.not_false]
      rw [this]

theorem head?_filter_eq_find? {A : Type} (p : A → Bool) (l : List A) : (l.filter p).head? = l.find? p := by
  induction l with
  | nil => rfl
  | cons x xs ih =>
    cases hp : p x <;> simp [List.filter, List.find?_cons, hp, ih]

theorem wsLookupLast_all_none {ov : List (Key × Option VH)} (hn : ∀ e ∈ ov, e.2 = none) (k : Key) :
    wsLookupLast ov k = if k ∈ ov.map (·.1) then some none else none := by
  induction ov with
  | nil => rfl
  | cons x xs ih =>
    obtain ⟨k', w⟩ := x
    have hw : w = none := hn (k', w) (List.mem_cons_self ..)
    subst hw
    simp only [wsLookupLast, ih (fun e he => hn e (List.mem_cons_of_mem _ he)), List.map_cons, List.mem_cons]
    by_cases h1 : k ∈ xs.map (·.1)
    · simp [h1]
    · by_cases h2 : k = k'
      · subst h2; simp [h1]
      · have hb : (k' == k) = false := by simpa using fun e => h2 e.symm
        simp [h1, h2, hb]

/-- an overlay range holding only deletions removes exactly those keys -/
theorem kvApply_all_none {disk : KVL VH} (hs : KSorted disk) {ov : List (Key × Option VH)} (hn : ∀ e ∈ ov, e.2 = none) :
    kvApply disk ov = disk.filter (fun e => !(ov.map (·.1)).contains e.1) := by
  apply kv_ext (kvApply_sorted hs ov) (ksorted_filter hs _)
  intro k
  rw [kvGet_kvApply hs, wsLookupLast_all_none hn, kvGet_filter hs]
  by_cases h : k ∈ ov.map (·.1)
  · have hc : (ov.map (·.1)).contains k = true := by simpa using h
    rw [if_pos h]
    cases kvGet disk k with
    | none => rfl
    | some v => simp only [Option.filter, hc, Bool.not_true, Bool.false_eq_true, if_false]
  · have hc : (ov.map (·.1)).contains k = false := by
      cases hcc : (ov.map (·.1)).contains k with
      | false => rfl
      | true => exact absurd (by simpa using hcc) h
    rw [if_neg h]
    cases kvGet disk k with
    | none => rfl
    | some v => simp only [Option.filter, hc, Bool.not_false, if_true]

theorem firstInsert_none {ov : List (Key × Option VH)} (h : firstInsert ov = none) : ∀ e ∈ ov, e.2 = none := by
  induction ov with
  | nil => intro e he; cases he
  | cons x xs ih =>
    obtain ⟨k, w⟩ := x
    cases w with
    | some v => simp [firstInsert] at h
    | none =>
      simp only [firstInsert] at h
      intro e he
      rcases List.mem_cons.1 he with e1 | e1
      · subst e1; rfl
      · exact ih h e e1

theorem firstInsert_some {ov : List (Key × Option VH)} {x : Key × VH} (h : firstInsert ov = some x) :
    (x.1, some x.2) ∈ ov := by
  induction ov with
  | nil => cases h
  | cons y ys ih =>
    obtain ⟨k, w⟩ := y
    cases w with
    | some v => simp only [firstInsert, Option.some.injEq] at h; subst h; exact List.mem_cons_self ..
    | none => simp only [firstInsert] at h; exact List.mem_cons_of_mem _ (ih h)

theorem ovSorted_distinct {ov : List (Key × Option VH)} (ho : OvSorted ov) : WDistinct ov :=
  List.Pairwise.imp (fun h => bitsLt_ne h) ho

theorem wsLookup_of_mem {ov : List (Key × Option VH)} (hd : WDistinct ov) {k : Key} {c : Option VH}
    (h : (k, c) ∈ ov) : wsLookup ov k = some c := by
  induction ov with
  | nil => cases h
  | cons y ys ih =>
    obtain ⟨hy, hys⟩ := List.pairwise_cons.1 hd
    rcases List.mem_cons.1 h with e | e
    · subst e; simp [wsLookup]
    · have hne : y.1 ≠ k := hy (k, c) e
      have hb : (y.1 == k) = false := by simpa using hne
      obtain ⟨k', w⟩ := y
      simp only [wsLookup]
      simp only at hb
      rw [hb]
      exact ih hys e

theorem keysSorted_of_ovSorted {ov : List (Key × Option VH)} (ho : OvSorted ov) : KeysSorted (ov.map (·.1)) := by
  unfold KeysSorted
  rw [List.pairwise_map]
  exact ho

/-- **overlay-aware leaf fetch, all-deletions case**: the item found is the head of the merged range, and the
panic "leaf must exist" is reached exactly when the merged range is empty -/
theorem leafFetch_no_insert {disk : KVL VH} (hs : KSorted disk) {ov : List (Key × Option VH)} (ho : OvSorted ov)
    (hn : firstInsert ov = none) :
    leafFetch disk ov = match (kvApply disk ov).head? with
      | some y => .ok y
      | none => .panic "leaf must exist" := by
  unfold leafFetch
  rw [hn]
  simp only
  rw [fetchLoop_spec hs (keysSorted_of_ovSorted ho), kvApply_all_none hs (firstInsert_none hn), head?_filter_eq_find?]
  rfl

/-- **overlay-aware leaf fetch**: whatever it returns is an entry of the merged range, and when the merged
range holds exactly one entry (the range is the sub-trie below a leaf node of the session's trie) it returns
that entry — it never panics there -/
theorem leafFetch_sound {disk : KVL VH} (hs : KSorted disk) {ov : List (Key × Option VH)} (ho : OvSorted ov)
    {x : Key × VH} (h : leafFetch disk ov = .ok x) : x ∈ kvApply disk ov := by
  cases hf : firstInsert ov with
  | some y =>
    unfold leafFetch at h
    rw [hf] at h
    cases h
    have hmem := firstInsert_some hf
    have hget : kvGet (kvApply disk ov) x.1 = some x.2 := by
      rw [kvGet_kvApply_distinct hs (ovSorted_distinct ho), wsLookup_of_mem (ovSorted_distinct ho) hmem]
    exact mem_of_kvGet hget
  | none =>
    rw [leafFetch_no_insert hs ho hf] at h
    cases hh : (kvApply disk ov).head? with
    | none => rw [hh] at h; cases h
    | some y =>
      rw [hh] at h
      cases h
      exact List.mem_of_head? hh

theorem leafFetch_single {disk : KVL VH} (hs : KSorted disk) {ov : List (Key × Option VH)} (ho : OvSorted ov)
    {y : Key × VH} (h1 : kvApply disk ov = [y]) : leafFetch disk ov = .ok y := by
  cases hf : firstInsert ov with
  | some x =>
    have hx : leafFetch disk ov = .ok x := by unfold leafFetch; rw [hf]
    have := leafFetch_sound hs ho hx
    rw [h1] at this
    have : x = y := by simpa using this
    rw [hx, this]
  | none =>
    rw [leafFetch_no_insert hs ho hf, h1]
    rfl

end Nomt.Ovl
