import NomtModel.Api.OvlBtStaging
/-!
`LeafIterator` (mirror in `Api/OvlBtIter.lean`): the stream of entries a leaf iterator still has to yield, its
invariant, and what `peek_key` / `next` / `provide_leaf` do to it.  (Helper lemmas for `Props/C05_BtIter.lean`.)
-/
namespace Nomt.Ovl
open Nomt
variable {V : Type}

/-! ### order facts -/

theorem lt_of_lt_of_not_lt {a b c : Key} (h1 : bitsLt a b = true) (h2 : bitsLt c b = false) : bitsLt a c = true := by
  rcases bitsLt_trichotomy a c with h | h | h
  · exact h
  · subst h; rw [h1] at h2; cases h2
  · have := bitsLt_trans h h1; rw [this] at h2; cases h2

theorem not_lt_of_not_lt_of_not_lt {a b c : Key} (h1 : bitsLt a b = false) (h2 : bitsLt b c = false) : bitsLt a c = false := by
  cases h : bitsLt a c with
  | false => rfl
  | true =>
    -- c ≤ b ≤ a and a < c
    rcases bitsLt_trichotomy b c with h3 | h3 | h3
    · rw [h3] at h2; cases h2
    · subst h3; rw [h] at h1; cases h1
    · have := bitsLt_trans h h3; rw [this] at h1; cases h1

theorem beforeStop_false_of_ge {stop : Option Key} {sep k : Key} (h1 : beforeStop stop sep = false)
    (h2 : bitsLt k sep = false) : beforeStop stop k = false := by
  cases stop with
  | none => simp [beforeStop] at h1
  | some s =>
    simp only [beforeStop] at h1 ⊢
    exact not_lt_of_not_lt_of_not_lt h2 h1

theorem beforeStop_of_lt {stop : Option Key} {a b : Key} (h1 : bitsLt a b = true) (h2 : beforeStop stop b = true) :
    beforeStop stop a = true := by
  cases stop with
  | none => rfl
  | some s => simp only [beforeStop] at h2 ⊢; exact bitsLt_trans h1 h2

/-! ### leaves -/

def flat (ls : List (Leaf V)) : KVL V := ls.flatMap (·.entries)

theorem flat_cons (l : Leaf V) (rest : List (Leaf V)) : flat (l :: rest) = l.entries ++ flat rest := by
  simp [flat]

theorem mem_flat {ls : List (Leaf V)} {e : Key × V} (h : e ∈ flat ls) : ∃ l ∈ ls, e ∈ l.entries := by
  simpa [flat] using h

/-- the leaves of a tree, in order: entries ascending inside a leaf and across leaves, every separator not above
the keys of its leaf and above the keys and separators of the earlier leaves -/
def LeavesOK : List (Leaf V) → Prop
  | [] => True
  | l :: rest => KSorted l.entries ∧ (∀ e ∈ l.entries, bitsLt e.1 l.sep = false) ∧
      (∀ l' ∈ rest, bitsLt l.sep l'.sep = true ∧ ∀ e ∈ l.entries, bitsLt e.1 l'.sep = true) ∧ LeavesOK rest

theorem leavesOK_mem {ls : List (Leaf V)} (h : LeavesOK ls) {l : Leaf V} (hl : l ∈ ls) :
    ∀ e ∈ l.entries, bitsLt e.1 l.sep = false := by
  induction ls with
  | nil => cases hl
  | cons x xs ih =>
    obtain ⟨_, h2, _, h4⟩ := h
    rcases List.mem_cons.1 hl with e | e
    · subst e; exact h2
    · exact ih h4 e

theorem flat_lower {l : Leaf V} {rest : List (Leaf V)} (h : LeavesOK (l :: rest)) :
    ∀ e ∈ flat (l :: rest), bitsLt e.1 l.sep = false := by
  intro e he
  rw [flat_cons, List.mem_append] at he
  obtain ⟨_, h2, h3, h4⟩ := h
  rcases he with he | he
  · exact h2 e he
  · obtain ⟨l', hl', hel'⟩ := mem_flat he
    have h5 := leavesOK_mem h4 hl' e hel'
    have h6 := (h3 l' hl').1
    cases hh : bitsLt e.1 l.sep with
    | false => rfl
    | true => have := bitsLt_trans hh h6; rw [this] at h5; cases h5

theorem flat_sorted {ls : List (Leaf V)} (h : LeavesOK ls) : KSorted (flat ls) := by
  induction ls with
  | nil => exact KSorted.nil
  | cons l rest ih =>
    obtain ⟨h1, h2, h3, h4⟩ := h
    rw [flat_cons]
    unfold KSorted
    rw [List.pairwise_append]
    refine ⟨h1, ih h4, ?_⟩
    intro a ha b hb
    obtain ⟨l', hl', hbl'⟩ := mem_flat hb
    exact lt_of_lt_of_not_lt ((h3 l' hl').2 a ha) (leavesOK_mem h4 hl' b hbl')

/-! ### the stream of a leaf iterator -/

def cutStop (stop : Option Key) (l : KVL V) : KVL V := l.takeWhile (fun e => beforeStop stop e.1)

def skipStart (start : Option Key) (es : KVL V) : KVL V :=
  match start with
  | some s => es.dropWhile (fun e => bitsLt e.1 s)
  | none => es

theorem cutStop_cons (stop : Option Key) (x : Key × V) (l : KVL V) :
    cutStop stop (x :: l) = if beforeStop stop x.1 then x :: cutStop stop l else [] := by
  simp only [cutStop, List.takeWhile]
  cases beforeStop stop x.1 <;> rfl

theorem cutStop_nil_of_all {stop : Option Key} {l : KVL V} (h : ∀ e ∈ l, beforeStop stop e.1 = false) :
    cutStop stop l = [] := by
  cases l with
  | nil => rfl
  | cons x xs => rw [cutStop_cons, h x (List.mem_cons_self ..)]; rfl

theorem mem_cutStop {stop : Option Key} {l : KVL V} {e : Key × V} (h : e ∈ cutStop stop l) :
    e ∈ l ∧ beforeStop stop e.1 = true :=
  ⟨(List.takeWhile_sublist _).subset h, mem_takeWhile_true (fun e : Key × V => beforeStop stop e.1) l h⟩

theorem cutStop_sorted {stop : Option Key} {l : KVL V} (h : KSorted l) : KSorted (cutStop stop l) :=
  List.Pairwise.sublist (List.takeWhile_sublist _) h

theorem skipStart_sublist (start : Option Key) (es : KVL V) : (skipStart start es).Sublist es := by
  cases start with
  | none => exact List.Sublist.refl _
  | some s => exact List.dropWhile_sublist _

/-- what the leaf iterator will still yield (leaves provided on demand) -/
def LeafIt.stream (it : LeafIt V) : KVL V :=
  match it.st with
  | .done => []
  | .proceeding cur => cutStop it.stop (cur ++ flat it.pending)
  | .blocked =>
    match it.pending with
    | [] => []
    | l :: rest => cutStop it.stop (skipStart it.start l.entries ++ flat rest)

def LInv (it : LeafIt V) : Prop :=
  match it.st with
  | .done => True
  | .proceeding cur => cur ≠ [] ∧ KSorted cur ∧ LeavesOK it.pending ∧
      (∀ l' ∈ it.pending, ∀ e ∈ cur, bitsLt e.1 l'.sep = true) ∧ it.start = none
  | .blocked => it.pending ≠ [] ∧ LeavesOK it.pending

def LeafIt.measure (it : LeafIt V) : Nat :=
  (match it.st with | .proceeding cur => cur.length | _ => 0) +
    (it.pending.map (fun l => l.entries.length + 1)).sum

theorem cur_flat_sorted {cur : KVL V} {pending : List (Leaf V)} (h1 : KSorted cur) (h2 : LeavesOK pending)
    (h3 : ∀ l' ∈ pending, ∀ e ∈ cur, bitsLt e.1 l'.sep = true) : KSorted (cur ++ flat pending) := by
  unfold KSorted
  rw [List.pairwise_append]
  refine ⟨h1, flat_sorted h2, ?_⟩
  intro a ha b hb
  obtain ⟨l', hl', hbl'⟩ := mem_flat hb
  exact lt_of_lt_of_not_lt (h3 l' hl' a ha) (leavesOK_mem h2 hl' b hbl')

theorem stream_sorted {it : LeafIt V} (inv : LInv it) : KSorted it.stream := by
  unfold LeafIt.stream
  unfold LInv at inv
  cases hst : it.st with
  | done => exact KSorted.nil
  | proceeding cur =>
    rw [hst] at inv
    obtain ⟨_, h2, h3, h4, _⟩ := inv
    exact cutStop_sorted (cur_flat_sorted h2 h3 h4)
  | blocked =>
    rw [hst] at inv
    obtain ⟨h1, h2⟩ := inv
    cases hp : it.pending with
    | nil => exact KSorted.nil
    | cons l rest =>
      rw [hp] at h2
      simp only
      apply cutStop_sorted
      have hs := flat_sorted h2
      rw [flat_cons] at hs
      exact List.Pairwise.sublist (List.Sublist.append (skipStart_sublist _ _) (List.Sublist.refl _)) hs

theorem stream_before_stop {it : LeafIt V} {e : Key × V} (h : e ∈ it.stream) : beforeStop it.stop e.1 = true := by
  unfold LeafIt.stream at h
  cases hst : it.st with
  | done => rw [hst] at h; cases h
  | proceeding cur => rw [hst] at h; exact (mem_cutStop h).2
  | blocked =>
    rw [hst] at h
    cases hp : it.pending with
    | nil => rw [hp] at h; cases h
    | cons l rest => rw [hp] at h; exact (mem_cutStop h).2

/-- the state after a leaf has been used up -/
theorem consumed_spec {pending : List (Leaf V)} (h : LeavesOK pending) (stop : Option Key) :
    let it : LeafIt V := { st := leafConsumed pending stop, pending := pending, start := none, stop := stop }
    LInv it ∧ it.stream = cutStop stop (flat pending) := by
  intro it
  cases pending with
  | nil => exact ⟨trivial, rfl⟩
  | cons l rest =>
    by_cases hb : beforeStop stop l.sep = true
    · have hst : it.st = .blocked := by simp [it, leafConsumed, hb]
      refine ⟨?_, ?_⟩
      · unfold LInv; rw [hst]; exact ⟨by simp [it], h⟩
      · unfold LeafIt.stream; rw [hst]; simp [it, skipStart, flat_cons]
    · have hb' : beforeStop stop l.sep = false := by simpa using hb
      have hst : it.st = .done := by simp [it, leafConsumed, hb']
      refine ⟨?_, ?_⟩
      · unfold LInv; rw [hst]; trivial
      · unfold LeafIt.stream; rw [hst]
        symm
        apply cutStop_nil_of_all
        intro e he
        exact beforeStop_false_of_ge hb' (flat_lower h e he)

theorem consumed_measure (pending : List (Leaf V)) (stop : Option Key) :
    ({ st := leafConsumed pending stop, pending := pending, start := none, stop := stop } : LeafIt V).measure =
      (pending.map (fun l => l.entries.length + 1)).sum := by
  unfold LeafIt.measure leafConsumed
  cases pending with
  | nil => rfl
  | cons l rest => cases hb : beforeStop stop l.sep <;> simp [hb]

/-! ### `peek_key` -/

theorem peek_none_stream {it : LeafIt V} (inv : LInv it) (h : it.peekKey = none) : it.stream = [] ∧ it.next = (it, none) := by
  unfold LeafIt.peekKey at h
  unfold LInv at inv
  unfold LeafIt.stream LeafIt.next
  cases hst : it.st with
  | done => exact ⟨rfl, rfl⟩
  | proceeding cur =>
    rw [hst] at inv h
    cases cur with
    | nil => exact absurd rfl inv.1
    | cons x xs => simp at h
  | blocked =>
    rw [hst] at inv h
    cases hp : it.pending with
    | nil => exact absurd hp inv.1
    | cons l rest => rw [hp] at h; simp at h

theorem peek_blocked {it : LeafIt V} (inv : LInv it) {lk : Key} (h : it.peekKey = some (lk, true)) :
    it.st = .blocked ∧ (∀ e ∈ it.stream, bitsLt e.1 lk = false) ∧ it.next = (it, some .blocked) := by
  unfold LeafIt.peekKey at h
  unfold LInv at inv
  cases hst : it.st with
  | done => rw [hst] at h; cases h
  | proceeding cur =>
    rw [hst] at h
    cases cur <;> simp at h
  | blocked =>
    rw [hst] at h inv
    refine ⟨rfl, ?_, ?_⟩
    · cases hp : it.pending with
      | nil => rw [hp] at h; simp at h
      | cons l rest =>
        rw [hp] at h inv
        simp only [List.head?_cons, Option.map_some, Option.some.injEq, Prod.mk.injEq, and_true] at h
        subst h
        intro e he
        unfold LeafIt.stream at he
        rw [hst, hp] at he
        simp only at he
        have hm := (mem_cutStop he).1
        apply flat_lower inv.2 e
        rw [flat_cons]
        rcases List.mem_append.1 hm with h1 | h1
        · exact List.mem_append_left _ ((skipStart_sublist _ _).subset h1)
        · exact List.mem_append_right _ h1
    · unfold LeafIt.next; rw [hst]

theorem peek_proceeding {it : LeafIt V} (inv : LInv it) {lk : Key} (h : it.peekKey = some (lk, false)) :
    ∃ x cur', it.st = .proceeding (x :: cur') ∧ x.1 = lk := by
  unfold LeafIt.peekKey at h
  cases hst : it.st with
  | done => rw [hst] at h; cases h
  | blocked =>
    rw [hst] at h
    cases hp : it.pending with
    | nil => rw [hp] at h; simp at h
    | cons l rest => rw [hp] at h; simp at h
  | proceeding cur =>
    rw [hst] at h
    cases cur with
    | nil => simp at h
    | cons x xs =>
      simp only [List.head?_cons, Option.map_some, Option.some.injEq, Prod.mk.injEq, and_true] at h
      exact ⟨x, xs, rfl, h⟩

/-! ### `provide_leaf` -/

/-- the state `provide_leaf` enters with the entries `cur` left of the provided leaf -/
def provideSt (cur : KVL V) (rest : List (Leaf V)) (stop : Option Key) : LeafSt V :=
  match cur with
  | [] => leafConsumed rest stop
  | _ => .proceeding cur

theorem provide_eq {it : LeafIt V} (hst : it.st = .blocked) {l : Leaf V} {rest : List (Leaf V)}
    (hp : it.pending = l :: rest) :
    it.provide = .ok { st := provideSt (skipStart it.start l.entries) rest it.stop, pending := rest,
                       start := none, stop := it.stop } := by
  unfold LeafIt.provide provideSt skipStart
  rw [hst, hp]
  cases it.start <;> rfl

theorem provide_spec {it : LeafIt V} (inv : LInv it) (hst : it.st = .blocked) :
    ∃ it', it.provide = .ok it' ∧ LInv it' ∧ it'.stream = it.stream ∧ it'.measure < it.measure ∧ it'.stop = it.stop := by
  unfold LInv at inv
  rw [hst] at inv
  obtain ⟨hne, hok⟩ := inv
  cases hp : it.pending with
  | nil => exact absurd hp hne
  | cons l rest =>
    rw [hp] at hok
    obtain ⟨h1, h2, h3, h4⟩ := hok
    have hmeasure : it.measure = (l.entries.length + 1) + (rest.map (fun l => l.entries.length + 1)).sum := by
      unfold LeafIt.measure; rw [hst, hp]; simp
    have hstream : it.stream = cutStop it.stop (skipStart it.start l.entries ++ flat rest) := by
      unfold LeafIt.stream; rw [hst, hp]
    have hsub : (skipStart it.start l.entries).Sublist l.entries := skipStart_sublist _ _
    refine ⟨_, provide_eq hst hp, ?_⟩
    cases hc : skipStart it.start l.entries with
    | nil =>
      rw [hc] at hstream
      obtain ⟨i1, i2⟩ := consumed_spec h4 it.stop
      refine ⟨i1, ?_, ?_, (by first | rfl | trivial)⟩
      · show LeafIt.stream { st := leafConsumed rest it.stop, pending := rest, start := none, stop := it.stop } = _
        rw [i2, hstream]; rfl
      · show LeafIt.measure { st := leafConsumed rest it.stop, pending := rest, start := none, stop := it.stop } < _
        rw [consumed_measure, hmeasure]; omega
    | cons x xs =>
      rw [hc] at hstream hsub
      refine ⟨?_, ?_, ?_, rfl⟩
      · show LInv { st := .proceeding (x :: xs), pending := rest, start := none, stop := it.stop }
        unfold LInv
        simp only
        refine ⟨by simp, List.Pairwise.sublist hsub h1, h4, ?_, (by first | rfl | trivial)⟩
        intro l' hl' e he
        exact (h3 l' hl').2 e (hsub.subset he)
      · show LeafIt.stream { st := .proceeding (x :: xs), pending := rest, start := none, stop := it.stop } = _
        rw [hstream]; rfl
      · show LeafIt.measure { st := .proceeding (x :: xs), pending := rest, start := none, stop := it.stop } < _
        rw [hmeasure]
        unfold LeafIt.measure
        simp only
        have := hsub.length_le
        omega

/-! ### `next` inside a leaf -/

theorem next_last {it : LeafIt V} {x : Key × V} (hst : it.st = .proceeding [x]) :
    it.next = if beforeStop it.stop x.1
      then ({ it with st := leafConsumed it.pending it.stop }, some (.item x.1 x.2))
      else ({ it with st := .done }, none) := by
  unfold LeafIt.next; rw [hst]

theorem next_more {it : LeafIt V} {x y : Key × V} {ys : KVL V} (hst : it.st = .proceeding (x :: y :: ys)) :
    it.next = if !beforeStop it.stop y.1
      then ({ it with st := .done }, if beforeStop it.stop x.1 then some (.item x.1 x.2) else none)
      else ({ it with st := .proceeding (y :: ys) }, some (.item x.1 x.2)) := by
  unfold LeafIt.next; rw [hst]

theorem next_proceeding {it : LeafIt V} (inv : LInv it) {x : Key × V} {cur' : KVL V}
    (hst : it.st = .proceeding (x :: cur')) :
    (beforeStop it.stop x.1 = false → it.stream = [] ∧ it.next.2 = none) ∧
    (beforeStop it.stop x.1 = true →
      it.stream = x :: it.next.1.stream ∧ it.next.2 = some (.item x.1 x.2) ∧ LInv it.next.1 ∧
      it.next.1.stop = it.stop ∧ it.next.1.measure < it.measure) := by
  unfold LInv at inv
  rw [hst] at inv
  obtain ⟨_, h2, h3, h4, hstart⟩ := inv
  have hstream : it.stream = cutStop it.stop (x :: (cur' ++ flat it.pending)) := by
    unfold LeafIt.stream; rw [hst]; rfl
  have hmeasure : it.measure = (cur'.length + 1) + (it.pending.map (fun l => l.entries.length + 1)).sum := by
    unfold LeafIt.measure; rw [hst]; simp
  obtain ⟨hx, hcs⟩ := ksorted_cons.1 h2
  refine ⟨fun hb => ?_, fun hb => ?_⟩
  · refine ⟨by rw [hstream, cutStop_cons, hb]; rfl, ?_⟩
    cases cur' with
    | nil => rw [next_last hst, hb]; rfl
    | cons y ys =>
      have hy : beforeStop it.stop y.1 = false := by
        cases hh : beforeStop it.stop y.1 with
        | false => rfl
        | true =>
          have := beforeStop_of_lt (hx y (List.mem_cons_self ..)) hh
          rw [this] at hb; cases hb
      rw [next_more hst, hy, hb]; rfl
  · rw [hstream, cutStop_cons, hb]
    simp only [if_true]
    cases cur' with
    | nil =>
      rw [next_last hst, hb]
      simp only [if_true, List.nil_append]
      obtain ⟨i1, i2⟩ := consumed_spec h3 it.stop
      have hrec : ({ it with st := leafConsumed it.pending it.stop } : LeafIt V) =
          { st := leafConsumed it.pending it.stop, pending := it.pending, start := none, stop := it.stop } := by
        rw [← hstart]
      rw [hrec]
      exact ⟨by rw [i2], (by first | rfl | trivial), i1, (by first | rfl | trivial), by rw [consumed_measure, hmeasure]; omega⟩
    | cons y ys =>
      rw [next_more hst]
      by_cases hy : beforeStop it.stop y.1 = true
      · rw [hy]
        simp only [Bool.not_true, Bool.false_eq_true, if_false]
        refine ⟨?_, (by first | rfl | trivial), ?_, (by first | rfl | trivial), ?_⟩
        · show _ = x :: LeafIt.stream { it with st := .proceeding (y :: ys) }
          simp [LeafIt.stream]
        · show LInv { it with st := .proceeding (y :: ys) }
          unfold LInv
          simp only
          exact ⟨by simp, hcs, h3, fun l' hl' e he => h4 l' hl' e (List.mem_cons_of_mem _ he), hstart⟩
        · show LeafIt.measure { it with st := .proceeding (y :: ys) } < _
          rw [hmeasure]; simp [LeafIt.measure]
      · have hy' : beforeStop it.stop y.1 = false := by simpa using hy
        rw [hy', hb]
        simp only [Bool.not_false, if_true]
        refine ⟨?_, (by first | rfl | trivial), ?_, (by first | rfl | trivial), ?_⟩
        · show _ = x :: LeafIt.stream { it with st := .done }
          simp only [LeafIt.stream, List.cons_append]
          rw [cutStop_cons, hy']; rfl
        · show LInv { it with st := .done }
          simp [LInv]
        · show LeafIt.measure { it with st := .done } < _
          rw [hmeasure]; simp [LeafIt.measure]

end Nomt.Ovl
