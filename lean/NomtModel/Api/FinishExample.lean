import NomtModel.Api.FinishLemmas
import NomtModel.Api.SplitExample
/-!
Instances (8-bit keys, term hasher, values = value hashes = `Nat`) shared by the non-vacuity examples and the
kernel-checked counterexamples of `Props/C06_Finish.lean`, `C02_Finish.lean`, `C01_Finish.lean`, `C09_Finish.lean`,
`C13_Finish.lean`.

Prior state: `00000000 ↦ 1`, `00000010 ↦ 2`, `11000000 ↦ 3` — the first two fork at bit 6, so `0000000` is a LEAF
terminal of depth 7 (a child page; exclusive to the worker owning root child 0) and `0000001` another one; `1` is a leaf
terminal of depth 1 in the root page.
-/
namespace Nomt.Finish.Ex
open Nomt Nomt.Api Nomt.Split Nomt.Dlt Nomt.Finish

def k00000000 : Key := [false, false, false, false, false, false, false, false]
def k00000001 : Key := [false, false, false, false, false, false, false, true]
def k00000010 : Key := [false, false, false, false, false, false, true, false]
def k00000011 : Key := [false, false, false, false, false, false, true, true]
def k10000000 : Key := [true, false, false, false, false, false, false, false]
def k11000000 : Key := [true, true, false, false, false, false, false, false]

def view : KVL Nat := [(k00000000, 1), (k00000010, 2), (k11000000, 3)]

def load : Key → Outcome Unit (Option Nat) := fun k => .ok (kvGet view k)

def P (n : Nat) (witness rollback : Bool) : Params :=
  { debug := true, superseded := false, witness := witness, rollback := rollback, n := n, order := List.range n }

/-- several keys under one terminal, all kinds: a write-back of the value read (`00000000`), an insert next to the leaf
(`00000001`), a read of an absent key and a delete of an absent key under the terminal `0000001`'s sibling …,
a `ReadThenWrite` delete in the root page -/
def mixed : Actuals Nat :=
  [ (k00000000, .rtw (some 1) (some 1)), (k00000001, .rtw none (some 7)), (k00000010, .read (some 2)),
    (k00000011, .write none), (k10000000, .read none), (k11000000, .rtw (some 3) none) ]

/-- the leaf of the terminal is written back, another key below the terminal receives the leaf's VALUE -/
def writeBackAndCopy : Actuals Nat :=
  [ (k00000000, .rtw (some 1) (some 1)), (k00000001, .rtw none (some 1)) ]

/-- the sought key is absent, the terminal's leaf is another key of the batch and is deleted -/
def deleteNotSought : Actuals Nat :=
  [ (k00000010, .rtw (some 2) none), (k00000011, .rtw none none) ]

def view2 : KVL Nat := [(k00000000, 1), (k00000011, 2), (k11000000, 3)]
def deleteNotSought2 : Actuals Nat :=
  [ (k00000010, .rtw none none), (k00000011, .rtw (some 2) none) ]

/-- only no-ops: write-back, blind write-back, delete of an absent key, a read -/
def noops : Actuals Nat :=
  [ (k00000000, .rtw (some 1) (some 1)), (k00000001, .write none), (k00000010, .write (some 2)), (k11000000, .read (some 3)) ]

def unsorted : Actuals Nat := [ (k00000001, .write (some 7)), (k00000000, .read (some 1)) ]
def duplicate : Actuals Nat := [ (k00000000, .read (some 1)), (k00000001, .write (some 7)), (k00000001, .write (some 8)) ]

def run (fast : Bool) (n : Nat) (witness rollback : Bool) (v : KVL Nat) (a : Actuals Nat) : Outcome FinErr (Out T Nat Nat) :=
  finish fast TH id 8 (P n witness rollback) (fun k => .ok (kvGet v k)) [] v a

def rootOf : Outcome FinErr (Out T Nat Nat) → Option T
  | .ok o => some o.root
  | _ => none

def specRoot (v : KVL Nat) (a : Actuals Nat) : T := nodeAt TH 8 0 (kvApply v (writesOf a))

/-- the witness groups in worker order as `(path, reads, writes)` -/
def witCanon (o : Out T Nat Nat) : Option (List (List Bool × List (Key × Option Nat) × List (Key × Option Nat))) :=
  o.witness.map fun (w : Assembled T Nat) => (Assembled.groups w).map fun (g : WPath T Nat) => (g.path, g.reads, g.writes)

def opsOf : Outcome FinErr (Out T Nat Nat) → Option (List (Op Nat))
  | .ok o => some o.ops
  | _ => none

/-- the batches as `(start, next, depth of the terminal, non_exclusive, has_writes)` -/
def batchesOf : Outcome FinErr (Out T Nat Nat) → Option (List (List (Nat × Nat × Nat × Bool × Bool)))
  | .ok o => some (o.bss.map fun (bs : List Batch) => bs.map fun (b : Batch) => (b.start, b.next, b.pos.length, b.nonExcl, b.hasWrites))
  | _ => none

/-- `has_writes` per batch and the walker steps -/
def hwAdv : Outcome FinErr (Out T Nat Nat) → Option (List (List Bool) × List (List Advance))
  | .ok o => some (o.bss.map fun (bs : List Batch) => bs.map fun (b : Batch) => b.hasWrites, o.advances)
  | _ => none

def witOf : Outcome FinErr (Out T Nat Nat) → Option (List (List Bool × List (Key × Option Nat) × List (Key × Option Nat)))
  | .ok o => witCanon o
  | _ => none

def deltaOf : Outcome FinErr (Out T Nat Nat) → Option (Option (PMap Nat))
  | .ok o => some o.delta
  | _ => none

def changesOf : Outcome FinErr (Out T Nat Nat) → Option (Writes Nat)
  | .ok o => some o.changes
  | _ => none

end Nomt.Finish.Ex
