import NomtModel.Api.Locks2
/-!
Invariants of the two-lock LTS (`Api/Locks2.lean`), for every interleaving of the code's calls:

* `typed`: every thread's continuation obeys the lock discipline `wf` *relative to the global lock state*
  (it holds M iff its continuation says so, it is in the write-guard state its continuation expects);
* `excl`: while the write guard is held no session is live;
* `snap`: every live session started from the current committed content and root.
-/
namespace Nomt.Locks2
variable {C R W D : Type} [DecidableEq R] (ops : DbOps C R W D)

/-- the write-guard state of a thread, read off the global state -/
def wsOf (s : S C R W D) (t : Tid) : WS :=
  if s.wbit = some t then (if s.wown then .own else .bit)
  else if (s.thr t).op.isSome then .pre else .none

structure Inv1 (s : S C R W D) : Prop where
  typed : ∀ t, wf (s.m == some t) (wsOf s t) (s.thr t).prog = true
  wown_bit : s.wown = true → s.wbit.isSome
  excl : s.wown = true → s.readers = []
  snap : ∀ x ∈ s.readers, x.content = s.db.content ∧ x.root = s.db.root ∧
    (x.prev = none ∨ x.prev = some x.root)

theorem inv1_init (db : Db C R D) : Inv1 (init db : S C R W D) := by
  refine ⟨?_, ?_, ?_, ?_⟩ <;> simp [init, wsOf, wf]

def Event.isCode : Event R W D → Bool
  | .call _ c => c.isCode
  | .step _ => true
  | .spur _ _ => true

/-- effects of a micro-step that is not a lock operation leave the committed state alone unless the thread
holds the write guard -/
theorem eff_db_of_not_own (i : Instr R W D) (rest : List (Instr R W D)) (hm : Bool) (ws : WS)
    (hws : ws ≠ .own) (h : wf hm ws (i :: rest) = true) (rg : Regs C R D) (db : Db C R D) :
    (∀ rg' db', eff ops i rg db = .cont rg' db' → db' = db) ∧
    (∀ r db', eff ops i rg db = .stop r db' → db' = db) := by
  cases ws <;> simp at hws <;> cases i <;> simp [wf] at h <;> simp [eff] <;>
    (try (constructor <;> intros <;> (repeat' (split at *)) <;> simp_all))

end Nomt.Locks2

namespace Nomt.Locks2
variable {C R W D : Type} [DecidableEq R] (ops : DbOps C R W D)

/-- what a step of `t` may do to the lock words and threads, as far as the typing of the OTHER threads is
concerned -/
structure Frame (t : Tid) (s s' : S C R W D) : Prop where
  m : ∀ u, u ≠ t → (s'.m == some u) = (s.m == some u)
  ws : ∀ u, u ≠ t → wsOf s' u = wsOf s u
  thr : ∀ u, u ≠ t → s'.thr u = s.thr u

theorem typed_others {t : Tid} {s s' : S C R W D} (hf : Frame t s s') (h : Inv1 s) :
    ∀ u, u ≠ t → wf (s'.m == some u) (wsOf s' u) (s'.thr u).prog = true := by
  intro u hu
  rw [hf.m u hu, hf.ws u hu, hf.thr u hu]; exact h.typed u

theorem frame_abort (s : S C R W D) (t : Tid) (r : Res) : Frame t s (abort s t r) := by
  refine ⟨?_, ?_, ?_⟩
  · intro u hu
    have hu' : ¬ t = u := fun e => hu e.symm
    simp only [abort]
    by_cases hm : s.m = some t <;> simp [hm, hu']
  · intro u hu
    have hu' : ¬ t = u := fun e => hu e.symm
    simp only [abort, wsOf, upd_other _ _ _ _ hu]
    by_cases hw : s.wbit = some t <;> simp [hw, hu']
  · intro u hu; simp [abort, upd_other _ _ _ _ hu]

theorem typed_abort_self (s : S C R W D) (t : Tid) (r : Res) :
    wf ((abort s t r).m == some t) (wsOf (abort s t r) t) ((abort s t r).thr t).prog = true := by
  have h1 : ((abort s t r).m == some t) = false := by
    simp only [abort]
    by_cases hm : s.m = some t <;> simp [hm]
  have h2 : wsOf (abort s t r) t = .none := by
    simp only [abort, wsOf, upd_same]
    by_cases hw : s.wbit = some t <;> simp [hw]
  rw [h1, h2]; simp [abort, wf]

end Nomt.Locks2

namespace Nomt.Locks2
variable {C R W D : Type} [DecidableEq R] (ops : DbOps C R W D)

theorem frame_same {t : Tid} {s s' : S C R W D} (h1 : s'.m = s.m) (h2 : s'.wbit = s.wbit)
    (h3 : s'.wown = s.wown) (h4 : ∀ u, u ≠ t → s'.thr u = s.thr u) : Frame t s s' := by
  refine ⟨fun u _ => by rw [h1], fun u hu => ?_, h4⟩
  simp only [wsOf, h2, h3, h4 u hu]

@[simp] theorem upd_upd {α : Type} (f : Tid → α) (t : Tid) (x y : α) : upd (upd f t x) t y = upd f t y := by
  funext u; by_cases h : u = t <;> simp [upd, h]

/-- micro-steps whose whole effect is `eff` -/
def Instr.isEff : Instr R W D → Bool
  | .aRead _ | .aReadUnlock _ | .aWrite1 | .aWrite2 | .aTryWrite | .aWriteUnlock _ | .mLock | .mUnlock
  | .sessRoot _ | .sessBase _ _ | .finChk _ | .ret _ => false
  | _ => true

theorem exec_isEff (s : S C R W D) (t : Tid) (i : Instr R W D) (rest : List (Instr R W D))
    (hi : i.isEff = true) :
    exec ops s t i rest =
      match eff ops i (s.thr t).regs s.db with
      | .cont rg db =>
        ({ s with db := db, thr := upd s.thr t { (s.thr t) with regs := rg, prog := rest } }, .ran)
      | .stop r db =>
        if s.wbit == some t && s.wown then
          ({ s with db := db, thr := upd s.thr t { (s.thr t) with prog := unwind (s.m == some t) r } }, .ran)
        else (abort { s with db := db } t r, .finished r) := by
  cases i <;> simp [Instr.isEff] at hi <;> simp only [exec] <;> split <;> simp_all [upd]

/-- the unwinding path obeys the lock discipline -/
theorem wf_unwind (hm : Bool) (r : Res) : wf hm .own (unwind hm r : List (Instr R W D)) = true := by
  cases hm <;> simp [unwind, wf]

theorem wf_tail_of_isEff (i : Instr R W D) (rest : List (Instr R W D)) (hm : Bool) (ws : WS)
    (hi : i.isEff = true) (h : wf hm ws (i :: rest) = true) : wf hm ws rest = true := by
  cases ws <;> cases i <;> simp [Instr.isEff] at hi <;> simp [wf] at h ⊢ <;>
    (try (obtain ⟨rfl, h⟩ := h; exact h)) <;> (try exact h.2) <;> (try exact h)

end Nomt.Locks2

namespace Nomt.Locks2
variable {C R W D : Type} [DecidableEq R] (ops : DbOps C R W D)

theorem wsOf_own_iff (s : S C R W D) (t : Tid) : wsOf s t = .own ↔ s.wbit = some t ∧ s.wown = true := by
  unfold wsOf
  by_cases h1 : s.wbit = some t <;> by_cases h2 : s.wown = true <;> simp [h1, h2]
  all_goals (split <;> simp)

theorem wsOf_bit_iff (s : S C R W D) (t : Tid) : wsOf s t = .bit ↔ s.wbit = some t ∧ s.wown = false := by
  unfold wsOf
  by_cases h1 : s.wbit = some t <;> by_cases h2 : s.wown = true <;> simp [h1, h2]
  all_goals (split <;> simp)

/-- `abort` keeps the invariants that do not concern typing -/
theorem inv1_abort (s : S C R W D) (t : Tid) (r : Res) (h : Inv1 s) : Inv1 (abort s t r) := by
  refine ⟨?_, ?_, ?_, ?_⟩
  · intro u
    by_cases hu : u = t
    · subst hu; exact typed_abort_self s u r
    · exact typed_others (frame_abort s t r) h u hu
  · intro hw
    simp only [abort] at hw ⊢
    by_cases ho : s.wbit = some t <;> simp [ho] at hw ⊢
    exact h.wown_bit hw
  · intro hw
    simp only [abort] at hw ⊢
    by_cases ho : s.wbit = some t <;> simp [ho] at hw
    exact h.excl hw
  · exact h.snap

/-- a step that only changes the committed state (and `t`'s registers / continuation) -/
theorem inv1_eff (s : S C R W D) (t : Tid) (i : Instr R W D) (rest : List (Instr R W D)) (h : Inv1 s)
    (hp : (s.thr t).prog = i :: rest) (hi : i.isEff = true) : Inv1 (exec ops s t i rest).1 := by
  have ht := h.typed t
  rw [hp] at ht
  have htail := wf_tail_of_isEff i rest _ _ hi ht
  -- the committed state only changes under the write guard, i.e. without sessions
  have hdb : ∀ db', (∃ rg', eff ops i (s.thr t).regs s.db = .cont rg' db') ∨
      (∃ r, eff ops i (s.thr t).regs s.db = .stop r db') →
      ∀ x ∈ s.readers, x.content = db'.content ∧ x.root = db'.root ∧ (x.prev = none ∨ x.prev = some x.root) := by
    intro db' hdb' x hx
    by_cases hown : wsOf s t = .own
    · have := h.excl ((wsOf_own_iff s t).1 hown).2
      rw [this] at hx; cases hx
    · obtain ⟨h1, h2⟩ := eff_db_of_not_own ops i rest _ _ hown ht (s.thr t).regs s.db
      have : db' = s.db := by
        rcases hdb' with ⟨rg', e⟩ | ⟨r, e⟩
        · exact h1 _ _ e
        · exact h2 _ _ e
      rw [this]; exact h.snap x hx
  rw [exec_isEff ops s t i rest hi]
  cases he : eff ops i (s.thr t).regs s.db with
  | cont rg db =>
    simp only
    have hfr : Frame t s { s with db := db, thr := upd s.thr t { (s.thr t) with regs := rg, prog := rest } } :=
      frame_same rfl rfl rfl (fun u hu => by simp [upd_other _ _ _ _ hu])
    refine ⟨?_, h.wown_bit, h.excl, hdb db (Or.inl ⟨rg, he⟩)⟩
    intro u
    by_cases hu : u = t
    · subst hu
      simpa [wsOf] using htail
    · exact typed_others hfr h u hu
  | stop r db =>
    simp only
    split
    · rename_i hown
      simp only [Bool.and_eq_true, beq_iff_eq] at hown
      have hws : wsOf s t = .own := (wsOf_own_iff s t).2 hown
      have hfr : Frame t s { s with db := db, thr := upd s.thr t { (s.thr t) with prog := unwind (s.m == some t) r } } :=
        frame_same rfl rfl rfl (fun u hu => by simp [upd_other _ _ _ _ hu])
      refine ⟨?_, h.wown_bit, h.excl, hdb db (Or.inr ⟨r, he⟩)⟩
      intro u
      by_cases hu : u = t
      · subst hu
        have : wsOf { s with db := db, thr := upd s.thr u { (s.thr u) with prog := unwind (s.m == some u) r } } u = .own := by
          simpa [wsOf] using hws
        rw [this]; simp only [upd_same]; exact wf_unwind _ r
      · exact typed_others hfr h u hu
    · apply inv1_abort
      exact ⟨h.typed, h.wown_bit, h.excl, hdb db (Or.inr ⟨r, he⟩)⟩

end Nomt.Locks2

namespace Nomt.Locks2
variable {C R W D : Type} [DecidableEq R] (ops : DbOps C R W D)

theorem wf_not_bit (hm : Bool) (ws : WS) (i : Instr R W D) (rest : List (Instr R W D)) (h : ws ≠ .bit) :
    wf hm ws (i :: rest) = (match i with
      | .aRead _ => !hm && ws == .none && noABlock rest && wf hm ws rest
      | .aReadUnlock _ => !hm && wf hm ws rest
      | .aWrite1 => !hm && ws == .pre && wf false .bit rest
      | .aWrite2 => false
      | .aTryWrite => !hm && ws == .pre && wf false .own rest
      | .aWriteUnlock _ => !hm && ws == .own && wf false .none rest
      | .mLock => !hm && wf true ws rest
      | .mUnlock => hm && wf false ws rest
      | .sessRoot _ => hm && ws == .none && wf hm ws rest
      | .sessBase _ _ => hm && ws == .none && wf hm ws rest
      | .finChk _ => !hm && ws == .none && wf hm ws rest
      | .readRoot => hm && ws != .pre && wf hm ws rest
      | .sessRead _ => ws == .none && wf hm ws rest
      | .chkMarker _ => hm && wf hm ws rest
      | .chkPoison => ws == .own && wf hm ws rest
      | .chkRoot _ => hm && ws == .own && wf hm ws rest
      | .chkSeen => hm && ws == .own && wf hm ws rest
      | .pubRoot _ _ => hm && ws == .own && wf hm ws rest
      | .pubRb => hm && ws == .own && wf hm ws rest
      | .logPush _ _ => ws == .own && wf hm ws rest
      | .logPop _ => ws == .own && wf hm ws rest
      | .store _ _ => ws == .own && wf hm ws rest
      | .storeRb _ => ws == .own && wf hm ws rest
      | .ret _ => !hm && ws == .none && rest.isEmpty) := by
  cases ws <;> first | exact absurd rfl h | (cases i <;> simp [wf])

/-- one micro-step of the code keeps the invariant -/
theorem inv1_exec (s : S C R W D) (t : Tid) (i : Instr R W D) (rest : List (Instr R W D)) (h : Inv1 s)
    (hp : (s.thr t).prog = i :: rest) : Inv1 (exec ops s t i rest).1 := by
  by_cases hi : i.isEff = true
  · exact inv1_eff ops s t i rest h hp hi
  have ht := h.typed t
  rw [hp] at ht
  cases i with
  | aRead sid =>
    simp only [exec]
    split
    · exact h
    · rename_i hwb
      have hwb' : s.wbit = none := by simpa using hwb
      have hws : wsOf s t ≠ .bit := by rw [Ne, wsOf_bit_iff]; simp [hwb']
      rw [wf_not_bit _ _ _ _ hws] at ht
      simp only [Bool.and_eq_true] at ht
      refine ⟨?_, h.wown_bit, ?_, ?_⟩
      · intro u
        by_cases hu : u = t
        · subst hu; simpa [wsOf] using ht.2
        · refine typed_others ?_ h u hu
          exact frame_same rfl rfl rfl (fun u hu => by simp [upd_other _ _ _ _ hu])
      · intro hw; have := h.wown_bit hw; simp [hwb'] at this
      · intro x hx
        simp only [List.mem_cons] at hx
        rcases hx with rfl | hx
        · simp
        · exact h.snap x hx
  | aReadUnlock sid =>
    simp only [exec]
    by_cases hws : wsOf s t = .bit
    · rw [hws] at ht; simp [wf] at ht
    rw [wf_not_bit _ _ _ _ hws] at ht
    simp only [Bool.and_eq_true] at ht
    refine ⟨?_, h.wown_bit, ?_, ?_⟩
    · intro u
      by_cases hu : u = t
      · subst hu; simpa [wsOf] using ht.2
      · refine typed_others ?_ h u hu
        exact frame_same rfl rfl rfl (fun u hu => by simp [upd_other _ _ _ _ hu])
    · intro hw; simp [h.excl hw]
    · intro x hx; exact h.snap x (List.mem_filter.1 hx).1
  | aWrite1 =>
    simp only [exec]
    split
    · exact h
    · rename_i hwb
      have hwb' : s.wbit = none := by simpa using hwb
      have hws : wsOf s t ≠ .bit := by rw [Ne, wsOf_bit_iff]; simp [hwb']
      rw [wf_not_bit _ _ _ _ hws] at ht
      simp only [Bool.and_eq_true] at ht
      have hnw : s.wown = false := by
        cases hw : s.wown with
        | false => rfl
        | true => have := h.wown_bit hw; simp [hwb'] at this
      have hmf : (s.m == some t) = false := by simpa using ht.1.1
      refine ⟨?_, ?_, ?_, h.snap⟩
      · intro u
        by_cases hu : u = t
        · subst hu
          simpa [wsOf, hnw, hmf] using ht.2
        · refine typed_others ?_ h u hu
          refine ⟨fun _ _ => rfl, ?_, fun u hu => by simp [upd_other _ _ _ _ hu]⟩
          intro u hu
          have hu' : ¬ t = u := fun e => hu e.symm
          simp [wsOf, hwb', hu', upd_other _ _ _ _ hu]
      · intro _; simp
      · intro hw; simp [hnw] at hw
  | aWrite2 =>
    simp only [exec]
    split
    · exact h
    · rename_i hrd
      have hrd' : s.readers = [] := by simpa using hrd
      have hws : wsOf s t = .bit := by
        by_cases hb : wsOf s t = .bit
        · exact hb
        · rw [wf_not_bit _ _ _ _ hb] at ht; simp at ht
      rw [hws] at ht
      simp only [wf, if_true, beq_self_eq_true, Bool.and_eq_true] at ht
      obtain ⟨hwb, hnw⟩ := (wsOf_bit_iff s t).1 hws
      have hmf : (s.m == some t) = false := by simpa using ht.1
      refine ⟨?_, ?_, ?_, ?_⟩
      · intro u
        by_cases hu : u = t
        · subst hu
          simpa [wsOf, hwb, hmf] using ht.2
        · refine typed_others ?_ h u hu
          refine ⟨fun _ _ => rfl, ?_, fun u hu => by simp [upd_other _ _ _ _ hu]⟩
          intro u hu
          have hu' : ¬ t = u := fun e => hu e.symm
          simp [wsOf, hwb, hu', upd_other _ _ _ _ hu]
      · intro _; simp [hwb]
      · intro _; exact hrd'
      · intro x hx; simp [hrd'] at hx
  | aTryWrite =>
    simp only [exec]
    split
    · exact inv1_abort s t .busy h
    · rename_i hc
      simp only [Bool.or_eq_true, not_or, Bool.not_eq_true', Bool.not_eq_true, Option.isSome_eq_false_iff,
        Option.isNone_iff_eq_none, Bool.not_eq_false] at hc
      obtain ⟨hwb', hrd⟩ := hc
      have hrd' : s.readers = [] := by simpa using hrd
      have hws : wsOf s t ≠ .bit := by rw [Ne, wsOf_bit_iff]; simp [hwb']
      rw [wf_not_bit _ _ _ _ hws] at ht
      simp only [Bool.and_eq_true] at ht
      have hmf : (s.m == some t) = false := by simpa using ht.1.1
      refine ⟨?_, ?_, ?_, ?_⟩
      · intro u
        by_cases hu : u = t
        · subst hu
          simpa [wsOf, hmf] using ht.2
        · refine typed_others ?_ h u hu
          refine ⟨fun _ _ => rfl, ?_, fun u hu => by simp [upd_other _ _ _ _ hu]⟩
          intro u hu
          have hu' : ¬ t = u := fun e => hu e.symm
          simp [wsOf, hwb', hu', upd_other _ _ _ _ hu]
      · intro _; simp
      · intro _; exact hrd'
      · intro x hx; simp [hrd'] at hx
  | aWriteUnlock rv =>
    simp only [exec]
    by_cases hws : wsOf s t = .bit
    · rw [hws] at ht; simp [wf] at ht
    rw [wf_not_bit _ _ _ _ hws] at ht
    simp only [Bool.and_eq_true, beq_iff_eq] at ht
    obtain ⟨hwb, hw⟩ := (wsOf_own_iff s t).1 ht.1.2
    have hmf : (s.m == some t) = false := by simpa using ht.1.1
    refine ⟨?_, ?_, ?_, h.snap⟩
    · intro u
      by_cases hu : u = t
      · subst hu
        simpa [wsOf, hmf] using ht.2
      · refine typed_others ?_ h u hu
        refine ⟨fun _ _ => rfl, ?_, fun u hu => by simp [upd_other _ _ _ _ hu]⟩
        intro u hu
        have hu' : ¬ t = u := fun e => hu e.symm
        simp [wsOf, hwb, hu', upd_other _ _ _ _ hu]
    · intro hw'; simp at hw'
    · intro hw'; simp at hw'
  | mLock =>
    simp only [exec]
    split
    · exact h
    · rename_i hmn
      have hmn' : s.m = none := by simpa using hmn
      by_cases hws : wsOf s t = .bit
      · rw [hws] at ht; simp [wf] at ht
      rw [wf_not_bit _ _ _ _ hws] at ht
      simp only [Bool.and_eq_true] at ht
      refine ⟨?_, h.wown_bit, h.excl, h.snap⟩
      · intro u
        by_cases hu : u = t
        · subst hu
          simpa [wsOf] using ht.2
        · refine typed_others ?_ h u hu
          refine ⟨?_, ?_, fun u hu => by simp [upd_other _ _ _ _ hu]⟩
          · intro u hu
            have hu' : ¬ t = u := fun e => hu e.symm
            simp [hmn', hu']
          · intro u hu; simp [wsOf, upd_other _ _ _ _ hu]
  | mUnlock =>
    simp only [exec]
    by_cases hws : wsOf s t = .bit
    · rw [hws] at ht; simp [wf] at ht
    rw [wf_not_bit _ _ _ _ hws] at ht
    simp only [Bool.and_eq_true, beq_iff_eq] at ht
    have hmt : s.m = some t := ht.1
    refine ⟨?_, h.wown_bit, h.excl, h.snap⟩
    · intro u
      by_cases hu : u = t
      · subst hu
        simpa [wsOf] using ht.2
      · refine typed_others ?_ h u hu
        refine ⟨?_, ?_, fun u hu => by simp [upd_other _ _ _ _ hu]⟩
        · intro u hu
          have hu' : ¬ t = u := fun e => hu e.symm
          simp [hmt, hu']
        · intro u hu; simp [wsOf, upd_other _ _ _ _ hu]
  | sessRoot sid =>
    simp only [exec]
    by_cases hws : wsOf s t = .bit
    · rw [hws] at ht; simp [wf] at ht
    rw [wf_not_bit _ _ _ _ hws] at ht
    simp only [Bool.and_eq_true] at ht
    refine ⟨?_, h.wown_bit, ?_, ?_⟩
    · intro u
      by_cases hu : u = t
      · subst hu; simpa [wsOf] using ht.2
      · refine typed_others ?_ h u hu
        exact frame_same rfl rfl rfl (fun u hu => by simp [upd_other _ _ _ _ hu])
    · intro hw; simp [h.excl hw]
    · intro x hx
      simp only [List.mem_map] at hx
      obtain ⟨y, hy, rfl⟩ := hx
      obtain ⟨h1, h2, h3⟩ := h.snap y hy
      split
      · exact ⟨h1, h2, Or.inr (by simp [h2])⟩
      · exact ⟨h1, h2, h3⟩
  | sessBase sid b =>
    simp only [exec]
    by_cases hws : wsOf s t = .bit
    · rw [hws] at ht; simp [wf] at ht
    rw [wf_not_bit _ _ _ _ hws] at ht
    simp only [Bool.and_eq_true] at ht
    refine ⟨?_, h.wown_bit, ?_, ?_⟩
    · intro u
      by_cases hu : u = t
      · subst hu; simpa [wsOf] using ht.2
      · refine typed_others ?_ h u hu
        exact frame_same rfl rfl rfl (fun u hu => by simp [upd_other _ _ _ _ hu])
    · intro hw; simp [h.excl hw]
    · intro x hx
      simp only [List.mem_map] at hx
      obtain ⟨y, hy, rfl⟩ := hx
      obtain ⟨h1, h2, h3⟩ := h.snap y hy
      split
      · exact ⟨h1, h2, h3⟩
      · exact ⟨h1, h2, h3⟩
  | finChk sid =>
    simp only [exec]
    by_cases hws : wsOf s t = .bit
    · rw [hws] at ht; simp [wf] at ht
    rw [wf_not_bit _ _ _ _ hws] at ht
    simp only [Bool.and_eq_true, beq_iff_eq] at ht
    have hmf : (s.m == some t) = false := by simpa using ht.1.1
    have hwn : wsOf s t = .none := ht.1.2
    split
    · refine ⟨?_, h.wown_bit, h.excl, h.snap⟩
      intro u
      by_cases hu : u = t
      · subst hu
        have : wsOf { s with thr := upd s.thr u { (s.thr u) with prog := [.aReadUnlock sid, .ret .errSuperseded] } } u = wsOf s u := by
          simp [wsOf]
        simp only [this, upd_same, hwn]; rw [hmf]; simp [wf]
      · refine typed_others ?_ h u hu
        exact frame_same rfl rfl rfl (fun u hu => by simp [upd_other _ _ _ _ hu])
    · refine ⟨?_, h.wown_bit, h.excl, h.snap⟩
      intro u
      by_cases hu : u = t
      · subst hu; simpa [wsOf] using ht.2
      · refine typed_others ?_ h u hu
        exact frame_same rfl rfl rfl (fun u hu => by simp [upd_other _ _ _ _ hu])
  | ret r =>
    simp only [exec]
    by_cases hws : wsOf s t = .bit
    · rw [hws] at ht; simp [wf] at ht
    rw [wf_not_bit _ _ _ _ hws] at ht
    simp only [Bool.and_eq_true, beq_iff_eq] at ht
    refine ⟨?_, h.wown_bit, h.excl, h.snap⟩
    intro u
    by_cases hu : u = t
    · subst hu
      have hmf : (s.m == some u) = false := by simpa using ht.1.1
      have hwn := ht.1.2
      have hwn' : wsOf s u = .none := hwn
      have : wsOf { s with thr := upd s.thr u { (s.thr u) with prog := [], res := some r } } u = wsOf s u := by
        simp [wsOf]
      simp only [this, upd_same, hwn']; rw [hmf]; rfl
    · refine typed_others ?_ h u hu
      exact frame_same rfl rfl rfl (fun u hu => by simp [upd_other _ _ _ _ hu])
  | _ => simp [Instr.isEff] at hi

end Nomt.Locks2

namespace Nomt.Locks2
variable {C R W D : Type} [DecidableEq R] (ops : DbOps C R W D)

/-- an idle thread holds neither M nor any part of the write lock, and has no pending write section -/
theorem idle_facts (s : S C R W D) (t : Tid) (h : Inv1 s) (hp : (s.thr t).prog = []) :
    s.m ≠ some t ∧ s.wbit ≠ some t ∧ (s.thr t).op = none := by
  have ht := h.typed t
  rw [hp] at ht
  simp only [wf, Bool.and_eq_true, Bool.not_eq_true', beq_eq_false_iff_ne, ne_eq, beq_iff_eq] at ht
  refine ⟨ht.1, ?_, ?_⟩
  · intro hw
    have := ht.2
    simp only [wsOf, hw, if_true] at this
    split at this <;> cases this
  · have := ht.2
    unfold wsOf at this
    split at this
    · split at this <;> cases this
    · split at this
      · cases this
      · rename_i h2; simpa using h2

theorem inv1_next (s : S C R W D) (e : Event R W D) (he : e.isCode = true) (h : Inv1 s) :
    Inv1 (next ops s e).1 := by
  cases e with
  | call t c =>
    simp only [next]
    split
    · rename_i hidle
      have hp : (s.thr t).prog = [] := by simpa using hidle
      obtain ⟨hm, hw, hop⟩ := idle_facts s t h hp
      refine ⟨?_, h.wown_bit, h.excl, h.snap⟩
      intro u
      by_cases hu : u = t
      · subst hu
        have hmf : (s.m == some u) = false := by simpa using hm
        have := wf_progOf c (by simpa [Event.isCode] using he)
        simpa [wsOf, hw, hmf] using this
      · refine typed_others ?_ h u hu
        exact frame_same rfl rfl rfl (fun u hu => by simp [upd_other _ _ _ _ hu])
    · exact h
  | step t =>
    simp only [next]
    split
    · exact h
    · rename_i i rest hp
      exact inv1_exec ops s t i rest h hp
  | spur t u =>
    simp only [next]
    split
    · split
      · exact inv1_abort s t .busy h
      · exact h
    · exact h

theorem inv1_run (evs : List (Event R W D)) (s : S C R W D) (he : ∀ e ∈ evs, e.isCode = true) (h : Inv1 s) :
    Inv1 (run ops s evs) := by
  induction evs generalizing s with
  | nil => exact h
  | cons e rest ih =>
    exact ih _ (fun e' he' => he e' (List.mem_cons_of_mem _ he')) (inv1_next ops s e (he e (by simp)) h)

end Nomt.Locks2
