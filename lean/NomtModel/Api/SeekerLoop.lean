import NomtModel.Api.Split
/-!
# Mirror of the driving loop of `RangeUpdater::update` (`nomt/src/merkle/worker.rs`): pushes, skips, warm-ups, back-pressure

`RangeUpdater::update` feeds the keys of its range to the seeker (`seeker.push`, while `has_room()`), or — for a key the
warm-up already sought — puts the warmed-up `Seek` into the queue `warmed_up`; completions are taken from whichever of
the two queues holds the smaller key (`warmed_up.front().key < seeker.first_key()`), handed to `handle_completion(start_index,
seek_result)` unless they are covered by the last terminal (`skips`), and the loop blocks on the I/O (`recv_page`) when the
seeker is full.  `Api/Split.lean` (`workerLoop`) models this loop "seen through its completions": this file mirrors the loop
itself, over an abstract seeker (`Iface`: the nine methods the loop calls), so that the claim "the pipelining only decides
WHEN a completion is handled" becomes a statement (`Props/C13_Seeker.lean`).

`mutant = true` is the seeded change `C13-warmup-skip-drops-warm-entry` (`Some(k) => skips > 0 || &res.key < k`).
A `none` is a panic site: `read_write[next_push]`, `min(pushes, batch_size) - 1` with 0, the fuel.
-/
namespace Nomt.SeekerLoop
open Nomt

/-- what `RangeUpdater::update` uses of a `Seeker` -/
structure Iface (σ Res : Type) where
  isEmpty : σ → Bool
  hasRoom : σ → Bool
  firstKey : σ → Option Key
  hasLive : σ → Bool
  submitAll : σ → σ
  take : σ → σ × Option (Key × Res)
  recv : σ → σ
  tryRecv : σ → σ
  push : σ → Key → σ

structure LSt (σ Res : Type) where
  start : Nat
  pushes : Nat := 0
  skips : Nat := 0
  warmed : List (Key × Res) := []
  sk : σ
  /-- the calls `handle_completion(start_index, seek_result)` so far -/
  calls : List (Nat × Key × Res) := []

variable {σ Res : Type}

/-- `while seeker.has_room() && start_index + pushes < self.range_end { … }` -/
def pushLoop (I : Iface σ Res) (keys : List Key) (re : Nat) (warm : Key → Option Res) :
    Nat → LSt σ Res → Option (LSt σ Res)
  | 0, _ => none
  | f + 1, s =>
    if I.hasRoom s.sk && decide (s.start + s.pushes < re) then
      match keys[s.start + s.pushes]? with
      | none => none
      | some k =>
        let s := { s with pushes := s.pushes + 1 }
        match warm k with
        | some r =>
          let s := { s with warmed := s.warmed ++ [(k, r)] }
          if s.warmed.length ≥ 512 then some s else pushLoop I keys re warm f s
        | none => pushLoop I keys re warm f { s with sk := I.submitAll (I.push s.sk k) }
    else some s

/-- the loop `while start_index < self.range_end || !seeker.is_empty()`; `next start result` = the end index
`handle_completion` returns -/
def updLoop (I : Iface σ Res) (keys : List Key) (re : Nat) (warm : Key → Option Res) (next : Nat → Key × Res → Nat)
    (mutant : Bool) : Nat → LSt σ Res → Option (LSt σ Res)
  | 0, _ => none
  | f + 1, s =>
    if decide (s.start < re) || !I.isEmpty s.sk then
      let useWarm : Bool := match s.warmed.head? with
        | none => false
        | some (wk, _) =>
          match I.firstKey s.sk with
          | none => true
          | some k => (mutant && decide (s.skips > 0)) || bitsLt wk k
      let sc : LSt σ Res × Option (Key × Res) :=
        if useWarm then ({ s with warmed := s.warmed.tail }, s.warmed.head?)
        else ({ s with sk := (I.take s.sk).1 }, (I.take s.sk).2)
      let so : Option (LSt σ Res) := match sc.2 with
        | none => some sc.1
        | some c =>
          if sc.1.skips > 0 then some { sc.1 with skips := sc.1.skips - 1 }
          else
            let e := next sc.1.start c
            let b := e - sc.1.start
            if min sc.1.pushes b = 0 then none
            else some { sc.1 with calls := sc.1.calls ++ [(sc.1.start, c)], skips := min sc.1.pushes b - 1,
                                  pushes := sc.1.pushes - b, start := e }
      match so with
      | none => none
      | some s =>
        let s := { s with sk := I.submitAll s.sk }
        if !I.hasRoom s.sk && I.hasLive s.sk then updLoop I keys re warm next mutant f { s with sk := I.recv s.sk }
        else
          match pushLoop I keys re warm (re + 1) s with
          | none => none
          | some s => updLoop I keys re warm next mutant f { s with sk := I.tryRecv s.sk }
    else some s

/-! ### a seeker that is nothing but its specification (`T5_seeker_push_order`): a FIFO of requests, each completing
after a number of I/O completions; `recv` serves the LAST waiting request first (completions out of order) -/

structure Toy (Res : Type) where
  q : List (Key × Res × Nat) := []
  room : Nat
  lat : Key → Nat
  spec : Key → Res

def decLast {Res : Type} : List (Key × Res × Nat) → List (Key × Res × Nat) × Bool
  | [] => ([], false)
  | x :: xs =>
    let (ys, done) := decLast xs
    if done then (x :: ys, true)
    else if x.2.2 > 0 then ((x.1, x.2.1, x.2.2 - 1) :: ys, true) else (x :: ys, false)

def toyIface (Res : Type) : Iface (Toy Res) Res where
  isEmpty t := t.q.isEmpty
  hasRoom t := decide ((t.q.filter (fun x => x.2.2 > 0)).length < t.room)
  firstKey t := t.q.head?.map (·.1)
  hasLive t := t.q.any (fun x => x.2.2 > 0)
  submitAll t := t
  take t := match t.q with
    | (k, r, 0) :: rest => ({ t with q := rest }, some (k, r))
    | _ => (t, none)
  recv t := { t with q := (decLast t.q).1 }
  tryRecv t := { t with q := (decLast t.q).1 }
  push t k := { t with q := t.q ++ [(k, t.spec k, t.lat k)] }

end Nomt.SeekerLoop
