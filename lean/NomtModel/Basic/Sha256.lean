/-!
SHA-256 (FIPS 180-4) for byte strings of any length — the hash behind `nomt_core::hasher::Sha2Hasher`
(`core/src/hasher.rs`, module `sha2`).  Executable only; nothing is proved about it.  It is validated by
every value-hash / root comparison of the `hasher` correspondence run against the Rust `sha2` crate (lengths around
every padding boundary; the FIPS 180-4 vectors "abc", "", the 448-bit message and 1000 × "a" were checked by hand).
-/
namespace Nomt.Sha256

def K : Array UInt32 := #[
  0x428a2f98, 0x71374491, 0xb5c0fbcf, 0xe9b5dba5, 0x3956c25b, 0x59f111f1, 0x923f82a4, 0xab1c5ed5,
  0xd807aa98, 0x12835b01, 0x243185be, 0x550c7dc3, 0x72be5d74, 0x80deb1fe, 0x9bdc06a7, 0xc19bf174,
  0xe49b69c1, 0xefbe4786, 0x0fc19dc6, 0x240ca1cc, 0x2de92c6f, 0x4a7484aa, 0x5cb0a9dc, 0x76f988da,
  0x983e5152, 0xa831c66d, 0xb00327c8, 0xbf597fc7, 0xc6e00bf3, 0xd5a79147, 0x06ca6351, 0x14292967,
  0x27b70a85, 0x2e1b2138, 0x4d2c6dfc, 0x53380d13, 0x650a7354, 0x766a0abb, 0x81c2c92e, 0x92722c85,
  0xa2bfe8a1, 0xa81a664b, 0xc24b8b70, 0xc76c51a3, 0xd192e819, 0xd6990624, 0xf40e3585, 0x106aa070,
  0x19a4c116, 0x1e376c08, 0x2748774c, 0x34b0bcb5, 0x391c0cb3, 0x4ed8aa4a, 0x5b9cca4f, 0x682e6ff3,
  0x748f82ee, 0x78a5636f, 0x84c87814, 0x8cc70208, 0x90befffa, 0xa4506ceb, 0xbef9a3f7, 0xc67178f2]

def H0 : Array UInt32 := #[0x6a09e667, 0xbb67ae85, 0x3c6ef372, 0xa54ff53a, 0x510e527f, 0x9b05688c, 0x1f83d9ab, 0x5be0cd19]

@[inline] def rotr (x : UInt32) (n : UInt32) : UInt32 := (x >>> n) ||| (x <<< (32 - n))

/-- message schedule of one 64-byte block starting at `off` (big-endian words) -/
def schedule (b : ByteArray) (off : Nat) : Array UInt32 :=
  let w0 : Array UInt32 := (Array.range 16).map (fun i =>
    let byteAt (j : Nat) : UInt32 := (b.get! (off + 4 * i + j)).toUInt32
    (byteAt 0 <<< 24) ||| (byteAt 1 <<< 16) ||| (byteAt 2 <<< 8) ||| byteAt 3)
  (List.range 48).foldl (fun w j =>
    let i := j + 16
    let x := w[i - 15]!
    let y := w[i - 2]!
    let s0 := rotr x 7 ^^^ rotr x 18 ^^^ (x >>> 3)
    let s1 := rotr y 17 ^^^ rotr y 19 ^^^ (y >>> 10)
    w.push (w[i - 16]! + s0 + w[i - 7]! + s1)) w0

/-- the compression function on one block -/
def compress (h : Array UInt32) (b : ByteArray) (off : Nat) : Array UInt32 :=
  let w := schedule b off
  let v := (List.range 64).foldl (fun (v : Array UInt32) i =>
    let a := v[0]!; let bb := v[1]!; let c := v[2]!; let d := v[3]!
    let e := v[4]!; let f := v[5]!; let g := v[6]!; let hh := v[7]!
    let s1 := rotr e 6 ^^^ rotr e 11 ^^^ rotr e 25
    let ch := (e &&& f) ^^^ ((~~~ e) &&& g)
    let t1 := hh + s1 + ch + K[i]! + w[i]!
    let s0 := rotr a 2 ^^^ rotr a 13 ^^^ rotr a 22
    let maj := (a &&& bb) ^^^ (a &&& c) ^^^ (bb &&& c)
    let t2 := s0 + maj
    #[t1 + t2, a, bb, c, d + t1, e, f, g]) h
  (Array.range 8).map (fun i => h[i]! + v[i]!)

/-- padding: `0x80`, zeros up to 56 mod 64, the bit length as a big-endian 64-bit word -/
def pad (input : ByteArray) : ByteArray :=
  let n := input.size
  let zeros := (119 - n % 64) % 64
  let bits : UInt64 := UInt64.ofNat (8 * n)
  let p := (input.push 0x80) ++ ⟨Array.replicate zeros 0⟩
  (List.range 8).foldl (fun acc j => acc.push (bits >>> (UInt64.ofNat (8 * (7 - j)))).toUInt8) p

/-- SHA-256 of a byte string of any length (32 bytes) -/
def hash (input : ByteArray) : ByteArray :=
  let p := pad input
  let h := (List.range (p.size / 64)).foldl (fun h i => compress h p (64 * i)) H0
  (Array.range 8).foldl (fun acc i =>
    let w : UInt32 := h[i]!
    (((acc.push (w >>> 24).toUInt8).push (w >>> 16).toUInt8).push (w >>> 8).toUInt8).push w.toUInt8) ByteArray.empty

end Nomt.Sha256
