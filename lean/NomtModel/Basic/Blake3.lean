/-!
BLAKE3 for inputs of at most one chunk (≤ 1024 bytes), enough for the 64-byte node preimages of
nomt (`core/src/hasher.rs`).  Executable only; nothing is proved about it.  It is validated against
the Rust `blake3` crate by the correspondence runs (every root comparison goes through it).
-/
namespace Nomt.Blake3

def IV : Array UInt32 := #[0x6A09E667, 0xBB67AE85, 0x3C6EF372, 0xA54FF53A, 0x510E527F, 0x9B05688C, 0x1F83D9AB, 0x5BE0CD19]
def perm : Array Nat := #[2, 6, 3, 10, 7, 0, 4, 13, 1, 11, 12, 5, 9, 14, 15, 8]

@[inline] def rotr (x : UInt32) (n : UInt32) : UInt32 := (x >>> n) ||| (x <<< (32 - n))

@[inline] def g (s : Array UInt32) (a b c d : Nat) (mx my : UInt32) : Array UInt32 :=
  let va := s[a]! + s[b]! + mx
  let vd := rotr (s[d]! ^^^ va) 16
  let vc := s[c]! + vd
  let vb := rotr (s[b]! ^^^ vc) 12
  let va := va + vb + my
  let vd := rotr (vd ^^^ va) 8
  let vc := vc + vd
  let vb := rotr (vb ^^^ vc) 7
  (((s.set! a va).set! b vb).set! c vc).set! d vd

def round (s m : Array UInt32) : Array UInt32 :=
  let s := g s 0 4 8 12 m[0]! m[1]!
  let s := g s 1 5 9 13 m[2]! m[3]!
  let s := g s 2 6 10 14 m[4]! m[5]!
  let s := g s 3 7 11 15 m[6]! m[7]!
  let s := g s 0 5 10 15 m[8]! m[9]!
  let s := g s 1 6 11 12 m[10]! m[11]!
  let s := g s 2 7 8 13 m[12]! m[13]!
  g s 3 4 9 14 m[14]! m[15]!

def permute (m : Array UInt32) : Array UInt32 := perm.map (fun i => m[i]!)

def compress (cv m : Array UInt32) (counter : UInt64) (blockLen flags : UInt32) : Array UInt32 :=
  let s : Array UInt32 := cv ++ #[IV[0]!, IV[1]!, IV[2]!, IV[3]!, counter.toUInt32, (counter >>> 32).toUInt32, blockLen, flags]
  let rec go (n : Nat) (s m : Array UInt32) : Array UInt32 :=
    match n with
    | 0 => s
    | n+1 => let s := round s m; if n = 0 then s else go n s (permute m)
  let s := go 7 s m
  (Array.range 8).map (fun i => s[i]! ^^^ s[i+8]!) ++ (Array.range 8).map (fun i => s[i+8]! ^^^ cv[i]!)

def wordsOfBlock (b : ByteArray) (off : Nat) : Array UInt32 :=
  (Array.range 16).map (fun i =>
    let byteAt (j : Nat) : UInt32 := (b.get! (off + 4*i + j)).toUInt32
    byteAt 0 ||| (byteAt 1 <<< 8) ||| (byteAt 2 <<< 16) ||| (byteAt 3 <<< 24))

/-- BLAKE3 hash (32 bytes) of an input of at most 1024 bytes. -/
def hash (input : ByteArray) : ByteArray :=
  let n := input.size
  let nblocks := if n = 0 then 1 else (n + 63) / 64
  let padded : ByteArray := input ++ ⟨Array.replicate (nblocks * 64 - n) 0⟩
  let rec go (i : Nat) (fuel : Nat) (cv : Array UInt32) : Array UInt32 :=
    match fuel with
    | 0 => cv
    | fuel+1 =>
      let last := i + 1 = nblocks
      let blen : Nat := if last then n - 64 * i else 64
      let flags : UInt32 := (if i = 0 then 1 else 0) ||| (if last then 2 ||| 8 else 0)
      let out := compress cv (wordsOfBlock padded (64*i)) 0 (UInt32.ofNat blen) flags
      if last then out else go (i+1) fuel (out.extract 0 8)
  let out := go 0 nblocks IV
  (Array.range 8).foldl (fun acc i =>
    let w : UInt32 := out[i]!
    (((acc.push w.toUInt8).push (w >>> 8).toUInt8).push (w >>> 16).toUInt8).push (w >>> 24).toUInt8) ByteArray.empty

end Nomt.Blake3
