import NomtModel.Basic.Bytes
import NomtModel.Basic.Blake3
import NomtModel.Basic.Sha256
import NomtModel.Core.Basic
/-!
Executable instance of `Hasher` mirroring `core/src/hasher.rs` `BinaryHasher<Blake3>`:
nodes are 32-byte strings, MSB labelling, all-zero terminator.
-/
namespace Nomt

def setMsb (b : ByteArray) : ByteArray := b.set! 0 (b.get! 0 ||| 0x80)
def unsetMsb (b : ByteArray) : ByteArray := b.set! 0 (b.get! 0 &&& 0x7f)

/-- `node_kind_by_msb` -/
def kindByMsb (n : ByteArray) : Kind :=
  if n.get! 0 >>> 7 == 1 then .leaf else if n == zeros32 then .terminator else .internal

/-- `BinaryHasher<Blake3BinaryHasher>`; keys are bit lists (256 bits in the driver) -/
def blakeHasher : Hasher ByteArray ByteArray where
  term := zeros32
  leaf := fun k v => setMsb (Blake3.hash (bytesOfBits k ++ v))
  internal := fun l r => unsetMsb (Blake3.hash (l ++ r))
  kind := kindByMsb

/-- `BinaryHasher<Sha2BinaryHasher>` (`core/src/hasher.rs`, module `sha2`): the same MSB labelling over SHA-256 -/
def shaHasher : Hasher ByteArray ByteArray where
  term := zeros32
  leaf := fun k v => setMsb (Sha256.hash (bytesOfBits k ++ v))
  internal := fun l r => unsetMsb (Sha256.hash (l ++ r))
  kind := kindByMsb

end Nomt
