/-!
Byte / hex / bit utilities shared by the executable driver (no proofs here).
-/
namespace Nomt

def hexDigit (n : Nat) : Char :=
  if n < 10 then Char.ofNat (48 + n) else Char.ofNat (87 + n)

def hexOfBytes (b : ByteArray) : String :=
  String.ofList (b.toList.foldr (fun x acc => hexDigit (x.toNat / 16) :: hexDigit (x.toNat % 16) :: acc) [])

def hexVal (c : Char) : Option Nat :=
  if '0' ≤ c ∧ c ≤ '9' then some (c.toNat - 48)
  else if 'a' ≤ c ∧ c ≤ 'f' then some (c.toNat - 87)
  else if 'A' ≤ c ∧ c ≤ 'F' then some (c.toNat - 55)
  else none

def bytesOfHexAux : List Char → ByteArray → Option ByteArray
  | [], acc => some acc
  | a :: b :: rest, acc =>
    match hexVal a, hexVal b with
    | some x, some y => bytesOfHexAux rest (acc.push (UInt8.ofNat (x * 16 + y)))
    | _, _ => none
  | [_], _ => none

def bytesOfHex (s : String) : Option ByteArray := bytesOfHexAux s.toList ByteArray.empty

/-- bits of a byte string, most significant bit of each byte first (bitvec `Msb0`) -/
def bitsOfBytes (b : ByteArray) : List Bool :=
  b.toList.foldr (fun x acc =>
    (x &&& 128 != 0) :: (x &&& 64 != 0) :: (x &&& 32 != 0) :: (x &&& 16 != 0) ::
    (x &&& 8 != 0) :: (x &&& 4 != 0) :: (x &&& 2 != 0) :: (x &&& 1 != 0) :: acc) []

def bitsOfString (s : String) : List Bool := s.toList.map (· == '1')
def stringOfBits (l : List Bool) : String := String.ofList (l.map (fun b => if b then '1' else '0'))

def byteOfBits : List Bool → Nat → Nat → UInt8
  | [], _, acc => UInt8.ofNat acc
  | b :: bs, w, acc => byteOfBits bs (w / 2) (if b then acc + w else acc)

/-- inverse of `bitsOfBytes` for lists whose length is a multiple of 8 (zero padded otherwise) -/
partial def bytesOfBits (l : List Bool) : ByteArray :=
  let rec go (l : List Bool) (acc : ByteArray) : ByteArray :=
    if l.isEmpty then acc else go (l.drop 8) (acc.push (byteOfBits (l.take 8) 128 0))
  go l ByteArray.empty

def zeros32 : ByteArray := ⟨Array.replicate 32 0⟩

end Nomt
