use nomt::{hasher::Blake3Hasher, KeyReadWrite, Nomt, Options, SessionParams};
fn main() {
    let dir = std::env::args().nth(1).unwrap();
    let buckets: u32 = std::env::args().nth(2).unwrap().parse().unwrap();
    let mut o = Options::new();
    o.path(&dir);
    o.hashtable_buckets(buckets);
    o.commit_concurrency(1);
    let nomt = Nomt::<Blake3Hasher>::open(o).expect("open");
    println!("opened with {} buckets", buckets);
    let session = nomt.begin_session(SessionParams::default());
    let key = [7u8; 32];
    session.warm_up(key);
    let finished = session.finish(vec![(key, KeyReadWrite::Write(Some(vec![1, 2, 3])))]).expect("finish");
    println!("finished, root {:?}", finished.root());
    finished.commit(&nomt).expect("commit");
    println!("committed");
}
