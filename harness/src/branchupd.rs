//! C01 / C16 / C19: the branch stage of the B-tree update — the REAL `BranchUpdater` (with its `BranchOpsTracker`,
//! `BranchGauge` and `build_branch`; `beatree/ops/update/branch_updater.rs`, `branch_ops.rs`) driven through
//! `nomt::verif_api::branch_updater` (hook H14, cfg nomt_verif) on base nodes built with the real `BranchNodeBuilder`, the
//! way `branch_stage.rs::run_worker` drives it: `reset_base` to the node covering the next changed separator, `ingest`
//! while the key is in scope, `digest` when it is not, `reset_base` to the next node on `NeedsMerge(cutoff)`, `digest`
//! until `Finished` at the end — and, on the same level and change list, the WHOLE real stage (`branch_stage::run`: the real
//! `run_worker`, `NodesTracker`, `apply_bbn_changes`, index update) in one `stage` line.  Every call is one protocol line for
//! the Lean driver's `branchupd` mode (mirror `Store/BranchUpdModel.lean`): the produced nodes (prefix_len,
//! prefix_compressed, every separator key, page number and stored separator bit length), the separators and cutoffs handed
//! to `handle_new_branch`, the `DigestResult`s and the private state (`ops`, the gauge, `valid_gauge`, `base.low`) are compared
//! after every call; the `stage` line compares the resulting level and the freed page numbers.
//!
//! With ≥ 3 nodes and ≥ 8 changes the same level and change list are also run through the real stage with 2 … 4 branch
//! workers (`mstage` line: `prepare_workers`, the range-extension protocol between the workers, `filter_branch_changeset`):
//! the content of the resulting level must be the one-worker content (mirror) and pass the same oracles; a directed sweep
//! (`directed_multi`) covers the shape of the seeded change `C01-branch-stage-stale-range-high` (a second merge inside a
//! range the right worker has just granted as unchanged).
//!
//! A scenario is a level of branch nodes (hand-built at chosen sizes, or bulk-loaded through the real stage) followed by
//! 1 … 3 rounds of changes; the level a round produces (with the real page numbers and the real stored separator lengths)
//! is the level of the next round.
//!
//! Oracles that do not depend on the model (a `BTreeMap` and a recomputation of the sizes from the real cells):
//!   * C01: the concatenation of untouched old nodes and produced nodes, left to right, is the old list of
//!     (separator, page number) with the changes applied (nothing lost, nothing duplicated, ascending); the step-wise run
//!     and the whole stage agree;
//!   * C16: every produced node is non-empty, its encoding occupies at most BRANCH_NODE_BODY_SIZE bytes and at least
//!     BRANCH_MERGE_THRESHOLD unless it is the rightmost one; `1 ≤ prefix_compressed ≤ n`; its separator in the index is its
//!     first key; every key of a node is below the separator of the next one; the cutoff handed to `handle_new_branch` is
//!     above every key of the node and at most the separator of the next untouched / later node;
//!   * C19: the page numbers the stage reports as freed are exactly the page numbers of the old nodes that are not part of
//!     the new level, each once;
//!   * no call panics on a well-formed scenario.
use crate::util::*;
use nomt::verif_api::bit_ops::{prefix_len, separator_len};
use nomt::verif_api::branch_updater as bu;
use std::collections::{BTreeMap, BTreeSet};
use std::panic::{catch_unwind, AssertUnwindSafe};

const BODY: usize = bu::BRANCH_NODE_BODY_SIZE;
const MERGE: usize = bu::BRANCH_MERGE_THRESHOLD;

fn optkey_str(k: &Option<Key>) -> String {
    match k {
        None => "-".into(),
        Some(k) => hex(k),
    }
}
fn items_str(items: &[(Key, u32, usize)]) -> String {
    if items.is_empty() {
        return "-".into();
    }
    let mut s = String::with_capacity(items.len() * 80);
    for (i, (k, pn, sl)) in items.iter().enumerate() {
        if i > 0 {
            s.push(',');
        }
        s.push_str(&hex(k));
        s.push(':');
        s.push_str(&pn.to_string());
        s.push(':');
        s.push_str(&sl.to_string());
    }
    s
}
fn view_str(v: &bu::NodeView) -> String {
    format!("{}|{}|{}", v.prefix_len, v.prefix_compressed, items_str(&v.items))
}
fn op_str(op: &bu::OpView) -> String {
    match op {
        bu::OpView::Insert(k, pn) => format!("I:{}:{}", hex(k), pn),
        bu::OpView::Update(pos, pn) => format!("U:{pos}:{pn}"),
        bu::OpView::KeepChunk(s, e, sum) => format!("K:{s}:{e}:{sum}"),
    }
}
/// `tail`: only the number of ops and the last three
fn state_str(s: &bu::StateView, tail: bool) -> String {
    let skip = if tail { s.ops.len().saturating_sub(3) } else { 0 };
    let ops = if s.ops.is_empty() {
        "-".to_string()
    } else {
        s.ops.iter().skip(skip).map(op_str).collect::<Vec<_>>().join(",")
    };
    let ops = if tail { format!("{}#{}", s.ops.len(), ops) } else { ops };
    let g = &s.gauge;
    format!(
        "ops={} g={}/{}/{}/{}/{} v={} low={} cut={}",
        ops,
        g.first_separator.map(|(k, l)| format!("{}:{}", hex(&k), l)).unwrap_or("-".into()),
        g.prefix_len,
        g.sum_separator_lengths,
        g.prefix_compressed.map(|n| n.to_string()).unwrap_or("-".into()),
        g.n,
        if s.valid_gauge { 1 } else { 0 },
        s.low.map(|l| l.to_string()).unwrap_or("-".into()),
        optkey_str(&s.cutoff)
    )
}

/// a node of a level: its id in the protocol's node table, the real node and its decoded view
#[derive(Clone)]
struct LNode {
    id: usize,
    handle: bu::NodeHandle,
    view: bu::NodeView,
}
impl LNode {
    fn sep(&self) -> Key {
        self.view.items[0].0
    }
}

/// one call of `handle_new_branch` with the node decoded (`None`: the accessors panicked on it)
type Prod = (Key, bu::NodeHandle, Option<bu::NodeView>, Option<Key>);

fn produced_str(ps: &[Prod]) -> String {
    if ps.is_empty() {
        return "-".into();
    }
    ps.iter()
        .map(|(sep, _, v, cut)| {
            format!(
                "{}|{}|{}",
                hex(sep),
                v.as_ref().map(view_str).unwrap_or("undecodable".into()),
                optkey_str(cut)
            )
        })
        .collect::<Vec<_>>()
        .join(";")
}

fn safe_view(h: &bu::NodeHandle) -> Option<bu::NodeView> {
    catch_unwind(AssertUnwindSafe(|| h.view())).ok()
}

/// the protocol's node table
struct Reg {
    next_id: usize,
}
impl Reg {
    fn register(&mut self, out: &mut Sink, handle: bu::NodeHandle) -> Option<LNode> {
        let view = safe_view(&handle)?;
        if view.items.is_empty() {
            return None;
        }
        let id = self.next_id;
        self.next_id += 1;
        out.line(
            format!("node {} {} {} {} {}", id, view.bbn_pn, view.prefix_len, view.prefix_compressed, items_str(&view.items)),
            format!("ok body={}", view.body_size),
        );
        Some(LNode { id, handle, view })
    }
}

/// the real updater behind `catch_unwind`, one protocol line per call
struct Drv {
    sim: Option<bu::BranchUpdaterSim>,
    dead: bool,
}

enum Dig {
    Panic,
    Err,
    /// a produced node needs more than BRANCH_NODE_BODY_SIZE bytes: (bytes, n, prefix_len, prefix_compressed)
    Overfull(usize, usize, usize, usize),
    Ok(Vec<Prod>, Option<Key>),
}

fn overfull_of<'a>(views: impl Iterator<Item = &'a Option<bu::NodeView>>) -> Option<(usize, usize, usize, usize)> {
    for v in views {
        if let Some(v) = v {
            if v.body_size > BODY {
                return Some((v.body_size, v.n, v.prefix_len, v.prefix_compressed));
            }
        }
    }
    None
}

fn overfull_msg(what: &str, o: (usize, usize, usize, usize), case: usize, desc: &str) -> String {
    format!(
        "C16 {what}: BranchUpdater produced an over-full node: its encoding needs {} > {BODY} bytes, separators and node pointers overlap (n={} prefix_len={} prefix_compressed={}) (case {case}: {desc})",
        o.0, o.1, o.2, o.3
    )
}

impl Drv {
    fn new_(&mut self, out: &mut Sink, base: Option<&LNode>, cutoff: Option<Key>) {
        let op = format!("new {} {}", base.map(|b| format!("@{}", b.id)).unwrap_or("-".into()), optkey_str(&cutoff));
        let r = catch_unwind(AssertUnwindSafe(|| bu::BranchUpdaterSim::new(base.map(|b| &b.handle), cutoff)));
        match r {
            Ok(s) => {
                self.sim = Some(s);
                self.dead = false;
                out.line(op, "ok".into());
            }
            Err(_) => {
                self.dead = true;
                out.line(op, "panic".into());
            }
        }
    }
    fn call<T>(&mut self, f: impl FnOnce(&mut bu::BranchUpdaterSim) -> T) -> Option<T> {
        if self.dead {
            return None;
        }
        let sim = self.sim.as_mut().unwrap();
        match catch_unwind(AssertUnwindSafe(|| f(sim))) {
            Ok(v) => Some(v),
            Err(_) => {
                self.dead = true;
                None
            }
        }
    }
    fn reset(&mut self, out: &mut Sink, base: Option<&LNode>, cutoff: Option<Key>) {
        let op = format!("reset {} {}", base.map(|b| format!("@{}", b.id)).unwrap_or("-".into()), optkey_str(&cutoff));
        let r = self.call(|s| s.reset_base(base.map(|b| &b.handle), cutoff));
        out.line(op, if r.is_some() { "ok".into() } else { "panic".into() });
    }
    fn rmcut(&mut self, out: &mut Sink) {
        let r = self.call(|s| s.remove_cutoff());
        out.line("rmcut".into(), if r.is_some() { "ok".into() } else { "panic".into() });
    }
    fn scope(&mut self, out: &mut Sink, key: &Key) -> Option<bool> {
        let r = self.call(|s| s.is_in_scope(key));
        out.line(
            format!("scope {}", hex(key)),
            match r {
                Some(b) => b.to_string(),
                None => "panic".into(),
            },
        );
        r
    }
    fn ingest(&mut self, out: &mut Sink, key: &Key, pn: Option<u32>) -> bool {
        let op = format!("ingest {} {}", hex(key), pn.map(|p| p.to_string()).unwrap_or("-".into()));
        let r = self.call(|s| {
            s.ingest(*key, pn);
            s.state()
        });
        match r {
            None => {
                out.line(op, "panic".into());
                false
            }
            Some(st) => {
                out.line(op, state_str(&st, true));
                true
            }
        }
    }
    fn digest(&mut self, out: &mut Sink, fail_at: Option<usize>) -> Dig {
        let op = format!("digest {}", fail_at.map(|k| k.to_string()).unwrap_or("-".into()));
        let r = self.call(|s| {
            let o = s.digest(fail_at);
            (o, s.state())
        });
        match r {
            None => {
                out.line(op, "panic".into());
                Dig::Panic
            }
            Some(((nodes, res), st)) => {
                let prods: Vec<Prod> = nodes
                    .into_iter()
                    .map(|(sep, h, cut)| {
                        let v = safe_view(&h);
                        (sep, h, v, cut)
                    })
                    .collect();
                if let Some(o) = overfull_of(prods.iter().map(|p| &p.2)) {
                    out.line(op, "overfull".into());
                    self.dead = true;
                    return Dig::Overfull(o.0, o.1, o.2, o.3);
                }
                match res {
                    Err(()) => {
                        out.line(op, format!("nodes={} res=err", produced_str(&prods)));
                        self.dead = true;
                        Dig::Err
                    }
                    Ok(res) => {
                        let r = match &res {
                            None => "fin".to_string(),
                            Some(c) => format!("merge:{}", hex(c)),
                        };
                        let line = format!("nodes={} res={} {}", produced_str(&prods), r, state_str(&st, false));
                        if !prods.is_empty() {
                            out.nontrivial(&line);
                        }
                        out.line(op, line);
                        Dig::Ok(prods, res)
                    }
                }
            }
        }
    }
}

// ---------------------------------------------------------------------------------------------------------------
// sizes, recomputed from the layout (independent of the gauge): `2n + ceil((prefix_len + stored bits) / 8) + 4n`

/// the node the harness plans for `keys`: `(prefix_compressed, prefix_len, body bytes)`
fn plan(keys: &[Key], pc: usize) -> (usize, usize, usize) {
    let n = keys.len();
    let pl = if pc <= 1 { separator_len(&keys[0]) } else { prefix_len(&keys[0], &keys[pc - 1]) };
    let mut bits = pl;
    for (i, k) in keys.iter().enumerate() {
        let sl = separator_len(k);
        bits += if i < pc { sl.saturating_sub(pl) } else { sl };
    }
    (pc, pl, 6 * n + (bits + 7) / 8)
}

// ---------------------------------------------------------------------------------------------------------------
// generation

fn key_from(prefix: &[u8], tail: &[u8]) -> Key {
    let mut k = [0u8; 32];
    let pl = prefix.len().min(32);
    k[..pl].copy_from_slice(&prefix[..pl]);
    let tl = tail.len().min(32 - pl);
    k[pl..pl + tl].copy_from_slice(&tail[..tl]);
    k
}

/// the key universe of a scenario: ascending distinct keys from a few families — short separators (a few random leading
/// bytes, then zeros), clusters under long shared prefixes (8 … 31 bytes) with a 2-byte counter (and zeros or a random tail
/// behind it), small integers (leading zeros; the all-zero key), uniform keys (outsiders)
fn gen_universe(r: &mut Rng, want: usize) -> (Vec<Key>, String) {
    let mut keys: BTreeSet<Key> = BTreeSet::new();
    let mut desc = String::new();
    let n_fam = r.range(1, 3);
    for _ in 0..n_fam {
        let share = want / n_fam + 1;
        match r.below(6) {
            0 => {
                let rb = r.range(1, 4);
                desc.push_str(&format!("short{rb} "));
                for _ in 0..share {
                    let b = r.bytes32();
                    keys.insert(key_from(&b[..rb], &[]));
                }
            }
            1 | 2 => {
                let n_cl = r.range(1, 4);
                for _ in 0..n_cl {
                    let l = *r.pick(&[8usize, 9, 12, 15, 16, 17, 20, 24, 25, 28, 29, 30]);
                    let p = r.bytes32();
                    let random_tail = r.chance(1, 3);
                    let step = r.range(1, 3);
                    let start = r.below(60000 - share * step / n_cl.max(1));
                    desc.push_str(&format!("cluster{l}{} ", if random_tail { "r" } else { "" }));
                    for i in 0..(share / n_cl + 1) {
                        let c = (start + i * step) as u16;
                        let t = r.bytes32();
                        let mut tail = c.to_be_bytes().to_vec();
                        if random_tail {
                            tail.extend_from_slice(&t[..]);
                        }
                        keys.insert(key_from(&p[..l], &tail));
                    }
                }
            }
            3 => {
                desc.push_str("smallint ");
                let start = r.below(1000);
                if r.chance(1, 2) {
                    keys.insert([0u8; 32]);
                }
                for i in 0..share {
                    keys.insert(key_from(&[0u8; 30], &((start + i) as u16).to_be_bytes()));
                }
            }
            4 => {
                desc.push_str("uniform ");
                for _ in 0..share {
                    keys.insert(r.bytes32());
                }
            }
            _ => {
                // a cluster at the bit level: shared prefix of d bits, then a counter
                let d = interesting_depth(r).max(20).min(230);
                let base = r.bytes32();
                desc.push_str(&format!("bits{d} "));
                for i in 0..share {
                    let mut k = [0u8; 32];
                    for b in 0..d {
                        set_bit(&mut k, b, bit(&base, b));
                    }
                    for b in 0..16 {
                        if d + b < 256 {
                            set_bit(&mut k, d + b, (i >> (15 - b)) & 1 == 1);
                        }
                    }
                    keys.insert(k);
                }
            }
        }
    }
    // outsiders
    for _ in 0..r.below(6) {
        keys.insert(r.bytes32());
    }
    keys.remove(&[0xffu8; 32]);
    (keys.into_iter().collect(), desc)
}

struct PnGen(u32);
impl PnGen {
    fn next(&mut self) -> u32 {
        self.0 += 1;
        self.0
    }
}

/// hand-built nodes over the ascending `base` keys: every node is filled up to its own size target (tiny, around the
/// merge threshold, around BRANCH_NODE_BODY_SIZE, anything); a key that would collapse the shared prefix too far may stop
/// prefix compression (`prefix_compressed < n`)
fn build_level(r: &mut Rng, out: &mut Sink, reg: &mut Reg, base: &[Key], pns: &mut PnGen, small_followers: bool) -> Vec<LNode> {
    let mut level = Vec::new();
    let mut i = 0usize;
    let max_nodes = *r.pick(&[1usize, 1, 2, 2, 3, 3, 4, 5, 6]);
    let mut bbn = 1u32;
    while i < base.len() && level.len() < max_nodes {
        let target = if small_followers && !level.is_empty() && r.chance(2, 3) {
            r.range(20, 700)
        } else {
            match r.below(9) {
                0 => r.range(10, 400),
                1 => r.range(1500, MERGE - 1),
                2 => r.range(MERGE - 7, MERGE + 7),
                3 => r.range(2500, 3500),
                4 => r.range(BODY - 40, BODY),
                5 => BODY,
                6 => r.range(MERGE, BODY),
                7 => r.range(10, MERGE),
                _ => r.range(10, BODY),
            }
        };
        let allow_stop = r.chance(1, 2);
        let mut keys: Vec<Key> = vec![base[i]];
        let mut pc_fixed: Option<usize> = None;
        let mut j = i + 1;
        while j < base.len() && keys.len() < 1500 {
            let mut cand = keys.clone();
            cand.push(base[j]);
            let pc = pc_fixed.unwrap_or(cand.len());
            let (_, _, b) = plan(&cand, pc);
            if b <= target {
                keys = cand;
                j += 1;
                continue;
            }
            if pc_fixed.is_none() && allow_stop && keys.len() >= 1 {
                let (_, _, b2) = plan(&cand, keys.len());
                if b2 <= target {
                    pc_fixed = Some(keys.len());
                    keys = cand;
                    j += 1;
                    continue;
                }
            }
            break;
        }
        let pc = pc_fixed.unwrap_or(keys.len());
        let (pc, pl, b) = plan(&keys, pc);
        if b > BODY {
            // a single key can be too long for a tiny target, never for a node
            break;
        }
        let items: Vec<(Key, u32)> = keys.iter().map(|k| (*k, pns.next())).collect();
        let handle = match catch_unwind(AssertUnwindSafe(|| bu::make_node(&items, pc, pl, bbn))) {
            Ok(h) => h,
            Err(_) => {
                out.fail(format!("harness: make_node panicked (n={} pc={pc} pl={pl})", items.len()));
                break;
            }
        };
        bbn += 1;
        match reg.register(out, handle) {
            Some(n) => {
                if n.view.body_size != b || n.view.items.iter().map(|x| x.0).collect::<Vec<_>>() != keys {
                    out.fail(format!(
                        "C16 a node built with BranchNodeBuilder::push does not read back: planned body {b}, read {} (n={} pc={pc} pl={pl})",
                        n.view.body_size,
                        keys.len()
                    ));
                }
                if pc < keys.len() {
                    out.count("base_partially_compressed");
                }
                level.push(n);
            }
            None => {
                out.fail("C16 a node built with BranchNodeBuilder::push cannot be decoded".into());
                break;
            }
        }
        i = j;
    }
    level
}

/// the changes of one round, ascending; `None` pn = delete
fn gen_changes(r: &mut Rng, level: &[LNode], universe: &[Key], pns: &mut PnGen, scen: usize) -> (Vec<(Key, Option<u32>)>, Vec<usize>) {
    let mut changes = Vec::new();
    let mut modes = Vec::new();
    if level.is_empty() {
        let p = *r.pick(&[1usize, 2, 4, 8]);
        for k in universe {
            if r.chance(p, 8) {
                changes.push((*k, Some(pns.next())));
            }
        }
        if changes.is_empty() {
            if let Some(k) = universe.first() {
                changes.push((*k, Some(pns.next())));
            }
        }
        return (changes, modes);
    }
    let present: BTreeSet<Key> = level.iter().flat_map(|n| n.view.items.iter().map(|x| x.0)).collect();
    for (i, node) in level.iter().enumerate() {
        let lo = node.sep();
        let hi: Option<Key> = level.get(i + 1).map(|n| n.sep());
        let region: Vec<Key> = {
            let mut v: BTreeSet<Key> = universe.iter().filter(|k| **k >= lo && hi.map_or(true, |h| **k < h)).cloned().collect();
            for it in &node.view.items {
                v.insert(it.0);
            }
            v.into_iter().collect()
        };
        // change mode of the region: 0 untouched, 1 sparse, 2 delete all, 3 delete most, 4 update all, 5 insert some,
        // 6 insert everything absent (bulk), 7 mixed, 8 only the first / last key, 9 delete a prefix / suffix
        let mode = match scen {
            0 => {
                if i == 0 {
                    3
                } else {
                    *r.pick(&[0usize, 0, 1, 3, 2])
                }
            }
            1 => 6,
            2 => *r.pick(&[2usize, 3, 2, 0]),
            3 => 4,
            _ => r.below(10),
        };
        modes.push(mode);
        let nb = node.view.items.len();
        let mut bi = 0usize;
        let ins_p = r.range(1, 6);
        for (j, k) in region.iter().enumerate() {
            let base = present.contains(k);
            if base {
                bi += 1;
            }
            let touch = match mode {
                0 => false,
                1 => r.chance(1, 12),
                2 => base || r.chance(1, 8),
                3 => (base && (nb <= 2 || r.chance(9, 10))) || (!base && r.chance(1, 10)),
                4 => base,
                5 => (!base && r.chance(ins_p, 8)) || r.chance(1, 10),
                6 => !base || r.chance(1, 10),
                7 => r.chance(1, 2),
                8 => (base && (bi == 1 || bi == nb)) || j == 0 || j + 1 == region.len(),
                _ => {
                    let cut = nb / 2;
                    base && (if i % 2 == 0 { bi <= cut } else { bi > cut })
                }
            };
            if !touch {
                continue;
            }
            let ch: Option<u32> = if base {
                match mode {
                    2 | 3 | 9 => None,
                    4 => Some(pns.next()),
                    _ => {
                        if r.chance(1, 2) {
                            None
                        } else {
                            Some(pns.next())
                        }
                    }
                }
            } else {
                match mode {
                    2 | 3 => {
                        if r.chance(1, 2) {
                            None // deleting a separator that is not there
                        } else {
                            Some(pns.next())
                        }
                    }
                    _ => {
                        if r.chance(1, 10) {
                            None
                        } else {
                            Some(pns.next())
                        }
                    }
                }
            };
            changes.push((*k, ch));
        }
    }
    (changes, modes)
}

// ---------------------------------------------------------------------------------------------------------------
// the run_worker loop, step by step

enum Out {
    Old(usize),
    New(Prod),
}

/// the node covering `key` among the nodes from `from` on (`Index::lookup`)
fn covering(level: &[LNode], from: usize, key: &Key) -> Option<usize> {
    if from >= level.len() || level[from].sep() > *key {
        return None;
    }
    let mut i = from;
    while i + 1 < level.len() && level[i + 1].sep() <= *key {
        i += 1;
    }
    Some(i)
}

struct StepResult {
    outl: Vec<Out>,
    released: Vec<u32>,
}

fn run_steps(
    level: &[LNode],
    changes: &[(Key, Option<u32>)],
    case: usize,
    desc: &str,
    fail_case: bool,
    r: &mut Rng,
    out: &mut Sink,
) -> Option<StepResult> {
    let cutoff_of = |i: usize| -> Option<Key> { level.get(i + 1).map(|n| n.sep()) };
    let mut d = Drv { sim: None, dead: false };
    let mut outl: Vec<Out> = Vec::new();
    let mut released: Vec<u32> = Vec::new();
    let mut next_node = 0usize;
    let mut merges_in_a_row = 0u64;
    d.new_(out, None, None);
    macro_rules! reset_to {
        ($key:expr) => {{
            match covering(level, next_node, $key) {
                Some(i) => {
                    for j in next_node..i {
                        outl.push(Out::Old(j));
                    }
                    d.reset(out, Some(&level[i]), cutoff_of(i));
                    released.push(level[i].view.bbn_pn);
                    next_node = i + 1;
                    true
                }
                None => false,
            }
        }};
    }
    macro_rules! handle_digest {
        ($fail:expr) => {{
            match d.digest(out, $fail) {
                Dig::Panic => {
                    out.fail(format!("C01 BranchUpdater::digest panicked (case {case}: {desc})"));
                    return None;
                }
                Dig::Err => {
                    out.count("digest_io_error");
                    return None;
                }
                Dig::Overfull(a, b, c, e) => {
                    out.count("overfull_node");
                    out.fail(overfull_msg("step-wise", (a, b, c, e), case, desc));
                    return None;
                }
                Dig::Ok(nodes, res) => {
                    out.count(match nodes.len() {
                        0 => "digest_0_nodes",
                        1 => "digest_1_node",
                        2 => "digest_2_nodes",
                        3 => "digest_3_nodes",
                        _ => "digest_4plus_nodes",
                    });
                    for l in nodes {
                        outl.push(Out::New(l));
                    }
                    res
                }
            }
        }};
    }
    if let Some((k0, _)) = changes.first() {
        reset_to!(k0);
    }
    let mut digests = 0usize;
    for (key, pn) in changes {
        loop {
            match d.scope(out, key) {
                None => {
                    out.fail(format!("C01 BranchUpdater::is_in_scope panicked (case {case})"));
                    return None;
                }
                Some(true) => break,
                Some(false) => {}
            }
            digests += 1;
            let fail = if fail_case && digests == 2 { Some(r.below(2)) } else { None };
            let res = handle_digest!(fail);
            let k = match res {
                Some(cutoff) => {
                    merges_in_a_row += 1;
                    out.count("needs_merge");
                    cutoff
                }
                None => {
                    if merges_in_a_row > 0 {
                        out.count(&format!("merge_chain_{}", merges_in_a_row.min(5)));
                    }
                    merges_in_a_row = 0;
                    *key
                }
            };
            if !reset_to!(&k) {
                out.fail(format!("harness: no node covers the key after a digest (case {case}: {desc})"));
                return None;
            }
        }
        out.count(match pn {
            None => "ingest_delete",
            Some(_) => "ingest_insert_or_update",
        });
        if !d.ingest(out, key, *pn) {
            out.fail(format!("C01 BranchUpdater::ingest panicked (case {case}: {desc})"));
            return None;
        }
    }
    loop {
        let res = handle_digest!(None);
        match res {
            None => break,
            Some(cutoff) => {
                merges_in_a_row += 1;
                out.count("needs_merge");
                if !reset_to!(&cutoff) {
                    out.fail(format!("harness: NeedsMerge but no node at the cutoff (case {case}: {desc})"));
                    d.rmcut(out);
                }
            }
        }
    }
    if merges_in_a_row > 0 {
        out.count(&format!("merge_chain_{}", merges_in_a_row.min(5)));
    }
    for j in next_node..level.len() {
        outl.push(Out::Old(j));
    }
    Some(StepResult { outl, released })
}

/// one node of a resulting level, for the oracles
struct ResNode {
    sep: Key,
    old: Option<usize>,
    view: Option<bu::NodeView>,
    cutoff: Option<Option<Key>>,
}

/// the oracles on a resulting level; returns its flat content
fn check_level(
    what: &str,
    level: &[LNode],
    changes: &[(Key, Option<u32>)],
    res: &[ResNode],
    case: usize,
    desc: &str,
    out: &mut Sink,
) {
    let mut map: BTreeMap<Key, u32> = BTreeMap::new();
    for n in level {
        for (k, pn, _) in &n.view.items {
            map.insert(*k, *pn);
        }
    }
    for (k, ch) in changes {
        match ch {
            None => {
                map.remove(k);
            }
            Some(pn) => {
                map.insert(*k, *pn);
            }
        }
    }
    let mut flat: Vec<(Key, u32)> = Vec::new();
    for (idx, n) in res.iter().enumerate() {
        let last = idx + 1 == res.len();
        let next_sep: Option<Key> = res.get(idx + 1).map(|x| x.sep);
        let view: &bu::NodeView = match (&n.view, n.old) {
            (Some(v), _) => v,
            (None, Some(j)) => &level[j].view,
            (None, None) => {
                out.fail(format!("C16 {what}: a produced branch node cannot be decoded (case {case}: {desc})"));
                continue;
            }
        };
        if n.old.is_none() {
            let b = view.body_size;
            out.add("new_node_bytes", b as u64);
            out.count("new_nodes");
            if view.prefix_compressed < view.n {
                out.count("new_node_partially_compressed");
            }
            if view.items.is_empty() {
                out.fail(format!("C16 {what}: BranchUpdater produced an empty node (case {case}: {desc})"));
                continue;
            }
            if b < MERGE && !last && what.contains("workers") {
                // with ≥ 2 branch workers a node produced by a split is recorded with `next_separator` = the updater's cutoff
                // (`None` for the last base); handed to the left neighbour as pending base it is taken for the rightmost
                // node and the merged node may stay under-full (observation in notes/Q12.md; content and order are not
                // affected): counted, not a failure
                out.count("multiworker_underfull_not_rightmost");
            } else if b < MERGE && !last {
                out.fail(format!(
                    "C16 {what}: BranchUpdater produced a node under the merge threshold that is not the rightmost one: body {b} (node {idx} of {}, n={}; sizes of the level: {:?}) (case {case}: {desc})",
                    res.len(),
                    view.n,
                    res.iter().map(|x| match (&x.view, x.old) { (Some(v), _) => v.body_size as i64, (None, Some(j)) => -(level[j].view.body_size as i64), _ => 0 }).collect::<Vec<_>>()
                ));
            }
            if b < MERGE && last {
                out.count("underfull_rightmost");
            }
            if view.prefix_compressed == 0 || view.prefix_compressed > view.n {
                out.fail(format!(
                    "C16 {what}: prefix_compressed = {} of a produced node with n = {} (case {case}: {desc})",
                    view.prefix_compressed, view.n
                ));
            }
            if let Some(cut) = &n.cutoff {
                match cut {
                    Some(c) => {
                        if view.items.last().map_or(false, |e| e.0 >= *c) {
                            out.fail(format!("C16 {what}: the cutoff handed to handle_new_branch is not above the node's keys (case {case}: {desc})"));
                        }
                    }
                    None => {
                        if res[idx + 1..].iter().any(|x| x.old.is_some()) {
                            out.fail(format!("C16 {what}: a new node without cutoff in front of untouched nodes (case {case}: {desc})"));
                        }
                    }
                }
            }
        }
        if let Some(f) = view.items.first() {
            if n.sep != f.0 {
                out.fail(format!("C16 {what}: the separator of a node is not its first key (case {case}: {desc})"));
            }
        }
        if let (Some(ns), Some(l)) = (next_sep, view.items.last()) {
            if l.0 >= ns {
                out.fail(format!("C16 {what}: a key of a node is not below the next separator (case {case}: {desc})"));
            }
        }
        flat.extend(view.items.iter().map(|x| (x.0, x.1)));
    }
    let want: Vec<(Key, u32)> = map.into_iter().collect();
    if flat != want {
        let pos = flat.iter().zip(want.iter()).position(|(a, b)| a != b).unwrap_or(flat.len().min(want.len()));
        out.fail(format!(
            "C01 {what}: the branch level after the update differs from the changes applied to the old level: {} items vs {}, first difference at {pos} ({:?} vs {:?}) (case {case}: {desc})",
            flat.len(),
            want.len(),
            flat.get(pos).map(|x| (hex(&x.0), x.1)),
            want.get(pos).map(|x| (hex(&x.0), x.1)),
        ));
    }
}

struct Ctx {
    env: Option<bu::StageEnv>,
    path: std::path::PathBuf,
}

/// the whole real stage on `level`: the resulting level and the freed page numbers
enum Stage {
    Failed,
    Overfull((usize, usize, usize, usize)),
    Ok(Vec<(Key, bu::NodeHandle, Option<usize>, Option<bu::NodeView>)>, Vec<u32>),
}

fn run_stage_line(ctx: &mut Ctx, level: &[LNode], changes: &[(Key, Option<u32>)], out: &mut Sink) -> Stage {
    let db = if level.is_empty() {
        "-".to_string()
    } else {
        level.iter().map(|n| format!("{}@{}", hex(&n.sep()), n.id)).collect::<Vec<_>>().join(",")
    };
    let chs = changes
        .iter()
        .map(|(k, pn)| format!("{}:{}", hex(k), pn.map(|p| p.to_string()).unwrap_or("-".into())))
        .collect::<Vec<_>>()
        .join(",");
    let op = format!("stage {db} {chs}");
    let bump = level.iter().map(|n| n.view.bbn_pn).max().unwrap_or(0) + 1;
    if ctx.env.is_none() {
        ctx.env = Some(bu::StageEnv::new(1, 6));
    }
    let nodes: Vec<(Key, bu::NodeHandle)> = level.iter().map(|n| (n.sep(), n.handle.clone())).collect();
    let r = {
        let env = ctx.env.as_ref().unwrap();
        let path = ctx.path.clone();
        catch_unwind(AssertUnwindSafe(|| bu::run_stage(env, &path, &nodes, changes, 1, bump)))
    };
    match r {
        Err(_) => {
            ctx.env = None;
            out.line(op, "panic".into());
            Stage::Failed
        }
        Ok(Err(e)) => {
            ctx.env = None;
            out.line(op, format!("ioerr {e}"));
            Stage::Failed
        }
        Ok(Ok(so)) => {
            let mut res = Vec::new();
            let mut parts = Vec::new();
            for (sep, h) in so.index {
                let old = level.iter().position(|n| n.handle.ptr_eq(&h));
                match old {
                    Some(j) => {
                        parts.push(format!("{}|o{}", hex(&sep), level[j].view.bbn_pn));
                        res.push((sep, h, Some(j), None));
                    }
                    None => {
                        let v = safe_view(&h);
                        parts.push(format!("{}|n|{}", hex(&sep), v.as_ref().map(view_str).unwrap_or("undecodable".into())));
                        res.push((sep, h, None, v));
                    }
                }
            }
            if let Some(o) = overfull_of(res.iter().map(|x| &x.3)) {
                out.line(op, "overfull".into());
                return Stage::Overfull(o);
            }
            let freed = if so.freed.is_empty() { "-".to_string() } else { so.freed.iter().map(|p| p.to_string()).collect::<Vec<_>>().join(",") };
            let line = format!("out={} freed={}", if parts.is_empty() { "-".to_string() } else { parts.join(";") }, freed);
            out.nontrivial(&line);
            out.line(op, line);
            Stage::Ok(res, so.freed)
        }
    }
}

/// the whole real stage with `workers` ≥ 2 branch workers (`prepare_workers`, the range-extension protocol between the
/// workers, `filter_branch_changeset`): the node boundaries may differ from the one-worker run, the content may not.
/// Protocol line `mstage`: the (separator, page number) content of the new level; oracles as for `stage`.
fn run_mstage_line(
    ctx: &mut Ctx,
    level: &[LNode],
    changes: &[(Key, Option<u32>)],
    workers: usize,
    case: usize,
    desc: &str,
    out: &mut Sink,
) {
    let db = level.iter().map(|n| format!("{}@{}", hex(&n.sep()), n.id)).collect::<Vec<_>>().join(",");
    let chs = changes
        .iter()
        .map(|(k, pn)| format!("{}:{}", hex(k), pn.map(|p| p.to_string()).unwrap_or("-".into())))
        .collect::<Vec<_>>()
        .join(",");
    let op = format!("mstage {workers} {db} {chs}");
    let bump = level.iter().map(|n| n.view.bbn_pn).max().unwrap_or(0) + 1;
    if ctx.env.is_none() {
        ctx.env = Some(bu::StageEnv::new(1, 6));
    }
    let nodes: Vec<(Key, bu::NodeHandle)> = level.iter().map(|n| (n.sep(), n.handle.clone())).collect();
    let r = {
        let env = ctx.env.as_ref().unwrap();
        let path = ctx.path.clone();
        catch_unwind(AssertUnwindSafe(|| bu::run_stage(env, &path, &nodes, changes, workers, bump)))
    };
    out.count(&format!("mstage_workers_{workers}"));
    if std::env::var("VH_BU_DEBUG").is_ok() {
        eprintln!("mstage case {case} workers {workers}: level sizes {:?}", level.iter().map(|n| (n.view.n, n.view.body_size)).collect::<Vec<_>>());
        for (i, n) in level.iter().enumerate() {
            let lo = n.sep();
            let hi = level.get(i + 1).map(|x| x.sep());
            let inr: Vec<&(Key, Option<u32>)> = changes.iter().filter(|(k, _)| *k >= lo && hi.map_or(true, |h| *k < h)).collect();
            let dels = inr.iter().filter(|(_, p)| p.is_none()).count();
            let first_idx = changes.iter().position(|(k, _)| *k >= lo);
            eprintln!("  node {i}: changes {} (deletes {dels}) first change index {:?} first key deleted {}", inr.len(), first_idx,
                inr.iter().any(|(k, p)| *k == lo && p.is_none()));
        }
    }
    let so = match r {
        Err(_) => {
            ctx.env = None;
            out.line(op, "panic".into());
            out.fail(format!("C01 branch_stage::run with {workers} workers panicked (case {case}: {desc})"));
            return;
        }
        Ok(Err(e)) => {
            ctx.env = None;
            out.line(op, format!("ioerr {e}"));
            out.fail(format!("C01 branch_stage::run with {workers} workers failed: {e} (case {case}: {desc})"));
            return;
        }
        Ok(Ok(so)) => so,
    };
    let mut res: Vec<ResNode> = Vec::new();
    let mut content: Vec<String> = Vec::new();
    let mut survivors: Vec<usize> = Vec::new();
    let mut new_pns: Vec<u32> = Vec::new();
    for (sep, h) in &so.index {
        match level.iter().position(|n| n.handle.ptr_eq(h)) {
            Some(j) => {
                survivors.push(j);
                for it in &level[j].view.items {
                    content.push(format!("{}:{}", hex(&it.0), it.1));
                }
                res.push(ResNode { sep: *sep, old: Some(j), view: None, cutoff: None });
            }
            None => {
                let v = safe_view(h);
                if let Some(v) = &v {
                    new_pns.push(v.bbn_pn);
                    for it in &v.items {
                        content.push(format!("{}:{}", hex(&it.0), it.1));
                    }
                }
                res.push(ResNode { sep: *sep, old: None, view: v, cutoff: None });
            }
        }
    }
    if let Some(o) = overfull_of(res.iter().map(|x| &x.view)) {
        out.line(op, "overfull".into());
        out.fail(overfull_msg("multi-worker stage", o, case, desc));
        return;
    }
    if std::env::var("VH_BU_DEBUG").is_ok() {
        for x in &res {
            match (&x.view, x.old) {
                (Some(v), _) => eprintln!("   -> new n={} pl={} pc={} body={} bbn={} first={} last={}", v.n, v.prefix_len, v.prefix_compressed, v.body_size, v.bbn_pn, hex(&v.items[0].0[..6]), hex(&v.items[v.n - 1].0[..6])),
                (None, Some(j)) => eprintln!("   -> old {j}"),
                _ => {}
            }
        }
        eprintln!("   freed {:?} bump {bump}", so.freed);
    }
    out.line(op, format!("content={}", if content.is_empty() { "-".to_string() } else { content.join(",") }));
    check_level(&format!("stage with {workers} workers"), level, changes, &res, case, desc, out);
    // C19: every vanished old node freed exactly once, no surviving one; every other freed page is a page allocated
    // in this stage that is not part of the new level
    let mut gone: Vec<u32> = level.iter().enumerate().filter(|(j, _)| !survivors.contains(j)).map(|(_, n)| n.view.bbn_pn).collect();
    gone.sort();
    let mut freed_old: Vec<u32> = so.freed.iter().cloned().filter(|p| *p < bump).collect();
    freed_old.sort();
    if freed_old != gone {
        out.fail(format!(
            "C19 branch stage with {workers} workers: freed old pages {:?} differ from the pages of the replaced nodes {:?} (case {case}: {desc})",
            freed_old, gone
        ));
    }
    let mut extra: Vec<u32> = so.freed.iter().cloned().filter(|p| *p >= bump).collect();
    extra.sort();
    let n_extra = extra.len();
    extra.dedup();
    if extra.len() != n_extra || extra.iter().any(|p| new_pns.contains(p)) {
        out.fail(format!(
            "C19 branch stage with {workers} workers: a page allocated in this stage is freed twice or freed although it is part of the new level (case {case}: {desc})"
        ));
    }
    out.add("mstage_extra_freed", n_extra as u64);
}

struct Scenario {
    level: Vec<LNode>,
    universe: Vec<Key>,
    rounds: usize,
    scen: usize,
    desc: String,
    /// change lists fixed in advance (directed scenarios)
    fixed: Vec<Vec<(Key, Option<u32>)>>,
}

fn run_scenario(ctx: &mut Ctx, reg: &mut Reg, mut sc: Scenario, case: usize, r: &mut Rng, pns: &mut PnGen, out: &mut Sink) {
    for round in 0..sc.rounds {
        let (changes, modes) = if round < sc.fixed.len() {
            (sc.fixed[round].clone(), vec![])
        } else {
            gen_changes(r, &sc.level, &sc.universe, pns, if round == 0 { sc.scen } else { 9 })
        };
        if changes.is_empty() {
            continue;
        }
        let desc = format!("{} round={round} nodes={} changes={} modes={:?}", sc.desc, sc.level.len(), changes.len(), modes);
        out.count(&format!("level_nodes_{}", sc.level.len().min(6)));
        out.add("changes", changes.len() as u64);
        let level = sc.level.clone();
        // ---- step by step
        let fail_case = r.chance(1, 30);
        let steps = run_steps(&level, &changes, case, &desc, fail_case, r, out);
        // ---- the whole stage
        let stage = run_stage_line(ctx, &level, &changes, out);
        if let Some(st) = &steps {
            let res: Vec<ResNode> = st
                .outl
                .iter()
                .map(|o| match o {
                    Out::Old(j) => ResNode { sep: level[*j].sep(), old: Some(*j), view: None, cutoff: None },
                    Out::New((sep, _, v, cut)) => ResNode { sep: *sep, old: None, view: v.clone(), cutoff: Some(*cut) },
                })
                .collect();
            check_level("step-wise", &level, &changes, &res, case, &desc, out);
        }
        if level.len() >= 3 && changes.len() >= 8 {
            let w = 2 + r.below(3);
            run_mstage_line(ctx, &level, &changes, w, case, &desc, out);
        }
        let (sres, freed) = match stage {
            Stage::Ok(a, b) => (a, b),
            Stage::Overfull(o) => {
                out.count("overfull_node");
                out.fail(overfull_msg("stage", o, case, &desc));
                return;
            }
            Stage::Failed => {
                out.fail(format!("C01 branch_stage::run panicked or failed (case {case}: {desc})"));
                return;
            }
        };
        let res: Vec<ResNode> = sres.iter().map(|(sep, _, old, v)| ResNode { sep: *sep, old: *old, view: v.clone(), cutoff: None }).collect();
        check_level("stage", &level, &changes, &res, case, &desc, out);
        // C19: freed = the old nodes that are gone, each once
        let mut gone: Vec<u32> = level
            .iter()
            .enumerate()
            .filter(|(j, _)| !sres.iter().any(|x| x.2 == Some(*j)))
            .map(|(_, n)| n.view.bbn_pn)
            .collect();
        gone.sort();
        let mut f = freed.clone();
        f.sort();
        if f != gone {
            out.fail(format!(
                "C19 branch stage: freed pages {:?} differ from the pages of the replaced nodes {:?} (case {case}: {desc})",
                f, gone
            ));
        }
        out.add("released", freed.len() as u64);
        // the two drives of the real code agree
        if let Some(st) = &steps {
            let a: Vec<String> = st
                .outl
                .iter()
                .map(|o| match o {
                    Out::Old(j) => format!("o{}", level[*j].id),
                    Out::New((sep, _, v, _)) => format!("{}|{}", hex(sep), v.as_ref().map(view_str).unwrap_or("?".into())),
                })
                .collect();
            let b: Vec<String> = sres
                .iter()
                .map(|(sep, _, old, v)| match old {
                    Some(j) => format!("o{}", level[*j].id),
                    None => format!("{}|{}", hex(sep), v.as_ref().map(view_str).unwrap_or("?".into())),
                })
                .collect();
            if a != b {
                out.fail(format!(
                    "C01 branch_stage::run and the step-wise BranchUpdater disagree on the new level ({} vs {} nodes) (case {case}: {desc})",
                    b.len(),
                    a.len()
                ));
            }
            let mut ra = st.released.clone();
            ra.sort();
            if ra != f {
                out.fail(format!("C19 branch_stage::run frees {:?}, the nodes used as bases were {:?} (case {case}: {desc})", f, ra));
            }
        }
        // ---- the next level
        let mut next: Vec<LNode> = Vec::new();
        for (_, h, old, _) in sres {
            match old {
                Some(j) => next.push(level[j].clone()),
                None => match reg.register(out, h) {
                    Some(n) => next.push(n),
                    None => return,
                },
            }
        }
        sc.level = next;
    }
}

fn gen_scenario(r: &mut Rng, reg: &mut Reg, pns: &mut PnGen, out: &mut Sink) -> Scenario {
    let want = *r.pick(&[30usize, 120, 300, 300, 700, 700, 1500, 2500]);
    let (universe, udesc) = gen_universe(r, want);
    let scen = r.below(10);
    let init = r.below(4);
    let rounds = *r.pick(&[1usize, 1, 2, 2, 3]);
    let p_base = *r.pick(&[2usize, 4, 6, 7, 8]);
    let base: Vec<Key> = universe.iter().filter(|_| r.chance(p_base, 8)).cloned().collect();
    let (level, rounds, idesc) = match init {
        0 => (Vec::new(), rounds + 1, "empty"),
        _ => (build_level(r, out, reg, &base, pns, scen == 0), rounds, "built"),
    };
    let desc = format!("universe={} [{}] init={} scen={}", universe.len(), udesc.trim(), idesc, scen);
    Scenario { level, universe, rounds, scen, desc, fixed: vec![] }
}

/// directed scenarios: an `Update` of every separator of a full node; a node whose first separator is shorter than the
/// prefix and whose prefix shrinks when it is rebuilt from a kept chunk; a delete that empties a node between two others
fn directed(r: &mut Rng, reg: &mut Reg, pns: &mut PnGen, out: &mut Sink) -> Vec<Scenario> {
    let mut v = Vec::new();
    // the all-zero key in front of small integers (prefix ≈ 240 bits, first separator 1 bit), then keys that share fewer
    // and fewer bits are appended: the node is rebuilt from a kept chunk under a shorter prefix
    for shared_bytes in [29usize, 20, 10, 2] {
        let mut base: Vec<Key> = vec![[0u8; 32]];
        for i in 1..r.range(40, 120) {
            base.push(key_from(&[0u8; 30], &(i as u16).to_be_bytes()));
        }
        let level = build_one(reg, out, &base, pns, 1);
        let mut outsider = [0u8; 32];
        outsider[shared_bytes] = 0x40;
        let ch = vec![(outsider, Some(pns.next()))];
        v.push(Scenario {
            level,
            universe: vec![],
            rounds: 1,
            scen: 9,
            desc: format!("directed short first separator, prefix shrinks to {shared_bytes} bytes"),
            fixed: vec![ch],
        });
    }
    // F22: the same shape with the number of small integers tuned so that the gauge's size is at most
    // BRANCH_NODE_BODY_SIZE while the encoding `push_chunk` writes (first separator stored with
    // `old prefix_len - new prefix_len` bits instead of 0) is larger
    for shared_bytes in [27usize, 20, 12, 4] {
        let mut outsider = [0u8; 32];
        outsider[shared_bytes] = 0x40;
        let mut found = None;
        for m in 20..700usize {
            let mut keys: Vec<Key> = vec![[0u8; 32]];
            keys.extend((1..=m).map(|i| key_from(&[0u8; 30], &(i as u16).to_be_bytes())));
            let (_, pl_old, _) = plan(&keys, keys.len());
            let mut all = keys.clone();
            all.push(outsider);
            let (_, pl_new, b) = plan(&all, all.len());
            // bits the gauge counts: the body `b`; bits written: `pl_old - pl_new` more for the first separator
            let n = all.len();
            let bits_gauge = {
                let mut bits = pl_new;
                for k in &all {
                    bits += separator_len(k).saturating_sub(pl_new);
                }
                bits
            };
            let b_real = 6 * n + (bits_gauge + (pl_old - pl_new.min(pl_old)) + 7) / 8;
            if b <= BODY && b >= MERGE && b_real > BODY {
                found = Some(keys);
                break;
            }
        }
        if let Some(keys) = found {
            let level = build_one(reg, out, &keys, pns, 1);
            let ch = vec![(outsider, Some(pns.next()))];
            v.push(Scenario {
                level,
                universe: vec![],
                rounds: 1,
                scen: 9,
                desc: format!("directed F22: first separator shorter than the prefix, prefix shrinks to {shared_bytes} bytes, gauge at the limit (n={})", keys.len() + 1),
                fixed: vec![ch],
            });
        }
    }
    // an `Update` that collapses the prefix: keys under a long prefix and one far key in ONE node (all compressed under a
    // short prefix), many more keys inserted under the long prefix, the far key updated: `extract_ops_until` meets the
    // `Update` with a small gauge and an over-full `body_size_after` and turns it into an `Insert`
    for (n_base, n_ins) in [(24usize, 96usize), (40, 160), (12, 200)] {
        let p = r.bytes32();
        let mut far = [0xffu8; 32];
        far[0] = p[0] | 0x80;
        far[31] = 1;
        let mut pp = p;
        pp[0] &= 0x7f;
        let step = 5usize;
        let base: Vec<Key> = (0..n_base).map(|i| key_from(&pp[..28], &((i * step) as u16).to_be_bytes())).chain(std::iter::once(far)).collect();
        let level = build_one(reg, out, &base, pns, 1);
        let mut ch: Vec<(Key, Option<u32>)> = (0..n_base * step + n_ins)
            .filter(|i| !(i % step == 0 && i / step < n_base))
            .map(|i| (key_from(&pp[..28], &(i as u16).to_be_bytes()), Some(pns.next())))
            .collect();
        ch.push((far, Some(pns.next())));
        v.push(Scenario {
            level,
            universe: vec![],
            rounds: 1,
            scen: 9,
            desc: format!("directed update collapses the prefix ({n_base} kept, {} inserted)", ch.len() - 1),
            fixed: vec![ch],
        });
    }
    // a cascade at the very end: five small nodes, one delete in the first one — the final `while let NeedsMerge` loop
    // has to merge four times
    {
        let p = r.bytes32();
        let mut level = Vec::new();
        let mut first = None;
        for n in 0..5u16 {
            let base: Vec<Key> = (0..6u16).map(|i| key_from(&p[..16], &(n * 100 + i).to_be_bytes())).collect();
            if n == 0 {
                first = Some(base[2]);
            }
            level.extend(build_one(reg, out, &base, pns, n as u32 + 1));
        }
        let ch = vec![(first.unwrap(), None)];
        v.push(Scenario { level, universe: vec![], rounds: 1, scen: 9, desc: "directed final merge cascade over five nodes".into(), fixed: vec![ch] });
    }
    // every separator of one node updated
    {
        let p = r.bytes32();
        let base: Vec<Key> = (0..300u16).map(|i| key_from(&p[..20], &i.to_be_bytes())).collect();
        let level = build_one(reg, out, &base, pns, 1);
        let ch = base.iter().map(|k| (*k, Some(pns.next()))).collect();
        v.push(Scenario { level, universe: vec![], rounds: 1, scen: 9, desc: "directed update every separator".into(), fixed: vec![ch] });
    }
    // three nodes, the middle one is emptied
    {
        let p = r.bytes32();
        let mut level = Vec::new();
        let mut all = Vec::new();
        for n in 0..3u16 {
            let base: Vec<Key> = (0..250u16).map(|i| key_from(&p[..16], &(n * 1000 + i).to_be_bytes())).collect();
            all.push(base.clone());
            level.extend(build_one(reg, out, &base, pns, n as u32 + 1));
        }
        let ch = all[1].iter().map(|k| (*k, None)).collect();
        v.push(Scenario { level, universe: vec![], rounds: 1, scen: 9, desc: "directed middle node emptied".into(), fixed: vec![ch] });
    }
    v
}

/// the multi-worker shape of the seeded change `C01-branch-stage-stale-range-high`: six nodes of equal items; the tail of
/// node 0 is deleted (the left worker's last node is under-full), node 1 is emptied (the right worker's first node), nodes 2
/// and 3 are untouched, one separator of node 4 is updated.  `keep` items stay in node 0: for a few values of `keep`
/// `rest(node 0) + node 2` is slightly larger than one node, the merge splits and its remainder needs a SECOND merge whose
/// cutoff (node 3) lies inside the range the right worker has just granted.
fn directed_multi(r: &mut Rng, reg: &mut Reg, pns: &mut PnGen, out: &mut Sink) -> Vec<(Scenario, usize)> {
    let mut v = Vec::new();
    let p = r.bytes32();
    let per = 170u16;
    let mk = |n: u16, i: u16| -> Key {
        let mut k = key_from(&p[..16], &(n * 1000 + i).to_be_bytes());
        k[31] = 1;
        k
    };
    for workers in [2usize, 3] {
        for keep in 8..28u16 {
            let mut level = Vec::new();
            let mut all: Vec<Vec<Key>> = Vec::new();
            for n in 0..6u16 {
                let base: Vec<Key> = (0..per).map(|i| mk(n, i)).collect();
                level.extend(build_one(reg, out, &base, pns, n as u32 + 1));
                all.push(base);
            }
            let mut ch: Vec<(Key, Option<u32>)> = Vec::new();
            for k in &all[0][keep as usize..] {
                ch.push((*k, None));
            }
            for k in &all[1] {
                ch.push((*k, None));
            }
            ch.push((all[4][per as usize / 2], Some(pns.next())));
            if workers == 3 {
                ch.push((all[5][3], Some(pns.next())));
                ch.push((all[5][9], None));
            }
            v.push((
                Scenario {
                    level,
                    universe: vec![],
                    rounds: 1,
                    scen: 9,
                    desc: format!("directed multi-worker: second merge inside a granted unchanged range (keep={keep}, workers={workers})"),
                    fixed: vec![ch],
                },
                workers,
            ));
        }
    }
    v
}

fn build_one(reg: &mut Reg, out: &mut Sink, keys: &[Key], pns: &mut PnGen, bbn: u32) -> Vec<LNode> {
    let (pc, pl, _) = plan(keys, keys.len());
    let items: Vec<(Key, u32)> = keys.iter().map(|k| (*k, pns.next())).collect();
    match catch_unwind(AssertUnwindSafe(|| bu::make_node(&items, pc, pl, bbn))) {
        Ok(h) => reg.register(out, h).into_iter().collect(),
        Err(_) => {
            out.fail("harness: make_node panicked on a directed node".into());
            vec![]
        }
    }
}

pub fn run(seed: u64, cases: usize, out: &mut Sink) {
    let mut rng = Rng::new(seed ^ 0xB4A2C4_0D);
    let path = std::path::PathBuf::from(format!("/dev/shm/nomt-verif-branchupd-{}-{}.bbn", std::process::id(), seed));
    let mut ctx = Ctx { env: None, path: path.clone() };
    let mut reg = Reg { next_id: 0 };
    let mut pns = PnGen(1_000_000);
    let mut r0 = rng.fork();
    let ds = directed(&mut r0, &mut reg, &mut pns, out);
    for (i, sc) in ds.into_iter().enumerate() {
        out.mark_case(format!("directed {i}: {}", sc.desc));
        run_scenario(&mut ctx, &mut reg, sc, i, &mut r0, &mut pns, out);
    }
    let dm = directed_multi(&mut r0, &mut reg, &mut pns, out);
    for (i, (sc, workers)) in dm.into_iter().enumerate() {
        out.mark_case(format!("directed multi {i}: {}", sc.desc));
        let desc = sc.desc.clone();
        run_mstage_line(&mut ctx, &sc.level, &sc.fixed[0], workers, i, &desc, out);
    }
    for case in 0..cases {
        let mut r = rng.fork();
        let sc = gen_scenario(&mut r, &mut reg, &mut pns, out);
        out.mark_case(format!("case {case}: {}", sc.desc));
        run_scenario(&mut ctx, &mut reg, sc, case, &mut r, &mut pns, out);
    }
    drop(ctx);
    let _ = std::fs::remove_file(&path);
}

// ---------------------------------------------------------------------------------------------------------------
// a whole-store scenario for an observation made while modelling `reset_branch_base_fresh` / `reset_leaf_base_fresh`:
// when the first changed key of a commit lies in front of the first separator of the index (`Index::lookup` = `None`)
// the updaters keep `base = None, cutoff = None` and every change of the commit is ingested without a base.

/// commit 1 fills a few leaves, commit 2 deletes the `j` smallest keys (for some `j` exactly the first leaf: its
/// separator 0 leaves the branch level), commit 3 writes a key in front of everything and rewrites the largest key:
/// every key must read back the last value written.
pub fn first_leaf_scenario(out: &mut Sink) {
    use nomt::hasher::Blake3Hasher;
    use nomt::{KeyReadWrite, Nomt, Options, SessionParams};
    let key = |i: u16| -> Key {
        let mut k = [0u8; 32];
        k[0] = 0x10;
        k[1..3].copy_from_slice(&i.to_be_bytes());
        k
    };
    let val = |tag: u8, len: usize| -> Vec<u8> { vec![tag; len] };
    for j in 1..=8u16 {
        for vlen in [1000usize, 300] {
            let dir = format!("/dev/shm/nomt-verif-branchupd-db-{}-{}-{}", std::process::id(), j, vlen);
            let _ = std::fs::remove_dir_all(&dir);
            let res = catch_unwind(AssertUnwindSafe(|| {
                let mut o = Options::new();
                o.path(&dir);
                o.commit_concurrency(1);
                o.hashtable_buckets(4096);
                o.preallocate_ht(false);
                let db = Nomt::<Blake3Hasher>::open(o).expect("open");
                let mut model: BTreeMap<Key, Vec<u8>> = BTreeMap::new();
                let commit = |db: &Nomt<Blake3Hasher>, ws: Vec<(Key, Option<Vec<u8>>)>| {
                    let s = db.begin_session(SessionParams::default());
                    let acts: Vec<(Key, KeyReadWrite)> = ws.into_iter().map(|(k, v)| (k, KeyReadWrite::Write(v))).collect();
                    let fin = s.finish(acts).expect("finish");
                    fin.commit(db).expect("commit");
                };
                let n = if vlen == 1000 { 14u16 } else { 40 };
                let c1: Vec<(Key, Option<Vec<u8>>)> = (1..=n).map(|i| (key(i * 10), Some(val(1, vlen)))).collect();
                for (k, v) in &c1 {
                    model.insert(*k, v.clone().unwrap());
                }
                commit(&db, c1);
                let c2: Vec<(Key, Option<Vec<u8>>)> = (1..=j).map(|i| (key(i * 10), None)).collect();
                for (k, _) in &c2 {
                    model.remove(k);
                }
                commit(&db, c2);
                let c3 = vec![(key(1), Some(val(3, 20))), (key(n * 10), Some(val(4, 21)))];
                for (k, v) in &c3 {
                    model.insert(*k, v.clone().unwrap());
                }
                commit(&db, c3);
                let mut bad = Vec::new();
                for i in 0..=(n * 10 + 1) {
                    let k = key(i);
                    let got = db.read(k).expect("read");
                    if got.as_deref() != model.get(&k).map(|v| &v[..]) {
                        bad.push(i);
                    }
                }
                bad
            }));
            let _ = std::fs::remove_dir_all(&dir);
            let op = format!("firstleaf {j} {vlen}");
            match res {
                Err(_) => {
                    out.line(op, "panic".into());
                    out.fail(format!("C01 first-leaf scenario: the store panicked (delete the {j} smallest keys, values of {vlen} bytes)"));
                }
                Ok(bad) => {
                    if bad.is_empty() {
                        out.line(op, "ok".into());
                    } else {
                        out.line(op, format!("stale {:?}", bad));
                        out.fail(format!(
                            "C01 first-leaf scenario: after deleting the {j} smallest keys ({vlen}-byte values) and then writing a key in front of everything together with the largest key, keys {:?} do not read back the last value written",
                            bad
                        ));
                    }
                }
            }
        }
    }
}
