//! C03 / C04 / C14: crash, power-loss and fault enumeration on the real code.
//!
//! parent (`crash`):   runs a generated history in-process with the hook observing (event count per
//!                     step, oracle state before / after each step), then for chosen steps and every
//!                     event index k re-executes the same history in a child which aborts (or fails)
//!                     at event k of that step; the resulting directory is opened by a second child
//!                     (`dump`) whose report is compared with the oracle's pre / post state.
//! child  (`crash-child`): same history, same seed; armed at the chosen step.
//! child  (`dump`):    opens the directory (optionally crashing again during recovery), reports root,
//!                     seqn, values, proof validity, and performs a follow-up commit.
use crate::db::{vhash, weights_for, DbCfg, Engine, Map};
use crate::iohook::{self, Loss, Mode};
use crate::util::*;
use bitvec::prelude::*;
use nomt::hasher::Blake3Hasher;
use nomt::trie::LeafData;
use nomt::{KeyReadWrite, Nomt, SessionParams};
use std::collections::BTreeMap;
use std::process::Command;

fn arg(args: &[String], name: &str) -> Option<String> {
    args.iter().position(|a| a == name).and_then(|i| args.get(i + 1).cloned())
}

fn gen_case(seed: u64, case: usize, focus: &str) -> (Rng, DbCfg) {
    let mut rng = Rng::new(seed);
    let mut r = rng.fork();
    for _ in 0..case {
        r = rng.fork();
    }
    let mut cfg = DbCfg::gen(&mut r);
    cfg.buckets = 4096;
    if focus == "rollback" || focus == "reject" {
        cfg.maxlog = *r.pick(&[1u32, 2, 3, 5]);
    }
    if focus == "script-rollback-multi-segment" {
        cfg.maxlog = 10;
    }
    if focus == "script-prune-then-rollback-all" {
        cfg.maxlog = 3;
    }
    (r, cfg)
}

fn parse_loss(s: &str) -> Loss {
    let parts: Vec<&str> = s.split(':').collect();
    match parts[0] {
        "all" => Loss::All,
        "rand" => Loss::Random(parts.get(1).and_then(|x| x.parse().ok()).unwrap_or(1)),
        "lose" => Loss::OnlyLose(parts.get(1).and_then(|x| x.parse().ok()).unwrap_or(0)),
        "keep" => Loss::OnlyKeep(parts.get(1).and_then(|x| x.parse().ok()).unwrap_or(0)),
        _ => Loss::None,
    }
}

/// `crash-child`: replay the history, arm at `--stop-step`, abort / fail at relative event `--at`.
pub fn child(args: &[String]) -> i32 {
    let seed: u64 = arg(args, "--seed").unwrap().parse().unwrap();
    let case: usize = arg(args, "--case").unwrap().parse().unwrap();
    let focus = arg(args, "--focus").unwrap_or("general".into());
    let nsteps: usize = arg(args, "--nsteps").unwrap().parse().unwrap();
    let stop: usize = arg(args, "--stop-op").unwrap().parse().unwrap();
    let at: u64 = arg(args, "--at").unwrap().parse().unwrap();
    let dir = arg(args, "--dir").unwrap();
    let fault = arg(args, "--fault"); // "once" | "persistent"
    let loss = parse_loss(&arg(args, "--loss").unwrap_or("none".into()));
    let big = args.iter().any(|a| a == "--big");
    if let Some(sz) = arg(args, "--segsize").and_then(|s| s.parse::<u64>().ok()) {
        nomt::verif_hook::set_rollback_segment_size(sz);
    }
    let (r, cfg) = gen_case(seed, case, &focus);
    let weights = weights_for(&focus);
    let mut sink = Sink::new();
    // OS-level faults (`--fault rlimit:<which>`): the armed operation runs under a lowered RLIMIT_FSIZE, so the KERNEL fails every write /
    // resize beyond the limit with EFBIG — through io_uring completions, `pwrite`, `ftruncate` alike (the I/O hook fails an operation before it
    // is issued and never exercises the completion paths of the I/O back end)
    let os_fault: Option<String> = fault.as_deref().and_then(|f| f.strip_prefix("rlimit:")).map(|s| s.to_string());
    if os_fault.is_some() {
        unsafe { libc::signal(libc::SIGXFSZ, libc::SIG_IGN) };
        iohook::install(Mode::Observe, loss, None);
    } else {
        iohook::install(Mode::Observe, loss, Some(format!("{dir}.trace")));
    }
    let mut r = r;
    let _ = r.next(); // the parent drew the number of steps from this generator
    {
        let dir = dir.clone();
        let fault = fault.clone();
        *crate::db::OP_OBSERVER.lock().unwrap() = Some(Box::new(move |op: &crate::db::OpInfo<'_>| {
            if op.index != stop {
                return;
            }
            if op.starting {
                let base = iohook::begins();
                if let Some(which) = &os_fault {
                    let size = |name: &str| std::fs::metadata(format!("{dir}/{name}")).map(|m| m.len()).unwrap_or(0);
                    let limit: u64 = match which.as_str() {
                        // some hash-table page writes (post-meta, through the ring) fail
                        "ht-half" => size("ht") / 2,
                        "ht-3q" => size("ht") / 4 * 3,
                        // growing the leaf file / writing leaves beyond its current end fails (pre-meta)
                        "ln-end" => size("ln").max(4096),
                        "bbn-end" => size("bbn").max(4096),
                        // the limit falls INSIDE a page: the write of that page returns a short count (no errno) every time it is issued
                        // (the first page the sync allocates beyond the frontier, read off the manifest: bytes 12..16 = ln_bump, 20..24 = bbn_bump)
                        "ln-bump-odd" | "ln-bump1-odd" | "bbn-bump-odd" => {
                            let meta = std::fs::read(format!("{dir}/meta")).unwrap_or_default();
                            let word = |o: usize| meta.get(o..o + 4).map(|b| u32::from_le_bytes(b.try_into().unwrap()) as u64).unwrap_or(1);
                            match which.as_str() {
                                "ln-bump-odd" => word(12) * 4096 + 1000,
                                "ln-bump1-odd" => (word(12) + 1) * 4096 + 1000,
                                _ => word(20) * 4096 + 1000,
                            }
                        }
                        // nearly everything fails, the WAL write included
                        _ => 8192,
                    };
                    let mut rl = libc::rlimit { rlim_cur: 0, rlim_max: 0 };
                    unsafe {
                        libc::getrlimit(libc::RLIMIT_FSIZE, &mut rl);
                        rl.rlim_cur = limit;
                        libc::setrlimit(libc::RLIMIT_FSIZE, &rl);
                    }
                    return;
                }
                match &fault {
                    Some(f) => iohook::set_mode(Mode::FailAt(base + at, f == "persistent")),
                    None => iohook::set_mode(Mode::AbortAt(base + at)),
                }
            } else {
                // the operation returned without reaching event `at` (or the fault was injected and handled)
                if os_fault.is_some() {
                    let mut rl = libc::rlimit { rlim_cur: 0, rlim_max: 0 };
                    unsafe {
                        libc::getrlimit(libc::RLIMIT_FSIZE, &mut rl);
                        rl.rlim_cur = rl.rlim_max;
                        libc::setrlimit(libc::RLIMIT_FSIZE, &rl);
                    }
                }
                iohook::set_mode(Mode::Off);
                let st = iohook::uninstall();
                let mut injected = st.as_ref().map(|s| s.failed_injected).unwrap_or(0);
                if os_fault.is_some() && (op.poisoned || !op.alive) {
                    injected = 1;
                }
                let mut rep = format!(
                    "completed alive={} poisoned={} injected={} seqn={} keys={}\n",
                    op.alive, op.poisoned, injected, op.seqn, op.committed.len()
                );
                for f in op.oracle_failures.iter() {
                    rep.push_str(&format!("ORACLE {f}\n"));
                }
                let _ = std::fs::write(format!("{dir}.child"), rep);
                // everything the operation issued has completed when it returns: leaving right here is
                // a crash directly after the call
                unsafe { libc::_exit(0) }
            }
        }));
    }
    let mut e = Engine::new(r, &mut sink, cfg, dir.clone(), big);
    e.script = crate::db::script_for(&focus);
    e.forget_dir();
    for _ in 0..nsteps {
        e.step(&weights);
    }
    // the target operation was never reached (history diverged): report it
    let _ = std::fs::write(format!("{dir}.child"), "notreached\n");
    e.finish();
    5
}

/// `dump`: open a directory and report what it contains.
pub fn dump(args: &[String]) -> i32 {
    let dir = arg(args, "--dir").unwrap();
    let keys_file = arg(args, "--keys").unwrap();
    let out = arg(args, "--report").unwrap();
    let abort_at: Option<u64> = arg(args, "--abort-at").and_then(|s| s.parse().ok());
    let loss = parse_loss(&arg(args, "--loss").unwrap_or("none".into()));
    let cfg_seed: u64 = arg(args, "--cfg-seed").and_then(|s| s.parse().ok()).unwrap_or(1);
    let buckets: u32 = arg(args, "--buckets").and_then(|s| s.parse().ok()).unwrap_or(4096);
    let maxlog: u32 = arg(args, "--maxlog").and_then(|s| s.parse().ok()).unwrap_or(100);
    if let Some(sz) = arg(args, "--segsize").and_then(|s| s.parse::<u64>().ok()) {
        nomt::verif_hook::set_rollback_segment_size(sz);
    }
    let keys: Vec<Key> = std::fs::read_to_string(&keys_file).unwrap_or_default().lines().filter(|l| l.len() == 64).map(unhex32).collect();
    let mut cfg = DbCfg::gen(&mut Rng::new(cfg_seed));
    cfg.buckets = buckets;
    cfg.maxlog = maxlog;
    cfg.rollback = true;
    match abort_at {
        Some(k) => iohook::install(Mode::AbortAt(k), loss, Some(format!("{dir}.trace2"))),
        None => iohook::install(Mode::Observe, Loss::None, None),
    }
    let mut rep = String::new();
    let db: Nomt<Blake3Hasher> = match Nomt::open(cfg.options(&dir)) {
        Ok(db) => db,
        Err(e) => {
            let _ = std::fs::write(&out, format!("OPENFAIL {e:#}\n"));
            return 3;
        }
    };
    let recovery_events = iohook::begins();
    if abort_at.is_none() && recovery_events > 0 {
        // the ordered Begin / End events of the recovery itself, for the Lean order monitor (`recovery <file>`)
        let _ = std::fs::write(format!("{out}.rtrace"), iohook::trace_lines_since(0).join("\n") + "\n");
    }
    iohook::set_mode(Mode::Observe);
    if abort_at.is_some() {
        // nested-crash probe: the recovery finished before reaching the requested event
        drop(db);
        return 10;
    }
    let root = db.root().into_inner();
    rep.push_str(&format!("root {}\nseqn {}\nrecovery_events {}\n", hex(&root), db.sync_seqn(), recovery_events));
    let sess = db.begin_session(SessionParams::default());
    for k in &keys {
        match db.read(*k) {
            Ok(v) => {
                let sv = sess.read(*k).ok().flatten();
                if sv != v {
                    rep.push_str(&format!("MISMATCH direct-vs-session {}\n", hex(k)));
                }
                rep.push_str(&format!("val {} {}\n", hex(k), v.as_ref().map(|v| hex(&vhash(v))).unwrap_or("-".into())));
                // proof must verify against the root and confirm the value just read
                match sess.prove(*k) {
                    Ok(p) => match p.verify::<Blake3Hasher>(k.view_bits::<Msb0>(), root) {
                        Ok(vp) => {
                            let ok = match &v {
                                Some(val) => vp.confirm_value(&LeafData { key_path: *k, value_hash: vhash(val) }).ok() == Some(true),
                                None => vp.confirm_nonexistence(k).ok() == Some(true),
                            };
                            if !ok {
                                rep.push_str(&format!("PROOFBAD {} does not confirm the read value\n", hex(k)));
                            }
                        }
                        Err(e) => rep.push_str(&format!("PROOFBAD {} {:?}\n", hex(k), e)),
                    },
                    Err(e) => rep.push_str(&format!("PROOFERR {} {e:#}\n", hex(k))),
                }
            }
            Err(e) => rep.push_str(&format!("READERR {} {e:#}\n", hex(k))),
        }
    }
    drop(sess);
    // C10 / C19: what a CLEAN reopen of the recovered directory would show, probed on a copy while this handle is alive
    // (nothing is in flight after `open` returned): occupancy, root and sequence number must be those of the recovering
    // handle — what recovery patched only in memory shows up here, before the follow-up commit can heal it
    {
        let copy = format!("{dir}.r2");
        let _ = std::fs::remove_dir_all(&copy);
        if copy_db_files(&dir, &copy).is_ok() {
            match Nomt::<Blake3Hasher>::open(cfg.options(&copy)) {
                Ok(db2) => rep.push_str(&format!(
                    "reopen2 {} {} {} {}\n",
                    db.hash_table_utilization().occupied,
                    db2.hash_table_utilization().occupied,
                    (db2.root().into_inner() == db.root().into_inner()) as u8,
                    (db2.sync_seqn() == db.sync_seqn()) as u8
                )),
                Err(e) => rep.push_str(&format!("reopen2-error {}\n", format!("{e:#}").replace(' ', "_"))),
            }
        }
        let _ = std::fs::remove_dir_all(&copy);
    }
    // follow-up commit: the reopened store must accept further commits that behave as in the model
    let fk: Key = [0xA5; 32];
    let fv = vec![0x5A; 77];
    let s = db.begin_session(SessionParams::default());
    match s.finish(vec![(fk, KeyReadWrite::Write(Some(fv.clone())))]) {
        Ok(fin) => {
            let r = fin.root().into_inner();
            match fin.commit(&db) {
                Ok(()) => rep.push_str(&format!("followup ok {} {}\n", hex(&r), hex(&db.root().into_inner()))),
                Err(e) => rep.push_str(&format!("followup commit-error {e:#}\n")),
            }
        }
        Err(e) => rep.push_str(&format!("followup finish-error {e:#}\n")),
    }
    let occ1 = db.hash_table_utilization().occupied;
    rep.push_str(&format!("occupied {}\n", occ1));
    // C10 / C19: a CLEAN close and reopen of the recovered store must be transparent — same root, sequence number and
    // hash-table occupancy (what recovery patched only in memory shows up here)
    let (root1, seqn1) = (db.root().into_inner(), db.sync_seqn());
    drop(db);
    let _ = iohook::uninstall();
    let mut tries = 0;
    loop {
        match Nomt::<Blake3Hasher>::open(cfg.options(&dir)) {
            Ok(db2) => {
                rep.push_str(&format!(
                    "reopen2 {} {} {} {}\n",
                    occ1,
                    db2.hash_table_utilization().occupied,
                    (db2.root().into_inner() == root1) as u8,
                    (db2.sync_seqn() == seqn1) as u8
                ));
                drop(db2);
                break;
            }
            Err(e) => {
                tries += 1;
                if tries > 400 {
                    rep.push_str(&format!("reopen2-error {e:#}\n").replace(' ', "_").replace("reopen2-error_", "reopen2-error "));
                    break;
                }
                std::thread::sleep(std::time::Duration::from_millis(5));
            }
        }
    }
    rep.push_str("END\n");
    let _ = std::fs::write(&out, rep);
    0
}

#[derive(Default)]
struct Report {
    root: String,
    seqn: u32,
    vals: BTreeMap<Key, Option<[u8; 32]>>,
    problems: Vec<String>,
    followup: Option<(String, String)>,
    complete: bool,
    recovery_events: u64,
    /// `hash_table_utilization().occupied` of the handle that performed the recovery (after the follow-up commit)
    occupied: Option<usize>,
    /// failures of the second, clean reopen (tagged messages)
    reopen2: Vec<String>,
}

fn parse_report(path: &str) -> Report {
    let mut r = Report::default();
    for l in std::fs::read_to_string(path).unwrap_or_default().lines() {
        let f: Vec<&str> = l.split(' ').collect();
        match f[0] {
            "root" => r.root = f[1].to_string(),
            "seqn" => r.seqn = f[1].parse().unwrap_or(0),
            "recovery_events" => r.recovery_events = f[1].parse().unwrap_or(0),
            "val" => {
                r.vals.insert(unhex32(f[1]), if f[2] == "-" { None } else { Some(unhex32(f[2])) });
            }
            "followup" => {
                if f[1] == "ok" {
                    r.followup = Some((f[2].to_string(), f[3].to_string()));
                } else {
                    r.problems.push(l.to_string());
                }
            }
            "END" => r.complete = true,
            "occupied" => r.occupied = f.get(1).and_then(|x| x.parse().ok()),
            "reopen2" => {
                let n = |i: usize| f.get(i).and_then(|x| x.parse::<u64>().ok()).unwrap_or(u64::MAX);
                if n(1) != n(2) {
                    r.reopen2.push(format!("C10 hash-table occupancy changed across a clean close / reopen of the recovered store: {} -> {}", n(1), n(2)));
                    r.reopen2.push(format!("C19 reported hash-table occupancy after a clean reopen of the recovered store is {} but the handle that wrote the table counted {} stored pages", n(2), n(1)));
                }
                if n(3) != 1 || n(4) != 1 {
                    r.reopen2.push("C10 root / sync sequence number changed across a clean close / reopen of the recovered store".to_string());
                }
            }
            "reopen2-error" => r.reopen2.push(format!("C10 the recovered store does not reopen after a clean close: {}", f.get(1).cloned().unwrap_or(""))),
            _ => r.problems.push(l.to_string()),
        }
    }
    r
}

fn state_matches(rep: &Report, m: &Map, seqn: u32, keys: &[Key]) -> bool {
    if rep.seqn != seqn {
        return false;
    }
    let hashes: Vec<(Key, [u8; 32])> = m.iter().map(|(k, v)| (*k, vhash(v))).collect();
    if rep.root != hex(&ref_root(&hashes)) {
        return false;
    }
    keys.iter().all(|k| rep.vals.get(k).cloned().flatten() == m.get(k).map(|v| vhash(v)))
}

fn run_timeout(cmd: &mut Command, secs: u64) -> Option<i32> {
    let mut child = cmd.spawn().ok()?;
    let t0 = std::time::Instant::now();
    loop {
        match child.try_wait() {
            Ok(Some(st)) => return Some(st.code().unwrap_or(-1)),
            Ok(None) => {
                if t0.elapsed().as_secs() > secs {
                    let _ = child.kill();
                    let _ = child.wait();
                    return None;
                }
                std::thread::sleep(std::time::Duration::from_millis(2));
            }
            Err(_) => return Some(-2),
        }
    }
}

struct StepInfo {
    events: u64,
    pre: (Map, u32),
    post: (Map, u32),
    meta_write_rel: Option<u64>,
    kinds: Vec<String>,
    unsynced: Vec<usize>,
    what: String,
}

/// parent
pub fn run(args: &[String], out: &mut Sink) {
    let seed: u64 = arg(args, "--seed").and_then(|s| s.parse().ok()).unwrap_or(1);
    let cases: usize = arg(args, "--cases").and_then(|s| s.parse().ok()).unwrap_or(2);
    let focus = arg(args, "--focus").unwrap_or("general".into());
    let nops: usize = arg(args, "--nops").and_then(|s| s.parse().ok()).unwrap_or(8);
    let image_driver: Option<String> = arg(args, "--image-driver");
    // C03: the Lean WAL reader + redo on every crashed directory that holds a WAL (harness/src/wal.rs)
    let wal_driver: Option<String> = arg(args, "--wal-driver");
    let steps_per_case: usize = arg(args, "--steps").and_then(|s| s.parse().ok()).unwrap_or(2);
    let stride: u64 = arg(args, "--stride").and_then(|s| s.parse().ok()).unwrap_or(1);
    let mode = arg(args, "--mode").unwrap_or("crash".into()); // crash | power | fault | nested
    let big = args.iter().any(|a| a == "--big");
    let segsize = arg(args, "--segsize");
    let exe = std::env::current_exe().unwrap();
    let pid = std::process::id();
    let outdir = arg(args, "--out").unwrap_or("work/out".into());
    let _ = std::fs::create_dir_all(&outdir);
    let root_out = std::fs::canonicalize(&outdir).map(|p| p.to_string_lossy().to_string()).unwrap_or(outdir.clone());
    let _ = std::fs::remove_dir_all(format!("{root_out}/rtrace"));
    for case in 0..cases {
        // ---- observe run ----
        let (r, cfg) = gen_case(seed, case, &focus);
        let weights = weights_for(&focus);
        let dir = format!("/dev/shm/nomt-verif-db-{pid}-{seed}-{case}-obs");
        if let Some(sz) = segsize.as_ref().and_then(|s| s.parse::<u64>().ok()) {
            nomt::verif_hook::set_rollback_segment_size(sz);
        }
        iohook::install(Mode::Observe, Loss::None, None);
        let mut scratch = Sink::new();
        let recs: std::sync::Arc<std::sync::Mutex<Vec<(String, u64, u64, (Map, u32), (Map, u32))>>> = Default::default();
        {
            let recs = recs.clone();
            *crate::db::OP_OBSERVER.lock().unwrap() = Some(Box::new(move |op: &crate::db::OpInfo<'_>| {
                let mut g = recs.lock().unwrap();
                if op.starting {
                    g.push((op.what.to_string(), iohook::begins(), 0, (op.committed.clone(), op.seqn), (Map::new(), 0)));
                } else if let Some(last) = g.last_mut() {
                    last.2 = iohook::begins();
                    last.4 = (op.committed.clone(), op.seqn);
                }
            }));
        }
        let nsteps;
        {
            let mut rr = r.clone();
            let cfgc = cfg.clone();
            nsteps = match crate::db::script_for(&focus) {
                Some(sc) => {
                    let _ = rr.range(nops / 2, nops);
                    sc.len()
                }
                None => rr.range(nops / 2, nops),
            };
            let mut e = Engine::new(rr, &mut scratch, cfgc, dir.clone(), big);
            e.script = crate::db::script_for(&focus);
            for _ in 0..nsteps {
                e.step(&weights);
            }
            e.finish();
        }
        *crate::db::OP_OBSERVER.lock().unwrap() = None;
        let st = iohook::uninstall().unwrap();
        let begins: Vec<&iohook::Ev> = st.log.iter().filter(|e| e.phase == nomt::verif_hook::Phase::Begin).collect();
        let mut infos: Vec<StepInfo> = vec![];
        for (what, b0, b1, pre, post) in recs.lock().unwrap().iter() {
            let mut info = StepInfo { events: b1.saturating_sub(*b0), pre: pre.clone(), post: post.clone(), meta_write_rel: None, kinds: vec![], unsynced: vec![], what: what.clone() };
            for gi in *b0..*b1 {
                if let Some(e) = begins.get(gi as usize) {
                    if e.site == "meta.write" && info.meta_write_rel.is_none() {
                        info.meta_write_rel = Some(gi - b0);
                    }
                    info.kinds.push(format!("{:?}:{}", e.kind, e.site));
                    info.unsynced.push(st.unsynced_at_begin.get(gi as usize).cloned().unwrap_or(0));
                }
            }
            infos.push(info);
        }
        for f in scratch.oracle_failures.iter() {
            out.fail(format!("(observe run) {f}"));
        }
        out.mark_case(format!("case {case} mode={mode} focus={focus} cfg: {}", cfg.describe()));
        // ---- choose steps with I/O ----
        let mut cands: Vec<usize> = (0..infos.len()).filter(|&i| infos[i].events > 0).collect();
        let mut pick_rng = Rng::new(seed * 7919 + case as u64);
        while cands.len() > steps_per_case {
            let i = pick_rng.below(cands.len());
            cands.remove(i);
        }
        for &si in &cands {
            let info = &infos[si];
            let mut keyset: Vec<Key> = info.pre.0.keys().chain(info.post.0.keys()).cloned().collect();
            keyset.sort();
            keyset.dedup();
            keyset.push([0x11; 32]);
            let keys_file = format!("/dev/shm/nomt-verif-db-{pid}-{seed}-{case}-keys");
            std::fs::write(&keys_file, keyset.iter().map(|k| hex(k)).collect::<Vec<_>>().join("\n")).unwrap();
            out.count(&format!("steps_tested_{mode}"));
            out.add("events_in_tested_steps", info.events);
            let mut k = 0u64;
            while k <= info.events {
                let variants: Vec<String> = match mode.as_str() {
                    "power" => {
                        let u = info.unsynced.get(k as usize).cloned().unwrap_or(0);
                        let mut v = vec!["all".to_string(), format!("rand:{}", seed * 31 + k)];
                        if u > 0 && u <= 6 {
                            for j in 0..u {
                                v.push(format!("lose:{j}"));
                            }
                        } else if u > 6 {
                            v.push(format!("lose:{}", k as usize % u));
                            v.push(format!("keep:{}", k as usize % u));
                            v.push(format!("rand:{}", seed * 131 + k));
                        }
                        v
                    }
                    // at event 0 additionally: the whole operation under an OS file-size limit (real EFBIG errors out of the kernel)
                    "fault" if k == 0 => vec!["once".into(), "persistent".into(), "rlimit:ht-half".into(), "rlimit:ht-3q".into(), "rlimit:ln-end".into(), "rlimit:bbn-end".into(), "rlimit:tiny".into(), "rlimit:ln-bump-odd".into(), "rlimit:ln-bump1-odd".into(), "rlimit:bbn-bump-odd".into()],
                    "fault" => vec!["once".into(), "persistent".into()],
                    _ => vec!["none".into()],
                };
                for var in variants {
                    if var.starts_with("rlimit:") {
                        out.count("os_fault_children");
                    }
                    let d = format!("/dev/shm/nomt-verif-db-{pid}-{seed}-{case}-c{si}-{k}");
                    let _ = std::fs::remove_dir_all(&d);
                    let mut cmd = Command::new(&exe);
                    cmd.arg("crash-child")
                        .args(["--seed", &seed.to_string(), "--case", &case.to_string(), "--focus", &focus, "--nsteps", &nsteps.to_string()])
                        .args(["--stop-op", &si.to_string(), "--at", &k.to_string(), "--dir", &d]);
                    if big {
                        cmd.arg("--big");
                    }
                    if let Some(s) = &segsize {
                        cmd.args(["--segsize", s]);
                    }
                    if mode == "fault" {
                        cmd.args(["--fault", &var]);
                    } else {
                        cmd.args(["--loss", &var]);
                    }
                    cmd.stdout(std::process::Stdio::null()).stderr(std::process::Stdio::null());
                    let rc = run_timeout(&mut cmd, 60);
                    let desc = format!(
                        "seed={seed} case={case} nsteps={nsteps} op={si}:{} event={k}/{} ({}) variant={var} cfg=[{}]",
                        info.what,
                        info.events,
                        info.kinds.get(k as usize).cloned().unwrap_or("end".into()),
                        cfg.describe()
                    );
                    out.count("children");
                    let sig = format!("{mode} {desc}");
                    if k > 0 && k < info.events {
                        out.nontrivial(&sig);
                    }
                    let child_rep = std::fs::read_to_string(format!("{d}.child")).unwrap_or_default();
                    match rc {
                        None => {
                            out.fail(format!("C14 HANG: the operation did not return within 60 s: {desc}"));
                            cleanup(&d);
                            continue;
                        }
                        Some(77) => out.count("aborted_at_event"),
                        Some(0) => out.count("completed_without_abort"),
                        Some(c) => {
                            // a panic of the real code escapes as a harness crash
                            out.fail(format!("{} child exited with code {c}: {desc}", if mode == "fault" { "C14" } else { "C03" }));
                            cleanup(&d);
                            continue;
                        }
                    }
                    if mode == "fault" {
                        check_fault(out, &child_rep, &desc, info, k);
                    }
                    if let Some(driver) = &wal_driver {
                        crate::wal::monitor_crash_image(out, driver, &d, &desc);
                    }
                    // ---- reopen (optionally crashing during recovery: nested) ----
                    let rep_file = format!("{d}.report");
                    let dump_cmd = |abort: Option<u64>, report: &str| {
                        let mut c = Command::new(&exe);
                        c.arg("dump").args(["--dir", &d, "--keys", &keys_file, "--report", report])
                            .args(["--buckets", &cfg.buckets.to_string(), "--maxlog", &cfg.maxlog.to_string(), "--cfg-seed", &(seed + k).to_string()]);
                        if let Some(s) = &segsize {
                            c.args(["--segsize", s]);
                        }
                        if let Some(a) = abort {
                            c.args(["--abort-at", &a.to_string()]);
                        }
                        c.stdout(std::process::Stdio::null()).stderr(std::process::Stdio::null());
                        c
                    };
                    if mode == "nested" || mode == "nested-power" {
                        // nested-power: the second crash is a power loss (every effect of the recovery not yet covered
                        // by a completed fsync is reverted, resp. a seeded random half of them)
                        let nlosses: Vec<String> = if mode == "nested" { vec!["none".into()] } else { vec!["all".into(), format!("rand:{}", seed + k)] };
                        let np = if mode == "nested" { "C03" } else { "C04" };
                        for nloss in &nlosses {
                        // crash again at every event of the recovery — each probe starts from a FRESH copy of the
                        // crashed directory (an interrupted recovery changes what the next one has to do) — then
                        // recover that copy for real: it must open and show the same state
                        let mut k2 = 0u64;
                        loop {
                            let dn = format!("{d}.n");
                            let _ = std::fs::remove_dir_all(&dn);
                            if copy_db_files(&d, &dn).is_err() {
                                break;
                            }
                            let rep_n = format!("{dn}.report");
                            let mut c = Command::new(&exe);
                            c.arg("dump").args(["--dir", &dn, "--keys", &keys_file, "--report", &rep_n])
                                .args(["--buckets", &cfg.buckets.to_string(), "--maxlog", &cfg.maxlog.to_string(), "--cfg-seed", &(seed + k).to_string()])
                                .args(["--abort-at", &k2.to_string(), "--loss", nloss]);
                            if let Some(s) = &segsize {
                                c.args(["--segsize", s]);
                            }
                            c.stdout(std::process::Stdio::null()).stderr(std::process::Stdio::null());
                            let rc_n = run_timeout(&mut c, 60);
                            out.count("nested_children");
                            if rc_n != Some(77) {
                                let _ = std::fs::remove_dir_all(&dn);
                                cleanup(&dn);
                                break; // recovery finished without reaching event k2
                            }
                            // recover the interrupted recovery
                            let mut c2 = Command::new(&exe);
                            c2.arg("dump").args(["--dir", &dn, "--keys", &keys_file, "--report", &rep_n])
                                .args(["--buckets", &cfg.buckets.to_string(), "--maxlog", &cfg.maxlog.to_string(), "--cfg-seed", &(seed + k).to_string()]);
                            if let Some(s) = &segsize {
                                c2.args(["--segsize", s]);
                            }
                            c2.stdout(std::process::Stdio::null()).stderr(std::process::Stdio::null());
                            match run_timeout(&mut c2, 60) {
                                Some(0) => {
                                    let rep = parse_report(&rep_n);
                                    let ok = rep.complete && (state_matches(&rep, &info.pre.0, info.pre.1, &keyset) || state_matches(&rep, &info.post.0, info.post.1, &keyset));
                                    if !ok {
                                        out.fail(format!("{np} after a crash (loss={nloss}) at event {k2} of the recovery the store shows neither the state before nor after the operation: {desc}"));
                                    }
                                }
                                None => out.fail(format!("{np} reopening HANGS after a crash (loss={nloss}) at event {k2} of the recovery: {desc}")),
                                Some(3) => {
                                    let why = std::fs::read_to_string(&rep_n).unwrap_or_default();
                                    out.fail(format!("{np} directory does not reopen ({}) after a crash (loss={nloss}) at event {k2} of the recovery that followed {desc}", why.trim().chars().take(160).collect::<String>()));
                                }
                                Some(c) => out.fail(format!("{np} reopening crashes (exit {c}) after a crash (loss={nloss}) at event {k2} of the recovery: {desc}")),
                            }
                            // the recovery of the interrupted recovery is a recovery too: its trace goes to the order monitor
                            if std::path::Path::new(&format!("{rep_n}.rtrace")).exists() {
                                let keep = format!("{root_out}/rtrace");
                                let _ = std::fs::create_dir_all(&keep);
                                let dst = format!("{keep}/c{case}_o{si}_k{k}_n{k2}_{}.txt", nloss.replace(':', "-"));
                                if std::fs::rename(format!("{rep_n}.rtrace"), &dst).is_ok() || std::fs::copy(format!("{rep_n}.rtrace"), &dst).is_ok() {
                                    out.line(format!("recovery {dst}"), "skip".into());
                                    out.count("recovery_traces_nested");
                                }
                                let _ = std::fs::remove_file(format!("{rep_n}.rtrace"));
                            }
                            let _ = std::fs::remove_dir_all(&dn);
                            cleanup(&dn);
                            k2 += 1;
                            if k2 > 200 {
                                break;
                            }
                        }
                        out.add("nested_recovery_events", k2);
                        }
                    }
                    let _ = std::fs::remove_file(format!("{rep_file}.rtrace"));
                    let rc2 = run_timeout(&mut dump_cmd(None, &rep_file), 60);
                    // the recovery's own I/O trace goes to the Lean order monitor (kept in the output directory)
                    if std::path::Path::new(&format!("{rep_file}.rtrace")).exists() {
                        let keep = format!("{root_out}/rtrace");
                        let _ = std::fs::create_dir_all(&keep);
                        let dst = format!("{keep}/c{case}_o{si}_k{k}_{}.txt", var.replace(':', "-"));
                        if std::fs::rename(format!("{rep_file}.rtrace"), &dst).is_ok() || std::fs::copy(format!("{rep_file}.rtrace"), &dst).is_ok() {
                            out.line(format!("recovery {dst}"), "skip".into());
                            out.count("recovery_traces");
                        }
                        let _ = std::fs::remove_file(format!("{rep_file}.rtrace"));
                    }
                    let prop = match mode.as_str() { "power" | "nested-power" => "C04", "fault" => "C14", _ => "C03" };
                    match rc2 {
                        None => out.fail(format!("{prop} reopening HANGS after {desc}")),
                        Some(0) => {
                            let rep = parse_report(&rep_file);
                            let is_pre = state_matches(&rep, &info.pre.0, info.pre.1, &keyset);
                            let is_post = state_matches(&rep, &info.post.0, info.post.1, &keyset);
                            if !rep.complete {
                                out.fail(format!("{prop} reopened store could not be inspected completely after {desc}: {:?}", rep.problems));
                            } else if !is_pre && !is_post {
                                out.fail(format!(
                                    "{prop} state after reopen is neither the state before nor after the operation (root {} seqn {}; pre seqn {} post seqn {}) after {desc}",
                                    rep.root, rep.seqn, info.pre.1, info.post.1
                                ));
                            } else {
                                for m in rep.reopen2.iter() {
                                    out.fail(format!("{m}: {desc}"));
                                }
                                out.count("clean_reopen_after_recovery");
                                if !rep.problems.is_empty() {
                                    out.fail(format!("{prop} reopened store misbehaves after {desc}: {:?}", rep.problems));
                                }
                                // returned success (no abort, no fault) => must be the new state
                                if rc == Some(0) && mode != "fault" && !is_post {
                                    out.fail(format!("{prop} operation returned but the reopened store shows the old state: {desc}"));
                                }
                                // OS-level fault: an operation that REPORTED SUCCESS on a healthy handle must be durable
                                if var.starts_with("rlimit:") && child_rep.starts_with("completed alive=true poisoned=false") {
                                    let seqn_rep: u32 = child_rep.split(' ').find_map(|t| t.strip_prefix("seqn=")).and_then(|x| x.trim().parse().ok()).unwrap_or(0);
                                    if seqn_rep == info.post.1 && info.post.1 != info.pre.1 {
                                        out.count("os_fault_op_succeeded");
                                        if !is_post {
                                            out.fail(format!("C14 operation reported success under an OS write limit but the reopened store shows the old state (a failed write was swallowed): {desc}"));
                                        }
                                    }
                                }
                                if is_post && !is_pre {
                                    out.count("reopened_post");
                                } else if is_pre && !is_post {
                                    out.count("reopened_pre");
                                } else {
                                    out.count("reopened_pre_equals_post");
                                }
                                if let Some(mw) = info.meta_write_rel {
                                    if k > mw + 1 && is_pre && !is_post && mode == "crash" {
                                        out.count("pre_state_after_meta_fsync");
                                    }
                                }
                                // follow-up commit behaves as in the model
                                let base = if is_post { &info.post.0 } else { &info.pre.0 };
                                let mut m = base.clone();
                                m.insert([0xA5; 32], vec![0x5A; 77]);
                                let expect = hex(&ref_root(&m.iter().map(|(k, v)| (*k, vhash(v))).collect::<Vec<_>>()));
                                let followup_ok = matches!(&rep.followup, Some((a, b)) if *a == expect && *b == expect);
                                match &rep.followup {
                                    Some((a, b)) if *a == expect && *b == expect => out.count("followup_ok"),
                                    other => out.fail(format!("{prop} follow-up commit after recovery gives {:?}, expected root {expect}: {desc}", other)),
                                }
                                // C16 on recovered crash images: the directory as recovery + one more commit left it must
                                // decode (Lean image monitor: page ownership, key order, every stored merkle page = nodeAt,
                                // table well-formed) to exactly the state the API reported
                                if let (Some(driver), true) = (&image_driver, followup_ok) {
                                    let exp = format!("{d}.expected");
                                    let body: String = m.iter().map(|(k, v)| format!("{} {} {}\n", hex(k), hex(&vhash(v)), v.len())).collect();
                                    let _ = std::fs::write(&exp, body);
                                    // C19: what the RECOVERING handle reports as occupancy (after its follow-up commit) must be the number of
                                    // full buckets of the table it leaves behind (the driver compares `occupied.txt` with its own count)
                                    if let Some(o) = rep.occupied {
                                        let _ = std::fs::write(format!("{d}/occupied.txt"), o.to_string());
                                        out.count("recovered_occupancy_compared");
                                    }
                                    let res = Command::new(driver)
                                        .arg("image")
                                        .stdin(std::process::Stdio::piped())
                                        .stdout(std::process::Stdio::piped())
                                        .stderr(std::process::Stdio::null())
                                        .spawn()
                                        .and_then(|mut c| {
                                            use std::io::Write;
                                            c.stdin.take().unwrap().write_all(format!("check {d} {exp}\n").as_bytes())?;
                                            c.wait_with_output()
                                        });
                                    out.count("recovered_images_checked");
                                    match res {
                                        Ok(o) => {
                                            let line = String::from_utf8_lossy(&o.stdout).lines().next().unwrap_or("").to_string();
                                            if line.starts_with("ok ") {
                                                out.count("recovered_images_ok");
                                                if line.contains("ln_leaked=0") && line.contains("bbn_leaked=0") {
                                                } else {
                                                    out.count("recovered_images_with_leaked_pages");
                                                }
                                            } else if line.starts_with("bad occupancy") {
                                                out.fail(format!("C19 occupancy reported by the handle that recovered the directory: {} after {desc}", line.chars().take(300).collect::<String>()));
                                            } else {
                                                out.fail(format!("C16 image monitor on the recovered directory: {} after {desc}", line.chars().take(300).collect::<String>()));
                                            }
                                        }
                                        Err(e) => out.fail(format!("C16 image driver could not be run: {e}")),
                                    }
                                    let _ = std::fs::remove_file(&exp);
                                }
                            }
                        }
                        Some(3) => {
                            let why = std::fs::read_to_string(&rep_file).unwrap_or_default();
                            out.fail(format!("{prop} directory does not reopen ({}) after {desc}", why.trim().chars().take(200).collect::<String>()));
                        }
                        Some(c) => out.fail(format!("{prop} reopening crashes (exit {c}) after {desc}")),
                    }
                    cleanup(&d);
                }
                k += stride;
            }
            let _ = std::fs::remove_file(&keys_file);
        }
        out.samples.push(format!("case {case}: events per operation {:?}, tested operations {:?}; e.g. operation {} issues {:?}",
            infos.iter().map(|i| i.events).collect::<Vec<_>>(), cands,
            cands.first().cloned().unwrap_or(0),
            cands.first().map(|&i| infos[i].kinds.iter().take(12).cloned().collect::<Vec<_>>()).unwrap_or_default()));
    }
}

fn cleanup(d: &str) {
    let _ = std::fs::remove_dir_all(d);
    if std::env::var("VH_KEEP_REPORTS").is_ok() {
        return; // debugging aid: keep the children's report files
    }
    for ext in ["trace", "trace2", "child", "report", "report.rtrace"] {
        let _ = std::fs::remove_file(format!("{d}.{ext}"));
    }
}

/// C14: an injected I/O failure must be reported (the step's commit must not succeed silently), poison
/// the handle, and leave the directory in the pre or post state (checked by the caller).
fn check_fault(out: &mut Sink, child_rep: &str, desc: &str, info: &StepInfo, _k: u64) {
    let first = child_rep.lines().next().unwrap_or("");
    if !first.starts_with("completed") {
        out.fail(format!("C14 child left no report: {desc}"));
        return;
    }
    let get = |name: &str| first.split(' ').find_map(|t| t.strip_prefix(&format!("{name}="))).unwrap_or("").to_string();
    let injected: u64 = get("injected").parse().unwrap_or(0);
    if injected == 0 {
        out.count("fault_not_reached");
        return;
    }
    out.count("faults_injected");
    let poisoned = get("poisoned") == "true";
    let alive = get("alive") == "true";
    let seqn: u32 = get("seqn").parse().unwrap_or(0);
    // The engine's own oracle reports "commit ... refused" as a failure because it expected success;
    // with a fault injected that *is* the expected outcome.  What must not happen: the operation
    // reporting success (oracle seqn advanced to post) while an I/O error was injected and swallowed,
    // or an error without the handle being poisoned.
    let reported_ok = seqn == info.post.1 && info.post.1 != info.pre.1;
    if reported_ok && !poisoned {
        out.fail(format!("C14 injected I/O error was swallowed: the operation reported success and the handle is not poisoned: {desc}"));
    } else if !reported_ok && alive && !poisoned {
        out.fail(format!("C14 operation failed on an injected I/O error but the handle is not poisoned: {desc}"));
    } else {
        out.count("fault_reported_and_poisoned");
    }
    for l in child_rep.lines().skip(1) {
        if l.contains("PANIC") {
            out.fail(format!("C14 panic instead of an error on injected I/O failure: {} :: {desc}", l.chars().take(160).collect::<String>()));
        }
    }
}


/// `churn-child`: fill / empty cycles with fresh key clusters on a tiny hash table, reopening after
/// every cycle; progress is appended to `<dir>.progress` so that the parent can tell where a hang occurred.
pub fn churn_child(args: &[String]) -> i32 {
    let dir = arg(args, "--dir").unwrap();
    let buckets: u32 = arg(args, "--buckets").and_then(|s| s.parse().ok()).unwrap_or(128);
    let cycles: usize = arg(args, "--cycles").and_then(|s| s.parse().ok()).unwrap_or(60);
    let seed: u64 = arg(args, "--seed").and_then(|s| s.parse().ok()).unwrap_or(1);
    let _ = std::fs::remove_dir_all(&dir);
    let mut rng = Rng::new(seed);
    let mut cfg = DbCfg::gen(&mut rng);
    cfg.buckets = buckets;
    cfg.workers = 2;
    cfg.rollback = false;
    let progress = format!("{dir}.progress");
    let log = |s: String| {
        use std::io::Write;
        if let Ok(mut f) = std::fs::OpenOptions::new().create(true).append(true).open(&progress) {
            let _ = writeln!(f, "{s}");
        }
    };
    let mut db: Option<Nomt<Blake3Hasher>> = None;
    for c in 0..cycles {
        log(format!("cycle {c} open"));
        if db.is_none() {
            match Nomt::open(cfg.options(&dir)) {
                Ok(d) => db = Some(d),
                Err(e) => {
                    log(format!("OPENFAIL {e:#}"));
                    return 3;
                }
            }
        }
        let d = db.as_ref().unwrap();
        // a fresh dense cluster: 24 keys under a random 12-bit prefix => a few pages below the root
        let mut keys: Vec<Key> = Vec::new();
        for _ in 0..3 {
            let base = rng.bytes32();
            let depth = [6usize, 12, 18][rng.below(3)];
            for _ in 0..24 {
                keys.push(with_prefix(&mut rng, &base, depth));
            }
        }
        keys.sort();
        keys.dedup();
        log(format!("cycle {c} fill"));
        let s = d.begin_session(SessionParams::default());
        let fin = match s.finish(keys.iter().map(|k| (*k, KeyReadWrite::Write(Some(vec![1u8; 8])))).collect()) {
            Ok(f) => f,
            Err(e) => {
                log(format!("FINISHERR {e:#}"));
                return 4;
            }
        };
        let root = fin.root().into_inner();
        if let Err(e) = fin.commit(d) {
            // bucket exhaustion is a legitimate, reported outcome on a tiny table
            log(format!("COMMITERR cycle {c} {e:#} poisoned={}", d.is_poisoned()));
            return 0;
        }
        let expect = ref_root(&keys.iter().map(|k| (*k, vhash(&[1u8; 8]))).collect::<Vec<_>>());
        if root != expect {
            log(format!("ROOTBAD cycle {c}"));
        }
        log(format!("cycle {c} empty"));
        let s = d.begin_session(SessionParams::default());
        let fin = s.finish(keys.iter().map(|k| (*k, KeyReadWrite::Write(None))).collect()).unwrap();
        if let Err(e) = fin.commit(d) {
            log(format!("COMMITERR cycle {c} {e:#}"));
            return 0;
        }
        let occ = d.hash_table_utilization().occupied;
        if occ != 0 || !d.root().is_empty() {
            log(format!("NOTEMPTY cycle {c} occupied={occ}"));
        }
        log(format!("cycle {c} close"));
        db = None;
    }
    log("DONE".into());
    0
}

/// C10 / C14 / C19: no sequence of commits makes the store hang or fail to reopen — tombstone churn on
/// tiny tables, under a watchdog.
pub fn churn(args: &[String], out: &mut Sink) {
    let seed: u64 = arg(args, "--seed").and_then(|s| s.parse().ok()).unwrap_or(1);
    let cases: usize = arg(args, "--cases").and_then(|s| s.parse().ok()).unwrap_or(2);
    let cycles: usize = arg(args, "--cycles").and_then(|s| s.parse().ok()).unwrap_or(60);
    let exe = std::env::current_exe().unwrap();
    let pid = std::process::id();
    for case in 0..cases {
        let buckets = [100u32, 128, 250, 64][case % 4];
        let d = format!("/dev/shm/nomt-verif-db-{pid}-churn-{seed}-{case}");
        let _ = std::fs::remove_file(format!("{d}.progress"));
        let mut cmd = Command::new(&exe);
        cmd.arg("churn-child").args(["--dir", &d, "--buckets", &buckets.to_string(), "--cycles", &cycles.to_string(), "--seed", &(seed * 100 + case as u64).to_string()]);
        cmd.stdout(std::process::Stdio::null()).stderr(std::process::Stdio::null());
        let rc = run_timeout(&mut cmd, 40);
        let prog = std::fs::read_to_string(format!("{d}.progress")).unwrap_or_default();
        let last = prog.lines().last().unwrap_or("").to_string();
        let ncycles = prog.lines().filter(|l| l.ends_with("close")).count();
        out.mark_case(format!("churn case {case} buckets={buckets}"));
        out.add("churn_cycles_completed", ncycles as u64);
        out.add("evaluations", 3 * ncycles as u64);
        out.count("churn_runs");
        out.nontrivial(&format!("churn {seed} {case}"));
        out.nontrivial(&format!("churn-b {seed} {case} {ncycles}"));
        match rc {
            None => out.fail(format!("C10 HANG: store with a {buckets}-bucket table stops responding after {ncycles} fill/empty cycles (last step: {last})")),
            Some(0) => {
                for l in prog.lines() {
                    if l.starts_with("ROOTBAD") || l.starts_with("NOTEMPTY") {
                        out.fail(format!("C19 {l} (buckets={buckets})"));
                    }
                    if l.starts_with("COMMITERR") {
                        out.count("churn_bucket_exhaustion_reported");
                    }
                }
            }
            Some(c) => out.fail(format!("C10 churn child failed (exit {c}) after {ncycles} cycles: {last} (buckets={buckets})")),
        }
        out.samples.push(format!("churn buckets={buckets}: {ncycles} cycles completed, last step: {last}"));
        cleanup(&d);
        let _ = std::fs::remove_file(format!("{d}.progress"));
    }
}


fn copy_db_files(src: &str, dst: &str) -> std::io::Result<()> {
    std::fs::create_dir_all(dst)?;
    for ent in std::fs::read_dir(src)? {
        let ent = ent?;
        let name = ent.file_name().to_string_lossy().to_string();
        if name == "meta" || name == "ln" || name == "bbn" || name == "ht" || name == "wal" || name.starts_with("rollback.") {
            // zero pages become holes: the hash table file is mostly empty and tmpfs copies count as memory
            crate::image::sparse_copy(&ent.path(), std::path::Path::new(&format!("{dst}/{name}")))?;
        }
    }
    Ok(())
}

#[derive(Default, Clone)]
struct OldMetaLine {
    dir: String,
    what: String,
    pre_keys: usize,
    meta_changed: bool,
    ln_changed_below: usize,
    bbn_changed_below: usize,
    ln_beyond: usize,
    bbn_beyond: usize,
    page0_changed: bool,
    shrunk: bool,
}

/// pages of `post` that differ from `pre`: (below `bump`, at or beyond `bump` and not all zero, page 0 differs, post shorter)
fn page_diff(pre: &[u8], post: &[u8], bump: usize) -> (usize, usize, bool, bool) {
    let (mut below, mut beyond) = (0, 0);
    let np = post.len() / 4096;
    for pn in 0..np {
        let b = &post[pn * 4096..(pn + 1) * 4096];
        let a = if (pn + 1) * 4096 <= pre.len() { Some(&pre[pn * 4096..(pn + 1) * 4096]) } else { None };
        if a == Some(b) {
            continue;
        }
        if pn < bump {
            below += 1;
        } else if b.iter().any(|x| *x != 0) {
            beyond += 1;
        }
    }
    let p0 = pre.len() >= 4096 && post.len() >= 4096 && pre[..4096] != post[..4096];
    (below, beyond, p0, post.len() < pre.len())
}

/// C17 / C04 (content level): the directory `<snap>/om` = the `ln` and `bbn` files as they are AFTER the operation
/// with the `meta` page as it was BEFORE it, and the committed map as it was before it (`expected.txt`).  The Lean
/// driver decodes it (`placement-oldmeta <dir>`): it must pass the beatree part of `wfImage` and abstract to the
/// PRE state — i.e. no page the previous state reads was touched by the operation.
fn old_meta_dir(live: &str, snap: &str, pre: &crate::db::Map, maxlog: u32) -> std::io::Result<OldMetaLine> {
    use std::io::Write;
    let om = format!("{snap}/om");
    std::fs::create_dir_all(&om)?;
    std::fs::copy(format!("{snap}/meta"), format!("{om}/meta"))?;
    let meta_pre = std::fs::read(format!("{snap}/meta"))?;
    let meta_post = std::fs::read(format!("{live}/meta"))?;
    let u32at = |b: &[u8], o: usize| -> usize { if b.len() >= o + 4 { u32::from_le_bytes([b[o], b[o + 1], b[o + 2], b[o + 3]]) as usize } else { 0 } };
    let (ln_bump, bbn_bump) = (u32at(&meta_pre, 12), u32at(&meta_pre, 20));
    // the files are pre-allocated (tens of MiB of zero pages): the copy keeps every page up to the last page that is
    // not all zero, and at least the pages below the old allocation frontier (the decoder reads nothing beyond it)
    let trimmed = |name: &str, bump: usize| -> std::io::Result<(Vec<u8>, Vec<u8>, bool)> {
        use std::io::Read;
        use std::os::unix::fs::FileExt;
        let mut post = std::fs::read(format!("{live}/{name}"))?;
        let full = post.len();
        let mut np = post.len() / 4096;
        while np > bump && post[(np - 1) * 4096..np * 4096].iter().all(|b| *b == 0) {
            np -= 1;
        }
        post.truncate((np * 4096).min(full));
        let f = std::fs::File::create(format!("{om}/{name}"))?;
        f.set_len(post.len() as u64)?;
        for pn in 0..post.len() / 4096 {
            let pg = &post[pn * 4096..(pn + 1) * 4096];
            if pg.iter().any(|b| *b != 0) {
                f.write_all_at(pg, (pn * 4096) as u64)?;
            }
        }
        let pre_len = std::fs::metadata(format!("{snap}/{name}"))?.len() as usize;
        let mut pre = vec![];
        std::fs::File::open(format!("{snap}/{name}"))?.take(post.len() as u64).read_to_end(&mut pre)?;
        Ok((pre, post, full < pre_len))
    };
    // rollback-log side: the segments as they were before (pre/) and as they are after the operation, and the POST meta page
    std::fs::create_dir_all(format!("{om}/pre"))?;
    std::fs::write(format!("{om}/meta.post"), &meta_post)?;
    std::fs::write(format!("{om}/maxlog.txt"), maxlog.to_string())?;
    for (src, dst) in [(snap.to_string(), format!("{om}/pre")), (live.to_string(), om.clone())] {
        for ent in std::fs::read_dir(&src)? {
            let ent = ent?;
            let name = ent.file_name().to_string_lossy().to_string();
            if name.starts_with("rollback.") {
                crate::image::sparse_copy(&ent.path(), std::path::Path::new(&format!("{dst}/{name}")))?;
            }
        }
    }
    let (ln_pre, ln_post, ln_shrunk) = trimmed("ln", ln_bump)?;
    let (bbn_pre, bbn_post, bbn_shrunk) = trimmed("bbn", bbn_bump)?;
    let mut f = std::io::BufWriter::new(std::fs::File::create(format!("{om}/expected.txt"))?);
    for (k, v) in pre.iter() {
        writeln!(f, "{} {} {}", crate::util::hex(k), crate::util::hex(&crate::db::vhash(v)), v.len())?;
    }
    f.flush()?;
    let (lb, ly, l0, _) = page_diff(&ln_pre, &ln_post, ln_bump);
    let (bb, by, b0, _) = page_diff(&bbn_pre, &bbn_post, bbn_bump);
    let (ls, bs) = (ln_shrunk, bbn_shrunk);
    Ok(OldMetaLine {
        dir: om,
        what: String::new(),
        pre_keys: pre.len(),
        meta_changed: meta_pre != meta_post,
        ln_changed_below: lb,
        bbn_changed_below: bb,
        ln_beyond: ly,
        bbn_beyond: by,
        page0_changed: l0 || b0,
        shrunk: ls || bs,
    })
}

/// C17: for every state-changing operation of generated histories, snapshot the directory BEFORE the
/// operation, record the ordered I/O events the operation issues, and hand both to the Lean placement
/// monitor (`placement <snapshot>`), which decodes the snapshot independently and checks that nothing
/// the previous state references is overwritten / truncated / unlinked before the meta page is written.
pub fn placement(args: &[String], out: &mut Sink) {
    let seed: u64 = arg(args, "--seed").and_then(|s| s.parse().ok()).unwrap_or(1);
    let cases: usize = arg(args, "--cases").and_then(|s| s.parse().ok()).unwrap_or(4);
    let focus = arg(args, "--focus").unwrap_or("general".into());
    let nops: usize = arg(args, "--nops").and_then(|s| s.parse().ok()).unwrap_or(12);
    let scale: usize = arg(args, "--scale").and_then(|s| s.parse().ok()).unwrap_or(1);
    let outdir = arg(args, "--out").unwrap_or("work/out".into());
    let big = args.iter().any(|a| a == "--big");
    // `--oldmeta`: emit the old-meta monitor lines (`placement-oldmeta <dir>`) INSTEAD of the placement / order lines
    let oldmeta = args.iter().any(|a| a == "--oldmeta");
    let _ = std::fs::create_dir_all(&outdir);
    let root = std::fs::canonicalize(&outdir).map(|p| p.to_string_lossy().to_string()).unwrap_or(outdir.clone());
    let _ = std::fs::remove_dir_all(format!("{root}/psnap"));
    let pid = std::process::id();
    let weights = weights_for(&focus);
    for case in 0..cases {
        let (r, cfg) = gen_case(seed, case, &focus);
        let dir = format!("/dev/shm/nomt-verif-db-{pid}-{seed}-{case}-place");
        iohook::install(Mode::Observe, Loss::None, None);
        let mut scratch = Sink::new();
        let lines: std::sync::Arc<std::sync::Mutex<Vec<(String, String, usize)>>> = Default::default();
        let om_lines: std::sync::Arc<std::sync::Mutex<Vec<OldMetaLine>>> = Default::default();
        {
            let lines = lines.clone();
            let om_lines = om_lines.clone();
            let maxlog = cfg.maxlog;
            let mut pre_map: Option<crate::db::Map> = None;
            let dir = dir.clone();
            let root = root.clone();
            let mut start_idx = 0u64;
            let mut snap = String::new();
            let mut n = 0usize;
            *crate::db::OP_OBSERVER.lock().unwrap() = Some(Box::new(move |op: &crate::db::OpInfo<'_>| {
                if op.starting {
                    snap = format!("{root}/psnap/c{case}_{n}");
                    n += 1;
                    start_idx = iohook::begins();
                    if copy_db_files(&dir, &snap).is_err() {
                        snap.clear();
                    }
                    pre_map = if oldmeta { Some(op.committed.clone()) } else { None };
                } else if !snap.is_empty() {
                    if let Some(pm) = pre_map.take() {
                        match old_meta_dir(&dir, &snap, &pm, maxlog) {
                            Ok(l) => om_lines.lock().unwrap().push(OldMetaLine { what: op.what.to_string(), ..l }),
                            Err(e) => om_lines.lock().unwrap().push(OldMetaLine { dir: String::new(), what: format!("{}: {e}", op.what), ..Default::default() }),
                        }
                    }
                    let tr = iohook::trace_lines_since(start_idx);
                    let nev = tr.iter().filter(|l| l.contains(" Begin ")).count();
                    let _ = std::fs::write(format!("{snap}/trace.txt"), tr.join("\n") + "\n");
                    lines.lock().unwrap().push((snap.clone(), op.what.to_string(), nev));
                }
            }));
        }
        {
            let mut rr = r.clone();
            let mut nsteps = rr.range(nops / 2, nops);
            let mut e = Engine::new(rr, &mut scratch, cfg.clone(), dir.clone(), big);
            if scale > 1 {
                e.scale = scale;
                let extra = gen_keyset(&mut e.rng, 40 * scale);
                e.pool.extend(extra);
            }
            e.script = crate::db::script_for(&focus);
            if let Some(s) = &e.script {
                nsteps = s.len();
            }
            for _ in 0..nsteps {
                e.step(&weights);
            }
            e.finish();
        }
        *crate::db::OP_OBSERVER.lock().unwrap() = None;
        let _ = iohook::uninstall();
        for f in scratch.oracle_failures.iter() {
            out.fail(format!("(placement history) {f}"));
        }
        out.mark_case(format!("case {case} placement focus={focus} cfg: {}", cfg.describe()));
        if oldmeta {
            for l in om_lines.lock().unwrap().iter() {
                if l.dir.is_empty() {
                    out.fail(format!("C17 old-meta monitor: the old-meta directory could not be built ({})", l.what));
                    continue;
                }
                out.line(format!("placement-oldmeta {}", l.dir), "skip".into());
                out.count("oldmeta_checks");
                out.count(&format!("oldmeta_ops_{}", l.what));
                out.add("oldmeta_pre_keys", l.pre_keys as u64);
                out.add("oldmeta_ln_pages_changed_below_old_bump", l.ln_changed_below as u64);
                out.add("oldmeta_bbn_pages_changed_below_old_bump", l.bbn_changed_below as u64);
                out.add("oldmeta_ln_pages_written_beyond_old_bump", l.ln_beyond as u64);
                out.add("oldmeta_bbn_pages_written_beyond_old_bump", l.bbn_beyond as u64);
                if l.meta_changed {
                    out.count("oldmeta_switch_overs");
                }
                if l.ln_changed_below + l.bbn_changed_below > 0 {
                    out.count("oldmeta_ops_reusing_old_pages");
                }
                // harness-side oracle, independent of the Lean decoder: the reserved page 0 of ln / bbn never changes and
                // the files never shrink
                if l.page0_changed || l.shrunk {
                    out.fail(format!("C17 old-meta oracle: {} page0_changed={} shrunk={} ({})", l.dir, l.page0_changed, l.shrunk, l.what));
                }
                if l.meta_changed && (l.ln_changed_below + l.bbn_changed_below + l.ln_beyond + l.bbn_beyond > 0) {
                    out.nontrivial(&l.dir);
                }
                if out.samples.len() < 3 {
                    out.samples.push(format!("placement-oldmeta {} [{}, pre_keys={}, changed below old bump ln={} bbn={}, beyond ln={} bbn={}]",
                        l.dir, l.what, l.pre_keys, l.ln_changed_below, l.bbn_changed_below, l.ln_beyond, l.bbn_beyond));
                }
            }
            continue;
        }
        for (snap, what, nev) in lines.lock().unwrap().iter() {
            out.line(format!("placement {snap}"), "skip".into());
            out.count(&format!("ops_{what}"));
            out.add("events_traced", *nev as u64);
            if *nev > 0 {
                out.nontrivial(&format!("{snap}"));
            }
            if out.samples.len() < 3 {
                out.samples.push(format!("placement {snap} [{what}, {nev} events]"));
            }
        }
    }
}
