//! C08 / C18 (path-proof part): adversarial differential of `PathProof::verify`, `confirm_*` and
//! `verify_update` against the Lean mirrors, plus a truth oracle (the key-value set itself).
use crate::util::*;
use bitvec::prelude::*;
use nomt_core::hasher::Blake3Hasher;
use nomt_core::proof::{verify_update, PathProof, PathProofTerminal, PathUpdate, VerifiedPathProof};
use nomt_core::trie::{LeafData, Node};
use nomt_core::trie_pos::TriePosition;
use std::panic::{catch_unwind, AssertUnwindSafe};

pub type KV = Vec<(Key, [u8; 32])>;

pub fn terminal_of(t: &RefTerminal, key: &Key) -> PathProofTerminal {
    match t {
        RefTerminal::Leaf(k, v) => PathProofTerminal::Leaf(LeafData { key_path: *k, value_hash: *v }),
        RefTerminal::Terminator(d) => PathProofTerminal::Terminator(pos_of(key, *d)),
    }
}
pub fn pos_of(key: &Key, d: usize) -> TriePosition {
    if d == 0 {
        TriePosition::new()
    } else {
        TriePosition::from_path_and_depth(*key, d as u16)
    }
}
pub fn term_str(t: &PathProofTerminal) -> String {
    match t {
        PathProofTerminal::Leaf(l) => format!("L:{}:{}", hex(&l.key_path), hex(&l.value_hash)),
        PathProofTerminal::Terminator(p) => {
            let path = p.path();
            if path.is_empty() {
                "T:-".into()
            } else {
                format!("T:{}", path.iter().map(|b| if *b { '1' } else { '0' }).collect::<String>())
            }
        }
    }
}
pub fn bitslice_str(b: &BitSlice<u8, Msb0>) -> String {
    if b.is_empty() {
        "-".into()
    } else {
        b.iter().map(|b| if *b { '1' } else { '0' }).collect()
    }
}

pub fn gen_kv(rng: &mut Rng, max: usize) -> KV {
    gen_keyset(rng, max).into_iter().map(|k| (k, rng.bytes32())).collect()
}

fn lookup(kv: &KV, k: &Key) -> Option<[u8; 32]> {
    kv.binary_search_by(|(x, _)| x.cmp(k)).ok().map(|i| kv[i].1)
}

/// query keys: present keys, absent keys diverging from a present key at an interesting depth,
/// random keys.
pub fn gen_query(rng: &mut Rng, kv: &KV) -> Key {
    if kv.is_empty() || rng.chance(1, 5) {
        return rng.bytes32();
    }
    let base = rng.pick(kv).0;
    match rng.below(3) {
        0 => base,
        1 => {
            let d = interesting_depth(rng);
            diverge_at(rng, &base, d)
        }
        _ => {
            // diverge just below / at the terminal depth of base
            let (_, sibs) = ref_prove(kv, &base);
            let d = (sibs.len() + rng.below(3)).min(255);
            diverge_at(rng, &base, d)
        }
    }
}

pub fn verify_line(
    out: &mut Sink,
    reg: usize,
    proof: &PathProof,
    kbits: &BitSlice<u8, Msb0>,
    root: Node,
) -> Option<VerifiedPathProof> {
    let op = format!(
        "pverify {} {} {} {} {}",
        reg,
        hex(&root),
        bitslice_str(kbits),
        term_str(&proof.terminal),
        nodes_line(&proof.siblings)
    );
    let r = catch_unwind(AssertUnwindSafe(|| proof.verify::<Blake3Hasher>(kbits, root)));
    match r {
        Ok(Ok(v)) => {
            let t = match v.terminal() {
                Some(l) => format!("L:{}:{}", hex(&l.key_path), hex(&l.value_hash)),
                None => "T".into(),
            };
            out.line(op, format!("ok {} {}", bitslice_str(v.path()), t));
            out.count("verify_ok");
            Some(v)
        }
        Ok(Err(e)) => {
            out.line(op, format!("err {:?}", e));
            out.count(&format!("verify_err_{:?}", e));
            None
        }
        Err(_) => {
            out.line(op, "panic".into());
            out.count("verify_panic");
            out.fail(format!("PANIC in PathProof::verify: {}", out.ops.last().unwrap()));
            None
        }
    }
}

fn mutate(rng: &mut Rng, kv: &KV, proof: &mut PathProof, key: &Key) -> &'static str {
    match rng.below(12) {
        0 if !proof.siblings.is_empty() => {
            let i = rng.below(proof.siblings.len());
            let b = rng.below(256);
            proof.siblings[i][b / 8] ^= 1 << (b % 8);
            "flip_sibling_bit"
        }
        1 if !proof.siblings.is_empty() => {
            proof.siblings.pop();
            "drop_last_sibling"
        }
        2 if !proof.siblings.is_empty() => {
            proof.siblings.remove(0);
            "drop_first_sibling"
        }
        3 => {
            let n = if rng.chance(1, 4) { [0u8; 32] } else { rng.bytes32() };
            let at = rng.below(proof.siblings.len() + 1);
            proof.siblings.insert(at, n);
            "add_sibling"
        }
        4 if proof.siblings.len() >= 2 => {
            let i = rng.below(proof.siblings.len() - 1);
            proof.siblings.swap(i, i + 1);
            "swap_siblings"
        }
        5 => {
            if let PathProofTerminal::Leaf(l) = &mut proof.terminal {
                l.value_hash = rng.bytes32();
                "leaf_value"
            } else {
                proof.terminal =
                    PathProofTerminal::Leaf(LeafData { key_path: *key, value_hash: rng.bytes32() });
                "terminator_to_leaf"
            }
        }
        6 => {
            if let PathProofTerminal::Leaf(l) = &mut proof.terminal {
                let d = proof.siblings.len().min(255);
                l.key_path = if rng.chance(1, 2) { with_prefix(rng, key, d) } else { *key };
                "leaf_key"
            } else if !kv.is_empty() {
                let (k, v) = *rng.pick(kv);
                proof.terminal = PathProofTerminal::Leaf(LeafData { key_path: k, value_hash: v });
                "terminator_to_real_leaf"
            } else {
                "none"
            }
        }
        7 => {
            let d = proof.siblings.len();
            proof.terminal = PathProofTerminal::Terminator(pos_of(key, d.min(256)));
            "to_terminator"
        }
        8 => {
            // 257+ siblings
            let extra = 257usize.saturating_sub(proof.siblings.len()) + rng.below(3);
            for _ in 0..extra {
                proof.siblings.push(rng.bytes32());
            }
            "too_many_siblings"
        }
        9 if !proof.siblings.is_empty() => {
            let i = rng.below(proof.siblings.len());
            proof.siblings[i] = [0u8; 32];
            "zero_sibling"
        }
        10 if !proof.siblings.is_empty() => {
            let n = rng.below(proof.siblings.len());
            proof.siblings.truncate(n);
            "truncate_siblings"
        }
        _ => "none",
    }
}

fn confirm_queries(rng: &mut Rng, out: &mut Sink, reg: usize, kv: &KV, truth: bool, v: &VerifiedPathProof, key: &Key) {
    let mut leaves: Vec<(Key, [u8; 32])> = Vec::new();
    if let Some(l) = v.terminal() {
        leaves.push((l.key_path, l.value_hash));
        leaves.push((l.key_path, rng.bytes32()));
    }
    leaves.push((*key, lookup(kv, key).unwrap_or_else(|| rng.bytes32())));
    leaves.push((*key, rng.bytes32()));
    let plen = v.path().len();
    leaves.push((with_prefix(rng, key, plen), rng.bytes32()));
    if plen > 0 {
        let dd = rng.below(plen);
        leaves.push((diverge_at(rng, key, dd), rng.bytes32()));
    }
    if !kv.is_empty() {
        leaves.push(*rng.pick(kv));
    }
    for (k, vh) in leaves {
        let leaf = LeafData { key_path: k, value_hash: vh };
        let r = catch_unwind(AssertUnwindSafe(|| v.confirm_value(&leaf)));
        let s = match r {
            Ok(Ok(b)) => {
                if truth {
                    let is_in = lookup(kv, &k) == Some(vh);
                    if b != is_in {
                        out.fail(format!(
                            "FALSE STATEMENT confirm_value({},{})={} but membership={} after {}",
                            hex(&k), hex(&vh), b, is_in, out.ops.last().unwrap()
                        ));
                    }
                    out.count("confirm_checked_vs_truth");
                }
                b.to_string()
            }
            Ok(Err(_)) => "oos".into(),
            Err(_) => {
                out.fail("PANIC in confirm_value".into());
                "panic".into()
            }
        };
        out.line(format!("cvalue {} {} {}", reg, hex(&k), hex(&vh)), s);
        let r = catch_unwind(AssertUnwindSafe(|| v.confirm_nonexistence(&k)));
        let s = match r {
            Ok(Ok(b)) => {
                if truth {
                    let absent = lookup(kv, &k).is_none();
                    if b != absent {
                        out.fail(format!(
                            "FALSE STATEMENT confirm_nonexistence({})={} but absent={} after {}",
                            hex(&k), b, absent, out.ops.last().unwrap()
                        ));
                    }
                    out.count("confirm_checked_vs_truth");
                }
                b.to_string()
            }
            Ok(Err(_)) => "oos".into(),
            Err(_) => {
                out.fail("PANIC in confirm_nonexistence".into());
                "panic".into()
            }
        };
        out.line(format!("cnon {} {}", reg, hex(&k)), s);
    }
}

/// ops in scope of a terminal path (prefix = first `plen` bits of `key`)
pub fn gen_ops_in_scope(rng: &mut Rng, kv: &KV, key: &Key, plen: usize, leaf: Option<Key>) -> Vec<(Key, Option<[u8; 32]>)> {
    let mut ops: Vec<(Key, Option<[u8; 32]>)> = Vec::new();
    let n = rng.range(1, 4);
    for _ in 0..n {
        let k = match rng.below(4) {
            0 if leaf.is_some() => leaf.unwrap(),
            1 => *key,
            2 => {
                // close neighbour: shares many bits
                let d = (plen + rng.below(256 - plen.min(255))).min(255);
                let base = leaf.unwrap_or(*key);
                let mut k = diverge_at(rng, &base, d.max(plen).min(255));
                for i in 0..plen {
                    set_bit(&mut k, i, bit(key, i));
                }
                k
            }
            _ => with_prefix(rng, key, plen),
        };
        let v = if rng.chance(1, 3) { None } else { Some(rng.bytes32()) };
        ops.push((k, v));
    }
    let _ = kv;
    ops.sort_by(|a, b| a.0.cmp(&b.0));
    ops.dedup_by(|a, b| a.0 == b.0);
    ops
}

fn apply_ops(kv: &KV, ops: &[(Key, Option<[u8; 32]>)]) -> KV {
    let mut m: std::collections::BTreeMap<Key, [u8; 32]> = kv.iter().cloned().collect();
    for (k, v) in ops {
        match v {
            Some(v) => {
                m.insert(*k, *v);
            }
            None => {
                m.remove(k);
            }
        }
    }
    m.into_iter().collect()
}

fn update_case(rng: &mut Rng, out: &mut Sink, kv: &KV, root: Node) {
    // pick terminals
    let nq = rng.range(1, 5);
    let mut items: Vec<(Key, usize, Option<Key>, PathProof)> = Vec::new();
    for _ in 0..nq {
        let q = gen_query(rng, kv);
        let (t, sibs) = ref_prove(kv, &q);
        let leaf = match &t {
            RefTerminal::Leaf(k, _) => Some(*k),
            _ => None,
        };
        let plen = sibs.len();
        let proof = PathProof { terminal: terminal_of(&t, &q), siblings: sibs };
        if items.iter().any(|(k, l, _, _)| *l == plen && shared_bits(k, &q) >= plen) {
            continue; // same terminal
        }
        items.push((q, plen, leaf, proof));
    }
    items.sort_by(|a, b| a.0.cmp(&b.0));
    let malform = if rng.chance(1, 3) { rng.range(1, 7) } else { 0 };
    let mut updates: Vec<PathUpdate> = Vec::new();
    let mut desc: Vec<String> = Vec::new();
    let mut all_ops: Vec<(Key, Option<[u8; 32]>)> = Vec::new();
    let mut regs: Vec<usize> = Vec::new();
    for (i, (q, plen, leaf, proof)) in items.iter().enumerate() {
        let kb = q.view_bits::<Msb0>();
        let v = match verify_line(out, i, proof, kb, root) {
            Some(v) => v,
            None => {
                out.fail(format!("honest proof failed to verify: {}", out.ops.last().unwrap()));
                return;
            }
        };
        let ops = gen_ops_in_scope(rng, kv, q, *plen, *leaf);
        all_ops.extend(ops.iter().cloned());
        updates.push(PathUpdate { inner: v, ops });
        regs.push(i);
    }
    let mut honest = true;
    match malform {
        1 if updates.len() >= 2 => {
            let i = rng.below(updates.len() - 1);
            updates.swap(i, i + 1);
            regs.swap(i, i + 1);
            honest = false;
            out.count("vu_malformed_swap_paths");
        }
        2 => {
            let i = rng.below(updates.len());
            updates[i].ops.clear();
            honest = false;
            out.count("vu_malformed_empty_ops");
        }
        3 => {
            let i = rng.below(updates.len());
            let k = rng.bytes32();
            updates[i].ops.push((k, Some(rng.bytes32())));
            honest = false; // likely out of scope and/or out of order
            out.count("vu_malformed_random_op");
        }
        4 => {
            let i = rng.below(updates.len());
            if updates[i].ops.len() >= 2 {
                updates[i].ops.reverse();
                out.count("vu_malformed_reversed_ops");
            } else {
                let o = updates[i].ops[0].clone();
                updates[i].ops.push(o);
                out.count("vu_malformed_dup_op");
            }
            honest = false;
        }
        5 => {
            // duplicate a path
            let i = rng.below(updates.len());
            let dup = PathUpdate { inner: updates[i].inner.clone(), ops: updates[i].ops.clone() };
            updates.insert(i, dup);
            let r = regs[i];
            regs.insert(i, r);
            honest = false;
            out.count("vu_malformed_dup_path");
        }
        6 => {
            // a path verified against a different root (an updated set)
            let kv2 = apply_ops(kv, &[(rng.bytes32(), Some(rng.bytes32()))]);
            let root2 = ref_root(&kv2);
            let q = gen_query(rng, &kv2);
            let (t, sibs) = ref_prove(&kv2, &q);
            let plen = sibs.len();
            let proof = PathProof { terminal: terminal_of(&t, &q), siblings: sibs };
            let reg = 9;
            if let Some(v) = verify_line(out, reg, &proof, q.view_bits::<Msb0>(), root2) {
                let ops = gen_ops_in_scope(rng, &kv2, &q, plen, None);
                let at = rng.below(updates.len() + 1);
                updates.insert(at, PathUpdate { inner: v, ops });
                regs.insert(at, reg);
                honest = false;
                out.count("vu_malformed_other_root");
            }
        }
        7 => {
            // op out of scope but in order: flip a bit inside the path prefix
            let i = rng.below(updates.len());
            let plen = updates[i].inner.path().len();
            if plen > 0 {
                let j = rng.below(updates[i].ops.len());
                let b = rng.below(plen);
                updates[i].ops[j].0 = flip_bit(&updates[i].ops[j].0, b);
                honest = false;
                out.count("vu_malformed_oos_op");
            }
        }
        _ => {}
    }
    for (u, r) in updates.iter().zip(&regs) {
        desc.push(format!("{};{}", r, ops_line(&u.ops)));
    }
    let op = format!("pupdate {} {}", hex(&root), if desc.is_empty() { "-".into() } else { desc.join("|") });
    let r = catch_unwind(AssertUnwindSafe(|| verify_update::<Blake3Hasher>(root, &updates)));
    let s = match r {
        Ok(Ok(n)) => {
            if honest {
                let expect = ref_root(&apply_ops(kv, &all_ops));
                if expect != n {
                    out.fail(format!("verify_update root {} != reference root of updated set {} : {}", hex(&n), hex(&expect), op));
                }
                out.count("vu_honest_checked_vs_truth");
            }
            out.count("vu_ok");
            format!("ok {}", hex(&n))
        }
        Ok(Err(e)) => {
            if honest {
                out.fail(format!("verify_update rejected an honest update: {:?} {}", e, op));
            }
            out.count(&format!("vu_err_{:?}", e));
            format!("err {:?}", e)
        }
        Err(_) => {
            out.fail(format!("PANIC in verify_update: {}", op));
            out.count("vu_panic");
            "panic".into()
        }
    };
    out.nontrivial(&op);
    out.line(op, s);
}

pub fn run(seed: u64, cases: usize, out: &mut Sink) {
    let mut rng = Rng::new(seed);
    for case in 0..cases {
        let mut r = rng.fork();
        let rng = &mut r;
        let maxk = if rng.chance(1, 10) { 60 } else { 16 };
        let kv = gen_kv(rng, maxk);
        out.mark_case(format!("case {case} keys={}", kv.len()));
        let root = ref_root(&kv);
        out.line(format!("setkv {}", kv_line(&kv)), "ok".into());
        out.line("rootof".into(), hex(&root));
        out.count(&format!("keys_{}", match kv.len() { 0 => "0", 1 => "1", 2..=5 => "2-5", 6..=16 => "6-16", _ => "17+" }));
        for _ in 0..4 {
            let q = gen_query(rng, &kv);
            let (t, sibs) = ref_prove(&kv, &q);
            let honest = PathProof { terminal: terminal_of(&t, &q), siblings: sibs.clone() };
            out.line(format!("prove {}", hex(&q)), format!("{} {}", term_str(&honest.terminal), nodes_line(&sibs)));
            out.count(&format!("depth_{}", match sibs.len() { 0 => "0", 1..=5 => "1-5", 6..=12 => "6-12", 13..=63 => "13-63", 64..=200 => "64-200", _ => "201+" }));
            // honest first, then mutants
            for m in 0..4 {
                let mut p = honest.clone();
                let mut mutation = "none";
                let mut vkey = q;
                let mut use_root = root;
                let mut klen = 256;
                if m > 0 {
                    match rng.below(5) {
                        0 => {
                            // verify with another key
                            let d = if rng.chance(1, 2) { rng.below(sibs.len() + 1) } else { interesting_depth(rng) };
                            vkey = diverge_at(rng, &q, d.min(255));
                            mutation = "other_key";
                        }
                        1 => {
                            use_root = if rng.chance(1, 2) { rng.bytes32() } else { [0u8; 32] };
                            mutation = "wrong_root";
                        }
                        2 => {
                            klen = if rng.chance(1, 2) { rng.below(sibs.len() + 2).min(256) } else { rng.below(257) };
                            mutation = "short_key";
                        }
                        _ => {
                            mutation = mutate(rng, &kv, &mut p, &q);
                        }
                    }
                }
                out.count(&format!("mut_{mutation}"));
                let kb = &vkey.view_bits::<Msb0>()[..klen];
                let v = verify_line(out, 0, &p, kb, use_root);
                if m == 0 && v.is_none() {
                    out.fail(format!("honest proof failed to verify: {}", out.ops.last().unwrap()));
                }
                if mutation != "none" {
                    let sig = out.ops.last().unwrap().clone();
                    out.nontrivial(&sig);
                }
                if let Some(v) = v {
                    if mutation != "none" {
                        out.count("mutant_accepted");
                    }
                    confirm_queries(rng, out, 0, &kv, use_root == root, &v, &vkey);
                }
            }
        }
        for _ in 0..3 {
            update_case(rng, out, &kv, root);
        }
        if case < 2 {
            let from = out.case_marks.last().unwrap().0;
            for l in from..(from + 6).min(out.ops.len()) {
                let mut s = format!("{} => {}", out.ops[l], out.imp[l]);
                s.truncate(400);
                out.samples.push(s);
            }
        }
    }
}
