//! C01 / C19 / C16 / C10: the glue of the beatree update around the per-node updaters — the REAL
//! `enforce_first_leaf_separator` / `filter_leaves_changeset` / `filter_branch_changeset` on caller-supplied lists and the
//! REAL `ops::update` end to end on caller-supplied trees (hook `verif_api::stage_glue`; leaves built with the real
//! `LeafBuilder`, branch nodes with the real `BranchNodeBuilder`) against the Lean mirror (`Store/StageGlueModel.lean`,
//! driver mode `stageglue`).
//!
//! Lines:
//!   * `enf` — `enforce_first_leaf_separator` on a leaf level and a changeset (structured: the first leaf deleted, a run of
//!     deleted leaves behind it, then a rewritten / new / untouched candidate; and malformed ones);
//!   * `fl` / `fb` — the two `filter_*_changeset` on lists with 0 … 3 equal keys in every `Some` / `None` pattern (the
//!     `assert!`s and the `len() - 1` of the branch twin are panics on both sides);
//!   * `tree` / `bnode` / `leaf` / `update` — one real `ops::update` (one worker) on the registered tree: the leaf changeset
//!     handed to the branch stage, the pages either stage releases (in order), the submitted I/Os, the new index node by
//!     node, the new leaves (page number, entries with the pages of every overflow cell), the leaves `PostIoWork` put
//!     into the leaf cache.  2 … 3 rounds per case, round k + 1 on the tree the REAL code produced in round k.
//! Batch families: per-leaf shapes (untouched, emptied, head / tail deleted, one update, bulk insert → split, overflow
//! values, an inline value turning into an overflow value in a leaf that splits, overflow values deleted / overwritten,
//! deletes of absent keys) and directed ones (first leaf emptied; first leaf and a later leaf emptied with an untouched
//! leaf in between; the first k leaves emptied; the whole tree emptied, then refilled; batches changing no leaf — also
//! on the empty tree —; the empty batch).
//! Oracles that do not depend on the model: content = `BTreeMap` fold of the batch, every key read back through the real
//! lookup path (C01); first separator of the index = the zero key, index keys = first separators of the branch nodes,
//! separators ascending, every key of a leaf in `[separator, next separator)` (C16); every old page (leaf, overflow,
//! branch node) that the new tree does not reference is released exactly once, no referenced page is released, nothing
//! twice, every page allocated during the update is referenced, released, or one of the free-list pages (C19); every new
//! leaf is in the leaf cache after `PostIoWork` and equals the page on disk (C10); the same batch with 2 and 3 workers
//! gives the same content and passes the same page oracles; no panic.
use crate::util::*;
use nomt::verif_api::branch_updater as bu;
use nomt::verif_api::stage_glue as sg;
use std::collections::{BTreeMap, BTreeSet};
use std::panic::{catch_unwind, AssertUnwindSafe};

type Entry = (Key, Vec<u8>, bool);

fn key_of(hi: u16, tail: &[u8; 30]) -> Key {
    let mut k = [0u8; 32];
    k[0] = (hi >> 8) as u8;
    k[1] = hi as u8;
    k[2..].copy_from_slice(tail);
    k
}

fn variant() -> String {
    std::env::var("VH_SG_VARIANT").unwrap_or("real".into())
}

fn cs_str(cs: &[(Key, Option<u32>)]) -> String {
    if cs.is_empty() {
        return "-".into();
    }
    cs.iter()
        .map(|(k, pn)| format!("{}:{}", hex(k), pn.map(|p| p.to_string()).unwrap_or("-".into())))
        .collect::<Vec<_>>()
        .join(",")
}

fn nats_str(l: &[u32]) -> String {
    if l.is_empty() {
        "-".into()
    } else {
        l.iter().map(|p| p.to_string()).collect::<Vec<_>>().join(",")
    }
}

fn head_str(pn: u32) -> String {
    // FREELIST_EMPTY
    if pn == 0 {
        "-".into()
    } else {
        pn.to_string()
    }
}

fn level_str(l: &[(Key, u32)]) -> String {
    if l.is_empty() {
        return "-".into();
    }
    l.iter().map(|(k, pn)| format!("{}:{}", hex(k), pn)).collect::<Vec<_>>().join(",")
}

// ---------------------------------------------------------------------------------------------------------------------
// `enforce_first_leaf_separator`, `filter_*_changeset` on lists
// ---------------------------------------------------------------------------------------------------------------------

fn small_key(rng: &mut Rng, hi: u16) -> Key {
    let mut tail = [0u8; 30];
    if rng.chance(1, 3) {
        tail[0] = rng.below(4) as u8;
    }
    key_of(hi, &tail)
}

fn enf_line(level: &[(Key, u32)], fanout: usize, cs: &[(Key, Option<u32>)], out: &mut Sink) {
    let res = catch_unwind(AssertUnwindSafe(|| sg::enforce_first(level, fanout, cs)));
    let imp = match &res {
        Ok(cs2) => format!("cs={}", cs_str(cs2)),
        Err(_) => "panic".into(),
    };
    out.line(format!("enf {} {} {}", variant(), level_str(level), cs_str(cs)), imp);
    out.count("enf_lines");
    if let Ok(cs2) = &res {
        if cs2 != cs {
            out.count("enf_changed");
            out.nontrivial(&format!("enf{}|{}", level.len(), cs_str(cs2).len()));
        }
        // oracle (C16): on a well-formed input — ascending level starting at the zero key, ascending changeset whose
        // `None` entries name leaves of the level — applying the result to the level gives the same leaves as applying
        // the input, except that the first one sits under the zero key
        let asc_l = level.windows(2).all(|w| w[0].0 < w[1].0) && level.first().map_or(true, |l| l.0 == [0u8; 32]);
        let asc_c = cs.windows(2).all(|w| w[0].0 < w[1].0);
        let nones_ok = cs.iter().all(|(k, pn)| pn.is_some() || level.iter().any(|l| l.0 == *k));
        let somes_ok = cs.iter().all(|(k, pn)| pn.is_none() || *k != [0u8; 32] || level.is_empty() || true);
        if asc_l && asc_c && nones_ok && somes_ok && !level.is_empty() {
            let apply = |cs: &[(Key, Option<u32>)]| {
                let mut m: BTreeMap<Key, u32> = level.iter().cloned().collect();
                for (k, pn) in cs {
                    match pn {
                        Some(p) => {
                            m.insert(*k, *p);
                        }
                        None => {
                            m.remove(k);
                        }
                    }
                }
                m
            };
            let before: Vec<u32> = apply(cs).values().cloned().collect();
            let after_m = apply(cs2);
            let after: Vec<u32> = after_m.values().cloned().collect();
            out.count("enf_oracle_checked");
            if before != after {
                out.fail(format!("C16 enforce_first_leaf_separator changed the sequence of leaves: {:?} -> {:?} (level {} cs {})", before, after, level_str(level), cs_str(cs)));
            }
            if !after_m.is_empty() && after_m.keys().next() != Some(&[0u8; 32]) && variant() == "real" {
                out.fail(format!("C16 after enforce_first_leaf_separator the first leaf is not under the zero key (level {} cs {})", level_str(level), cs_str(cs)));
            }
            if !cs2.windows(2).all(|w| w[0].0 < w[1].0) {
                out.fail(format!("C16 enforce_first_leaf_separator left the changeset unsorted: {}", cs_str(cs2)));
            }
        }
    } else {
        out.count("enf_panics");
    }
}

fn enf_cases(rng: &mut Rng, out: &mut Sink) {
    // structured
    let n = rng.range(0, 7);
    let mut level: Vec<(Key, u32)> = Vec::new();
    for i in 0..n {
        let k = if i == 0 { [0u8; 32] } else { small_key(rng, (i as u16) * 0x100) };
        level.push((k, 10 + i as u32));
    }
    level.dedup_by(|a, b| a.0 == b.0);
    let n = level.len();
    let fanout = rng.range(1, 4);
    // the first `run` leaves are deleted (possibly with a hole), then one of: end, candidate rewritten, a new leaf in
    // front of the candidate, a new leaf behind it, a later leaf deleted, a later leaf rewritten
    let mut cs: Vec<(Key, Option<u32>)> = Vec::new();
    if n > 0 {
        let run = rng.range(1, n);
        for l in level.iter().take(run) {
            cs.push((l.0, None));
        }
        if run >= 3 && rng.chance(1, 3) {
            // a hole: leaf `h` untouched inside the run (the seeded scenario)
            let h = rng.range(1, run - 2);
            cs.remove(h);
            out.count("enf_hole_in_run");
        }
        let mut fresh = 100u32;
        match rng.below(7) {
            0 => {}
            1 if run < n => cs.push((level[run].0, Some(fresh))),
            2 if run < n => {
                // a new leaf strictly between the last deleted leaf and the candidate
                let mut k = level[run].0;
                k[31] = 0;
                k[1] = k[1].wrapping_sub(0);
                let mut below = level[run].0;
                if below[0] > 0 {
                    below[0] -= 1;
                    below[1] = 0x80;
                    if below > level[run - 1].0 {
                        cs.push((below, Some(fresh)));
                    }
                }
            }
            3 if run < n => {
                let mut above = level[run].0;
                above[1] = above[1].wrapping_add(0x40);
                cs.push((above, Some(fresh)));
            }
            4 if run + 1 < n => cs.push((level[run + 1].0, None)),
            5 if run + 1 < n => cs.push((level[run + 1].0, Some(fresh))),
            _ => {}
        }
        fresh += 1;
        // further entries behind
        for l in level.iter().skip(run + 2) {
            if rng.chance(1, 3) {
                cs.push((l.0, if rng.chance(1, 2) { None } else { Some(fresh) }));
                fresh += 1;
            }
        }
        if rng.chance(1, 8) && !cs.is_empty() {
            // the first leaf rewritten instead of deleted: nothing to enforce
            cs[0].1 = Some(fresh);
        }
    }
    cs.sort_by(|a, b| a.0.cmp(&b.0));
    cs.dedup_by(|a, b| a.0 == b.0);
    enf_line(&level, fanout, &cs, out);
    // malformed: a changeset that does not start at the zero key / names unknown leaves / is empty
    if rng.chance(1, 3) {
        let mut cs2 = cs.clone();
        match rng.below(4) {
            0 => cs2.clear(),
            1 => {
                if !cs2.is_empty() {
                    cs2.remove(0);
                }
            }
            2 => cs2.push((small_key(rng, 0x7f00), None)),
            _ => {
                if cs2.len() > 1 {
                    let i = rng.range(1, cs2.len() - 1);
                    cs2[i].0 = small_key(rng, 0x0080);
                }
            }
        }
        out.count("enf_malformed");
        enf_line(&level, fanout, &cs2, out);
    }
}

fn filter_cases(rng: &mut Rng, out: &mut Sink) {
    let n = rng.range(0, 6);
    let mut cs: Vec<(Key, Option<u32>)> = Vec::new();
    let mut pn = 1u32;
    let mut shape = String::new();
    for i in 0..n {
        let k = small_key(rng, (i as u16 + 1) * 0x10);
        // multiplicity 1 mostly, 2 often, 3 sometimes; patterns of Some / None
        let mult = match rng.below(10) {
            0..=4 => 1,
            5..=8 => 2,
            _ => 3,
        };
        let pat: Vec<bool> = if mult == 2 && rng.chance(4, 5) {
            if rng.chance(1, 2) { vec![true, false] } else { vec![false, true] }
        } else {
            (0..mult).map(|_| rng.chance(1, 2)).collect()
        };
        shape.push_str(&format!("{}", pat.iter().map(|b| if *b { 'S' } else { 'N' }).collect::<String>()));
        shape.push('.');
        for some in pat {
            cs.push((k, if some { Some(pn) } else { None }));
            pn += 1;
        }
    }
    // the workers' outputs arrive in completion order: shuffle
    for i in (1..cs.len()).rev() {
        let j = rng.below(i + 1);
        cs.swap(i, j);
    }
    for (cmd, leaf) in [("fl", true), ("fb", false)] {
        let res = catch_unwind(AssertUnwindSafe(|| if leaf { sg::filter_leaves(&cs) } else { sg::filter_branch(&cs) }));
        let imp = match &res {
            Ok(r) => format!("cs={}", cs_str(r)),
            Err(_) => "panic".into(),
        };
        out.line(format!("{cmd} {}", cs_str(&cs)), imp);
        out.count(&format!("{cmd}_lines"));
        match &res {
            Ok(r) => {
                out.nontrivial(&format!("{cmd}{shape}"));
                // oracle (C01): sorted, and when every key occurs at most twice with exactly one `Some`: each key once
                // with the `Some` state if it has one
                let mut groups: BTreeMap<Key, Vec<Option<u32>>> = BTreeMap::new();
                for (k, v) in &cs {
                    groups.entry(*k).or_default().push(*v);
                }
                let producer_ok = groups.values().all(|g| g.len() == 1 || (g.len() == 2 && g.iter().filter(|v| v.is_some()).count() == 1));
                if producer_ok {
                    out.count(&format!("{cmd}_producer_invariant_holds"));
                    let want: Vec<(Key, Option<u32>)> = groups.iter().map(|(k, g)| (*k, g.iter().find(|v| v.is_some()).cloned().unwrap_or(None))).collect();
                    if *r != want {
                        out.fail(format!("C01 {cmd}: filter_*_changeset kept the wrong entries: {} -> {}", cs_str(&cs), cs_str(r)));
                    }
                } else if groups.values().any(|g| g.len() == 3) {
                    out.count(&format!("{cmd}_three_equal_keys_no_panic"));
                    // observation: with three equal keys (Some, None, Some) the FIRST `Some` survives
                    let dup = r.windows(2).any(|w| w[0].0 == w[1].0);
                    if dup {
                        out.count(&format!("{cmd}_three_equal_keys_leaves_duplicate"));
                    }
                }
            }
            Err(_) => out.count(&format!("{cmd}_panics")),
        }
    }
}

// ---------------------------------------------------------------------------------------------------------------------
// the whole update
// ---------------------------------------------------------------------------------------------------------------------

#[derive(Clone, Copy, Debug, PartialEq)]
enum Shape {
    Untouched,
    DeleteAll,
    DeleteTail,
    DeleteHead,
    Update,
    InsertMany,
    InsertOvf,
    InlineToOvfSplit,
    TouchOvf,
    AbsentDeletes,
}

struct Ctx {
    env: bu::StageEnv,
    dir: std::path::PathBuf,
}

fn value(rng: &mut Rng, len: usize) -> Vec<u8> {
    let b = rng.next() as u8;
    (0..len).map(|i| b.wrapping_add(i as u8)).collect()
}

fn gen_leaves(rng: &mut Rng, n: usize) -> Vec<(Key, u32, Vec<Entry>)> {
    let mut leaves = Vec::new();
    let random_tails = rng.chance(1, 2);
    for i in 0..n {
        let m = rng.range(2, 9);
        let target = if rng.chance(1, 5) { rng.range(300, 2000) } else { rng.range(2100, 4000) };
        let vlen = (target / m).saturating_sub(34).clamp(1, 1332);
        let mut entries = Vec::new();
        for j in 0..m {
            let mut tail = [0u8; 30];
            if random_tails {
                for b in tail.iter_mut() {
                    *b = rng.next() as u8;
                }
            }
            let hi = ((i as u16 + 1) << 8) | ((j as u16 + 1) * 16);
            let k = if i == 0 && j == 0 && rng.chance(1, 3) { [0u8; 32] } else { key_of(hi, &tail) };
            let len = if rng.chance(1, 6) { rng.range(1, 1332) } else { vlen };
            entries.push((k, value(rng, len), false));
        }
        // keep the leaf within a page
        while entries.iter().map(|e| 34 + e.1.len()).sum::<usize>() > 4094 {
            entries.pop();
        }
        let sep = if i == 0 { [0u8; 32] } else { key_of((i as u16 + 1) << 8, &[0u8; 30]) };
        leaves.push((sep, 1 + i as u32, entries));
    }
    leaves
}

/// the keys a shape changes in a leaf (given its entries and the range of `hi` prefixes it covers)
fn shape_changes(rng: &mut Rng, shape: Shape, leaf_no: u16, entries: &[Entry], out: &mut Vec<(Key, Option<Vec<u8>>)>) {
    let mut fresh_key = |rng: &mut Rng| {
        let mut tail = [0u8; 30];
        for b in tail.iter_mut() {
            *b = rng.next() as u8;
        }
        key_of(((leaf_no + 1) << 8) | (rng.range(1, 254) as u16), &tail)
    };
    match shape {
        Shape::Untouched => {}
        Shape::DeleteAll => out.extend(entries.iter().map(|e| (e.0, None))),
        Shape::DeleteTail => {
            let keep = rng.range(1, 2).min(entries.len());
            out.extend(entries.iter().skip(keep).map(|e| (e.0, None)));
        }
        Shape::DeleteHead => {
            let del = rng.range(1, entries.len().max(2) - 1);
            out.extend(entries.iter().take(del).map(|e| (e.0, None)));
        }
        Shape::Update => {
            if !entries.is_empty() {
                let e = &entries[rng.below(entries.len())];
                let len = rng.range(1, 1332);
                out.push((e.0, Some(value(rng, len))));
            }
        }
        Shape::InsertMany => {
            for _ in 0..rng.range(3, 9) {
                let len = if rng.chance(1, 2) { rng.range(600, 1332) } else { rng.range(1, 400) };
                out.push((fresh_key(rng), Some(value(rng, len))));
            }
        }
        Shape::InsertOvf => {
            for _ in 0..rng.range(1, 2) {
                let len = match rng.below(8) {
                    0 => 1333,
                    1 => 4092 * 15,
                    2 => 4092 * 15 + 1,
                    3 => rng.range(62_000, 75_000),
                    _ => rng.range(1333, 12_000),
                };
                out.push((fresh_key(rng), Some(value(rng, len))));
            }
        }
        Shape::InlineToOvfSplit => {
            if !entries.is_empty() {
                let e = &entries[rng.below(entries.len())];
                let len = rng.range(1333, 9000);
                out.push((e.0, Some(value(rng, len))));
            }
            for _ in 0..rng.range(4, 7) {
                let len = rng.range(700, 1332);
                out.push((fresh_key(rng), Some(value(rng, len))));
            }
        }
        Shape::TouchOvf => {
            for e in entries.iter().filter(|e| e.2) {
                match rng.below(3) {
                    0 => out.push((e.0, None)),
                    1 => {
                        let len = rng.range(1, 1332);
                        out.push((e.0, Some(value(rng, len))))
                    }
                    _ => {
                        let len = rng.range(1333, 9000);
                        out.push((e.0, Some(value(rng, len))))
                    }
                }
            }
        }
        Shape::AbsentDeletes => {
            for _ in 0..rng.range(1, 3) {
                let k = fresh_key(rng);
                if !entries.iter().any(|e| e.0 == k) {
                    out.push((k, None));
                }
            }
        }
    }
}

struct TreeView {
    branches: Vec<(Key, bu::NodeView)>,
    /// separator, page number, entries, cached
    leaves: Vec<(Key, u32, Vec<Entry>, bool)>,
    /// per leaf, per entry: the pages of an overflow cell
    pages: Vec<Vec<Vec<u32>>>,
}

fn view(ctx: &Ctx, sim: &sg::UpdateSim, out: &mut Sink, what: &str) -> Option<TreeView> {
    let dump = match catch_unwind(AssertUnwindSafe(|| sim.dump(&ctx.env))) {
        Ok(Ok(d)) => d,
        _ => {
            out.fail(format!("C01 {what}: the tree cannot be read back"));
            return None;
        }
    };
    let mut pages = Vec::new();
    for (_, pn, entries, _) in &dump.leaves {
        let mut per = Vec::new();
        if *pn == u32::MAX {
            out.fail(format!("C10 {what}: a cached leaf differs from its page on disk"));
        }
        for (_, cell, ovf) in entries {
            if *ovf {
                match catch_unwind(AssertUnwindSafe(|| sim.overflow_pages(&ctx.env, cell))) {
                    Ok(Ok(p)) => per.push(p),
                    _ => {
                        out.fail(format!("C01 {what}: the overflow pages of a cell cannot be read"));
                        per.push(vec![]);
                    }
                }
            } else {
                per.push(vec![]);
            }
        }
        pages.push(per);
    }
    Some(TreeView { branches: dump.branches, leaves: dump.leaves, pages })
}

fn entries_str(entries: &[Entry], pages: &[Vec<u32>]) -> String {
    if entries.is_empty() {
        return "-".into();
    }
    entries
        .iter()
        .zip(pages)
        .map(|((k, v, o), p)| {
            let ps = if p.is_empty() { "_".into() } else { p.iter().map(|x| x.to_string()).collect::<Vec<_>>().join("+") };
            format!("{}:{}:{}:{}", hex(k), v.len(), *o as u8, ps)
        })
        .collect::<Vec<_>>()
        .join(",")
}

fn items_str(items: &[(Key, u32, usize)]) -> String {
    if items.is_empty() {
        return "-".into();
    }
    items.iter().map(|(k, pn, l)| format!("{}:{}:{}", hex(k), pn, l)).collect::<Vec<_>>().join(",")
}

fn register(tv: &TreeView, out: &mut Sink) {
    out.line("tree".into(), "ok".into());
    for (sep, v) in &tv.branches {
        out.line(
            format!("bnode {} {} {} {} {}", hex(sep), v.bbn_pn, v.prefix_len, v.prefix_compressed, items_str(&v.items)),
            "ok".into(),
        );
    }
    for ((sep, pn, entries, _), pages) in tv.leaves.iter().zip(&tv.pages) {
        out.line(format!("leaf {} {} {}", hex(sep), pn, entries_str(entries, pages)), "ok".into());
    }
}

fn all_pages(tv: &TreeView) -> (BTreeSet<u32>, BTreeSet<u32>) {
    let mut ln = BTreeSet::new();
    for ((_, pn, _, _), pages) in tv.leaves.iter().zip(&tv.pages) {
        ln.insert(*pn);
        for p in pages {
            ln.extend(p.iter().cloned());
        }
    }
    let bbn = tv.branches.iter().map(|(_, v)| v.bbn_pn).collect();
    (ln, bbn)
}

/// the structural oracles on a tree (C16)
fn check_shape(tv: &TreeView, out: &mut Sink, what: &str) {
    let seps: Vec<Key> = tv.leaves.iter().map(|l| l.0).collect();
    if let Some(first) = seps.first() {
        if *first != [0u8; 32] {
            out.fail(format!("C16 {what}: the first leaf separator is {} and not the zero key", hex(first)));
        }
    }
    if !seps.windows(2).all(|w| w[0] < w[1]) {
        out.fail(format!("C16 {what}: leaf separators not ascending"));
    }
    for (i, (sep, _, entries, _)) in tv.leaves.iter().enumerate() {
        let next = seps.get(i + 1);
        for (k, _, _) in entries {
            if k < sep || next.map_or(false, |n| k >= n) {
                out.fail(format!("C16 {what}: key {} outside its leaf's separator range [{}, {:?})", hex(k), hex(sep), next.map(|n| hex(n))));
            }
        }
        if !entries.windows(2).all(|w| w[0].0 < w[1].0) {
            out.fail(format!("C16 {what}: keys of a leaf not ascending"));
        }
        if entries.is_empty() {
            out.fail(format!("C16 {what}: an empty leaf is part of the tree"));
        }
    }
    for (sep, v) in &tv.branches {
        if v.items.first().map(|i| i.0) != Some(*sep) {
            out.fail(format!("C16 {what}: index key {} is not the first separator of its branch node", hex(sep)));
        }
        if v.items.is_empty() {
            out.fail(format!("C16 {what}: an empty branch node is part of the index"));
        }
    }
}

struct RoundRes {
    content: Vec<(Key, Vec<u8>)>,
}

/// one real update + all oracles; `line`: also emit the protocol lines (one worker only)
fn round(
    ctx: &Ctx,
    sim: &mut sg::UpdateSim,
    model: &mut BTreeMap<Key, Vec<u8>>,
    batch: &[(Key, Option<Vec<u8>>)],
    workers: usize,
    line: bool,
    pool: &mut (BTreeSet<u32>, BTreeSet<u32>),
    out: &mut Sink,
    what: &str,
) -> Option<RoundRes> {
    let before = view(ctx, sim, out, what)?;
    let (ln_bump, bbn_bump) = sim.bumps();
    if line {
        register(&before, out);
    }
    let res = catch_unwind(AssertUnwindSafe(|| sim.update(&ctx.env, batch, workers)));
    let op = format!(
        "update {} {} {} {}",
        variant(),
        ln_bump,
        bbn_bump,
        if batch.is_empty() {
            "-".into()
        } else {
            batch
                .iter()
                .map(|(k, v)| {
                    format!(
                        "{}:{}",
                        hex(k),
                        match v {
                            None => "D".to_string(),
                            Some(v) if v.len() > 1332 => format!("O{}", v.len()),
                            Some(v) => format!("I{}", v.len()),
                        }
                    )
                })
                .collect::<Vec<_>>()
                .join(",")
        }
    );
    let upd = match res {
        Ok(Ok(u)) => u,
        Ok(Err(e)) => {
            out.fail(format!("C01 {what}: ops::update returned an error: {e}"));
            if line {
                out.line(op, "error".into());
            }
            return None;
        }
        Err(_) => {
            out.fail(format!("C01 {what}: ops::update panicked ({} changes, {} workers)", batch.len(), workers));
            if line {
                out.line(op, "panic".into());
            }
            return None;
        }
    };
    for (k, v) in batch {
        match v {
            Some(v) => {
                model.insert(*k, v.clone());
            }
            None => {
                model.remove(k);
            }
        }
    }
    let after = view(ctx, sim, out, what)?;
    let rec = &upd.record;
    if line {
        let idx = if after.branches.is_empty() {
            "-".into()
        } else {
            after
                .branches
                .iter()
                .map(|(sep, v)| format!("{}|{}|{}|{}|{}", hex(sep), v.bbn_pn, v.prefix_len, v.prefix_compressed, items_str(&v.items)))
                .collect::<Vec<_>>()
                .join(";")
        };
        let leaves = if after.leaves.is_empty() {
            "-".into()
        } else {
            after
                .leaves
                .iter()
                .zip(&after.pages)
                .map(|((_, pn, entries, _), pages)| format!("{}|{}", pn, entries_str(entries, pages)))
                .collect::<Vec<_>>()
                .join(";")
        };
        let old_leaf_pns: BTreeSet<u32> = before.leaves.iter().map(|l| l.1).collect();
        let cache: Vec<u32> = after.leaves.iter().filter(|l| !old_leaf_pns.contains(&l.1) && l.3).map(|l| l.1).collect();
        out.line(
            op,
            format!(
                "lcs={} lnfreed={} bbnfreed={} io={} idx={} leaves={} cache={} sync={}/{}/{}/{}",
                cs_str(&rec.leaf_changeset),
                nats_str(&rec.ln_freed),
                nats_str(&rec.bbn_freed),
                rec.leaf_submitted_io + rec.branch_submitted_io,
                idx,
                leaves,
                nats_str(&cache),
                upd.ln_bump,
                head_str(upd.ln_freelist_pn),
                upd.bbn_bump,
                head_str(upd.bbn_freelist_pn)
            ),
        );
        out.count("update_lines");
        out.add("update_leaf_changeset_entries", rec.leaf_changeset.len() as u64);
        out.add("update_ln_freed", rec.ln_freed.len() as u64);
        out.add("update_bbn_freed", rec.bbn_freed.len() as u64);
        if rec.leaf_changeset.first().map_or(false, |c| c.0 == [0u8; 32]) && before.leaves.first().map_or(false, |l| !after.leaves.iter().any(|a| a.1 == l.1)) {
            out.count("update_first_leaf_replaced");
        }
        out.nontrivial(&format!("u{}|{}|{}|{}", before.leaves.len(), after.leaves.len(), rec.ln_freed.len(), rec.bbn_freed.len()));
    }
    // ---- oracles ----
    check_shape(&after, out, what);
    // C01: content
    let content: Vec<(Key, Vec<u8>)> = {
        let mut c = Vec::new();
        for (_, _, entries, _) in &after.leaves {
            for (k, _, _) in entries {
                match catch_unwind(AssertUnwindSafe(|| sim.lookup(&ctx.env, *k))) {
                    Ok(Ok(Some(v))) => c.push((*k, v)),
                    _ => out.fail(format!("C01 {what}: key {} of a leaf is not found by the lookup path", hex(k))),
                }
            }
        }
        c
    };
    let want: Vec<(Key, Vec<u8>)> = model.iter().map(|(k, v)| (*k, v.clone())).collect();
    if content != want {
        out.fail(format!(
            "C01 {what}: content after the update differs from the BTreeMap fold ({} vs {} entries, {} workers)",
            content.len(),
            want.len(),
            workers
        ));
    }
    for (k, v) in batch {
        if v.is_none() {
            if let Ok(Ok(Some(_))) = catch_unwind(AssertUnwindSafe(|| sim.lookup(&ctx.env, *k))) {
                out.fail(format!("C01 {what}: deleted key {} is still found", hex(k)));
            }
        }
    }
    // C19: pages
    let (old_ln, old_bbn) = all_pages(&before);
    let (new_ln, new_bbn) = all_pages(&after);
    let (pool_ln, pool_bbn) = (&mut pool.0, &mut pool.1);
    for (name, old, new, freed, lo, hi, pool) in [
        ("ln", &old_ln, &new_ln, &rec.ln_freed, ln_bump, upd.ln_bump, pool_ln),
        ("bbn", &old_bbn, &new_bbn, &rec.bbn_freed, bbn_bump, upd.bbn_bump, pool_bbn),
    ] {
        // `pool`: the pages released in EARLIER rounds (they are on the free list: this round may hand them out again)
        let mut seen = BTreeSet::new();
        for p in freed {
            if !seen.insert(*p) {
                out.fail(format!("C19 {what}: {name} page {p} released twice"));
            }
            if new.contains(p) {
                out.fail(format!("C19 {what}: {name} page {p} released although the new tree references it"));
            }
            if !old.contains(p) && !(*p >= lo && *p < hi) && !pool.contains(p) {
                out.fail(format!("C19 {what}: {name} page {p} released but neither old nor allocated by this update"));
            }
        }
        for p in old {
            if !new.contains(p) && !seen.contains(p) {
                out.fail(format!("C19 {what}: old {name} page {p} is no longer referenced and was not released (leak)"));
            }
        }
        for p in new {
            if !old.contains(p) {
                if seen.contains(p) {
                    out.fail(format!("C19 {what}: {name} page {p} released in this round is handed out in the same round"));
                } else if pool.contains(p) {
                    out.count(&format!("{name}_pages_reused_from_free_list"));
                } else if !(*p >= lo && *p < hi) {
                    out.fail(format!("C19 {what}: new {name} page {p} was neither allocated at the frontier nor on the free list"));
                }
            }
        }
        // allocated pages: referenced, released, or free-list pages (at most one per 1000 released + 1)
        let unaccounted = (lo..hi).filter(|p| !new.contains(p) && !seen.contains(p)).count();
        if unaccounted > (freed.len() + pool.len()) / 1000 + 2 {
            out.fail(format!("C19 {what}: {unaccounted} allocated {name} pages are neither referenced nor released"));
        }
        out.add(&format!("{name}_allocated_at_frontier"), (hi - lo) as u64);
        // the pool after this round: what was handed out leaves it, what was released enters it — and so do the pages
        // the free list took for itself (a free-list page returns to the list when it is emptied)
        for p in new {
            pool.remove(p);
        }
        pool.extend(freed.iter().cloned());
        pool.extend((lo..hi).filter(|p| !new.contains(p) && !seen.contains(p)));
    }
    // C10: the leaf cache
    let old_leaf_pns2: BTreeSet<u32> = before.leaves.iter().map(|l| l.1).collect();
    for (_, pn, _, cached) in &after.leaves {
        if !old_leaf_pns2.contains(pn) && !cached {
            out.fail(format!("C10 {what}: new leaf {pn} is not in the leaf cache after PostIoWork"));
        }
    }
    Some(RoundRes { content })
}

fn make_sim(ctx: &Ctx, leaves: &[(Key, u32, Vec<Entry>)], fanout: usize, cached: &[u32], sub: &str) -> sg::UpdateSim {
    let dir = ctx.dir.join(sub);
    std::fs::create_dir_all(&dir).unwrap();
    let ln_bump = leaves.iter().map(|l| l.1).max().unwrap_or(0) + 1;
    sg::UpdateSim::new(&ctx.env, &dir, leaves, fanout, cached, ln_bump, 1).unwrap()
}

fn update_case(ctx: &Ctx, rng: &mut Rng, case: usize, directed: Option<usize>, out: &mut Sink) {
    let n = match directed {
        Some(4) if rng.chance(1, 2) => 0,
        Some(_) => rng.range(3, 7),
        None => rng.range(1, 8),
    };
    let leaves = gen_leaves(rng, n);
    let fanout = rng.range(2, 4);
    let cached: Vec<u32> = leaves.iter().map(|l| l.1).filter(|_| rng.chance(1, 2)).collect();
    out.add("leaves_cached_before", cached.len() as u64);
    out.add("leaves_on_disk_only_before", (leaves.len() - cached.len()) as u64);
    let mut sim = make_sim(ctx, &leaves, fanout, &cached, "w1");
    type Pool = (BTreeSet<u32>, BTreeSet<u32>);
    let mut pool1: Pool = Default::default();
    let mut sims_multi: Vec<(usize, sg::UpdateSim, BTreeMap<Key, Vec<u8>>, Pool)> = Vec::new();
    for w in [2usize, 3] {
        sims_multi.push((w, make_sim(ctx, &leaves, fanout, &cached, &format!("w{w}")), BTreeMap::new(), Default::default()));
    }
    {
        let (lb, bb) = sim.bumps();
        out.line(format!("stores {lb} {bb}"), "ok".into());
    }
    let mut model: BTreeMap<Key, Vec<u8>> = BTreeMap::new();
    for (_, _, entries) in &leaves {
        for (k, v, _) in entries {
            model.insert(*k, v.clone());
        }
    }
    for (_, _, m, _) in sims_multi.iter_mut() {
        *m = model.clone();
    }
    let rounds = if directed == Some(3) { 3 } else { rng.range(2, 4) };
    for r in 0..rounds {
        let what = format!("case {case} round {r}");
        out.mark_case(format!("stageglue seed-case {case} round {r} directed {:?}", directed));
        let Some(tv) = view(ctx, &sim, out, &what) else { return };
        let cur: Vec<(u16, Vec<Entry>)> = tv
            .leaves
            .iter()
            .map(|l| {
                // the leaf number a leaf's keys were generated under
                let hi = l.2.first().map(|e| e.0[0]).unwrap_or(1).max(1) as u16 - 1;
                (hi, l.2.clone())
            })
            .collect();
        let mut batch: Vec<(Key, Option<Vec<u8>>)> = Vec::new();
        let mut sig = String::new();
        let mut generated = false;
        match (directed, r) {
            (Some(0), 0) => {
                // the first leaf emptied
                shape_changes(rng, Shape::DeleteAll, cur[0].0, &cur[0].1, &mut batch);
                sig = "first-emptied".into();
            }
            (Some(1), 0) => {
                // every key of leaf 0 deleted, leaf 1 untouched, leaf 2 emptied
                shape_changes(rng, Shape::DeleteAll, cur[0].0, &cur[0].1, &mut batch);
                shape_changes(rng, Shape::DeleteAll, cur[2].0, &cur[2].1, &mut batch);
                sig = "first-and-third-emptied".into();
            }
            (Some(2), 0) => {
                let k = rng.range(2, cur.len() - 1);
                for l in cur.iter().take(k) {
                    shape_changes(rng, Shape::DeleteAll, l.0, &l.1, &mut batch);
                }
                if k < cur.len() && rng.chance(1, 2) {
                    shape_changes(rng, Shape::Update, cur[k].0, &cur[k].1, &mut batch);
                }
                sig = format!("first-{k}-emptied");
            }
            (Some(3), 0) | (Some(3), 2) if !cur.is_empty() => {
                for l in cur.iter() {
                    shape_changes(rng, Shape::DeleteAll, l.0, &l.1, &mut batch);
                }
                sig = "all-emptied".into();
            }
            (Some(3), 1) => {
                for i in 0..rng.range(1, 4) {
                    shape_changes(rng, Shape::InsertMany, i as u16, &[], &mut batch);
                }
                sig = "refill".into();
            }
            (Some(4), _) => {
                if cur.is_empty() {
                    shape_changes(rng, Shape::AbsentDeletes, 0, &[], &mut batch);
                } else {
                    for l in cur.iter() {
                        if rng.chance(1, 2) {
                            shape_changes(rng, Shape::AbsentDeletes, l.0, &l.1, &mut batch);
                        }
                    }
                }
                sig = format!("no-leaf-change-{}", cur.len());
            }
            (Some(5), 0) => sig = "empty-batch".into(),
            (Some(6), 0) => {
                // the first leaf emptied, the candidate rewritten / under-full
                shape_changes(rng, Shape::DeleteAll, cur[0].0, &cur[0].1, &mut batch);
                let s = *rng.pick(&[Shape::Update, Shape::DeleteTail, Shape::InsertMany, Shape::DeleteHead]);
                shape_changes(rng, s, cur[1].0, &cur[1].1, &mut batch);
                sig = format!("first-emptied-second-{s:?}");
            }
            _ => {
                generated = true;
                let has_ovf = cur.iter().any(|l| l.1.iter().any(|e| e.2));
                for l in cur.iter() {
                    let shapes: &[Shape] = if has_ovf && l.1.iter().any(|e| e.2) && rng.chance(1, 2) {
                        &[Shape::TouchOvf]
                    } else {
                        &[
                            Shape::Untouched,
                            Shape::Untouched,
                            Shape::DeleteAll,
                            Shape::DeleteTail,
                            Shape::DeleteHead,
                            Shape::Update,
                            Shape::InsertMany,
                            Shape::InsertOvf,
                            Shape::InlineToOvfSplit,
                            Shape::AbsentDeletes,
                        ]
                    };
                    let s = *rng.pick(shapes);
                    out.count(&format!("shape_{s:?}"));
                    sig.push_str(&format!("{:?},", s));
                    shape_changes(rng, s, l.0, &l.1, &mut batch);
                }
                if cur.is_empty() {
                    shape_changes(rng, Shape::InsertMany, 0, &[], &mut batch);
                    sig.push_str("fill-empty");
                }
            }
        }
        batch.sort_by(|a, b| a.0.cmp(&b.0));
        batch.dedup_by(|a, b| a.0 == b.0);
        out.count(&format!("batch_{}", if !generated { sig.split(|c: char| c.is_ascii_digit()).next().unwrap_or("") } else { "generated" }));
        if batch.iter().any(|(_, v)| v.as_ref().map_or(false, |v| v.len() > 1332)) {
            out.count("batch_with_overflow_insert");
        }
        let r1 = round(ctx, &mut sim, &mut model, &batch, 1, true, &mut pool1, out, &what);
        let Some(r1) = r1 else { return };
        for (w, s, m, pl) in sims_multi.iter_mut() {
            let what = format!("{what} ({w} workers)");
            if let Some(rw) = round(ctx, s, m, &batch, *w, false, pl, out, &what) {
                out.count("multiworker_rounds");
                if rw.content != r1.content {
                    out.fail(format!("C13 {what}: content differs from the one-worker run"));
                }
            }
        }
    }
}

pub fn run(seed: u64, cases: usize, out: &mut Sink) {
    let mut rng = Rng::new(seed ^ 0x5747_1e38);
    let dir = std::path::PathBuf::from(format!("/dev/shm/nomt-verif-stageglue-{}-{}", std::process::id(), seed));
    std::fs::create_dir_all(&dir).unwrap();
    let ctx = Ctx { env: bu::StageEnv::new(2, 4), dir: dir.clone() };
    let prev = std::panic::take_hook();
    if std::env::var("VH_VERBOSE_PANIC").is_err() {
        std::panic::set_hook(Box::new(|_| {}));
    }
    let only: Option<usize> = std::env::var("VH_SG_ONLY").ok().and_then(|s| s.parse().ok());
    // directed families first (every seed), then generated cases
    for d in 0..7 {
        if only.map_or(true, |o| o == 1000 + d) {
            let mut r = rng.fork();
            update_case(&ctx, &mut r, 1000 + d, Some(d), out);
        } else {
            rng.fork();
        }
    }
    for case in 0..cases {
        let mut r = rng.fork();
        if only.map_or(false, |o| o != case) {
            continue;
        }
        for _ in 0..4 {
            enf_cases(&mut r, out);
            filter_cases(&mut r, out);
        }
        update_case(&ctx, &mut r, case, None, out);
    }
    std::panic::set_hook(prev);
    let _ = std::fs::remove_dir_all(&dir);
}
