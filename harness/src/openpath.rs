//! `openpath`: the OPEN path of the real store (hook H23, `nomt::verif_api::openpath`) against the Lean mirror
//! (`nomt_model openpath`, `lean/NomtModel/Store/OpenPath.lean` — the definitions the theorems of
//! `Props/C10_OpenPath.lean`, `C20_OpenPath.lean`, `C13_OpenPath.lean`, `C02_OpenPath.lean` are about).
//!
//! Case kinds (all derived from ONE PRNG seed):
//!   dir       a real directory made through the real API under configuration A (buckets 1…6000, seed, rollback flag,
//!             workers): 0 / 1 / 2 / 3 / many keys; ONE key with a 0 / 1 / 1332 / 1333 / 70 000-byte value; emptied stores
//!             (keys committed, then all deleted); rollback to empty.  Closed, then reopened under a freshly drawn
//!             configuration B (other buckets / seed / rollback flag / upper levels / cache sizes / workers 0…100).
//!             One `open` line: manifest bytes, B, `ht` / `wal` lengths, the root page slots and the first items as the
//!             REAL `compute_root_node` saw them; answer = parameters of the opened store + the root.
//!   meta      `Meta::read` + `validate` on generated files (valid manifests, one field damaged, random bytes; lengths
//!             0 / 63 / 64 / 4095 / 4096 / 8192), `encode_to` / `create_new` on generated fields
//!   ht        `ht_file::open` on sparse files of exact / off-by-a-byte / off-by-a-page / zero length, bucket counts up
//!             to 2^32 − 1; `ht_file::create`
//!   effective `Nomt::open` on a fresh directory with commit_concurrency 0…1000 and cache sizes 0…2^45 MiB
//!   corrupt   a real directory whose manifest is damaged (every field, boundary values), reopened under `catch_unwind`:
//!             the verdict class (ok / err / panic) is compared with the mirror; panics are COUNTED per site
//!             (`corrupt_panic_*`), see notes/Q37.md — `vharness openpath-findings` turns them into oracle failures
//!
//! Oracles (independent of Lean):
//!   C02  the root reported after reopen = the root recomputed by the real `compute_root_node` = the reference trie
//!   C10  root page stored iff ≥ 2 keys and its two top slots = the reference nodes of the two halves; the iterator's
//!        first item = the smallest key, overflow iff the value is longer than 1332 bytes, value hash = hash of the value;
//!        seqn and occupancy = the pre-close values; every value reads back; a valid manifest is never refused
//!   C13  the opened store's seed / bucket count / seqn / frontiers / free-list heads / rollback range are the
//!        MANIFEST's for every B (also in `Sync`, i.e. in the next manifest: one more commit under B, manifest re-read)
//!   C20  a second `open` of the directory while the handle lives is refused and changes no file
use crate::util::*;
use nomt::hasher::Blake3Hasher;
use nomt::verif_api::openpath as hook;
use nomt_core::hasher::ValueHasher;
use nomt::{KeyReadWrite, Nomt, Options, SessionParams, WitnessMode};
use std::collections::BTreeMap;
use std::panic::{catch_unwind, AssertUnwindSafe};

type Db = Nomt<Blake3Hasher>;

fn vhash(v: &[u8]) -> [u8; 32] {
    <Blake3Hasher as ValueHasher>::hash_value(v)
}

fn scratch(tag: &str) -> String {
    format!("/dev/shm/nomt-verif-openpath-{}-{}", std::process::id(), tag)
}

#[derive(Clone, Debug)]
struct Cfg {
    workers: usize,
    buckets: u32,
    seed: [u8; 16],
    rollback: bool,
    maxlog: u32,
    page_cache: usize,
    leaf_cache: usize,
    upper: usize,
    io: usize,
    warm_up: bool,
    prepopulate: bool,
}

impl Cfg {
    fn gen(rng: &mut Rng, creating: bool) -> Cfg {
        let mut seed = [0u8; 16];
        seed.copy_from_slice(&rng.bytes32()[..16]);
        Cfg {
            workers: if creating { rng.range(1, 4) } else { *rng.pick(&[1usize, 1, 2, 3, 8, 64, 65, 100]) },
            buckets: *rng.pick(&[1u32, 2, 3, 64, 300, 4095, 4096, 4097, 6000]),
            seed,
            rollback: rng.chance(1, 2),
            maxlog: *rng.pick(&[1u32, 2, 100]),
            page_cache: *rng.pick(&[0usize, 1, 2, 256]),
            leaf_cache: *rng.pick(&[0usize, 1, 256]),
            upper: rng.below(4),
            io: rng.range(1, 3),
            warm_up: rng.chance(1, 3),
            prepopulate: rng.chance(1, 3),
        }
    }
    fn options(&self, dir: &str) -> Options {
        let mut o = Options::new();
        o.path(dir);
        o.commit_concurrency(self.workers);
        o.hashtable_buckets(self.buckets);
        o.bitbox_seed(self.seed);
        o.rollback(self.rollback);
        o.max_rollback_log_len(self.maxlog);
        o.page_cache_size(self.page_cache);
        o.leaf_cache_size(self.leaf_cache);
        o.page_cache_upper_levels(self.upper);
        o.io_workers(self.io);
        o.warm_up(self.warm_up);
        o.prepopulate_page_cache(self.prepopulate);
        o.preallocate_ht(false);
        o
    }
    fn seed_nums(&self) -> (u64, u64) {
        (
            u64::from_le_bytes(self.seed[..8].try_into().unwrap()),
            u64::from_le_bytes(self.seed[8..].try_into().unwrap()),
        )
    }
    /// the `o:` field of an `open` line
    fn line(&self) -> String {
        let (s0, s1) = self.seed_nums();
        format!("{},{},{},{},{},{},0", self.workers, self.buckets, s0, s1, self.rollback as u8, self.maxlog)
    }
}

fn commit(db: &Db, view: &mut BTreeMap<Key, Vec<u8>>, writes: Vec<(Key, Option<Vec<u8>>)>) -> anyhow::Result<()> {
    let mut list: Vec<(Key, KeyReadWrite)> = Vec::new();
    let mut w = writes;
    w.sort_by(|a, b| a.0.cmp(&b.0));
    w.dedup_by(|a, b| a.0 == b.0);
    for (k, v) in w {
        match &v {
            Some(v) => {
                view.insert(k, v.clone());
            }
            None => {
                view.remove(&k);
            }
        }
        list.push((k, KeyReadWrite::Write(v)));
    }
    let s = db.begin_session(SessionParams::default().witness_mode(WitnessMode::disabled()));
    s.finish(list)?.commit(db)?;
    Ok(())
}

fn value_of_len(rng: &mut Rng, len: usize) -> Vec<u8> {
    let b = rng.next() as u8;
    (0..len).map(|i| b.wrapping_add((i % 251) as u8)).collect()
}

fn gen_len(rng: &mut Rng) -> usize {
    match rng.below(8) {
        0 => 0,
        1 => 1,
        2 => 1332,
        3 => 1333,
        4 => 70_000,
        5 => rng.range(1300, 1400),
        _ => rng.range(1, 200),
    }
}

fn manifest_fields_line(f: &hook::MetaFields) -> String {
    let s0 = u64::from_le_bytes(f.bitbox_seed[..8].try_into().unwrap());
    let s1 = u64::from_le_bytes(f.bitbox_seed[8..].try_into().unwrap());
    format!(
        "magic={} version={} lnfl={} lnbump={} bbnfl={} bbnbump={} seqn={} pages={} seed={},{} start={} end={}",
        u32::from_le_bytes(f.magic),
        f.version,
        f.ln_freelist_pn,
        f.ln_bump,
        f.bbn_freelist_pn,
        f.bbn_bump,
        f.sync_seqn,
        f.bitbox_num_pages,
        s0,
        s1,
        f.rollback_start_live,
        f.rollback_end_live
    )
}

fn validate_str(v: &Result<(), String>) -> String {
    match v {
        Ok(()) => "ok".into(),
        Err(e) => {
            let mut tags = Vec::new();
            for l in e.lines() {
                if l.starts_with("invalid magic") {
                    tags.push("magic");
                } else if l.starts_with("invalid version: 0") {
                    tags.push("version0");
                } else if l.contains("newer than supported") {
                    tags.push("versionnewer");
                } else if l.starts_with("rollback_start_live") {
                    tags.push("rollback");
                } else {
                    tags.push("unknown");
                }
            }
            tags.join(",")
        }
    }
}

fn dir_fp(dir: &str) -> BTreeMap<String, (u64, [u8; 32])> {
    let mut m = BTreeMap::new();
    if let Ok(rd) = std::fs::read_dir(dir) {
        for e in rd.flatten() {
            let name = e.file_name().to_string_lossy().to_string();
            if let Ok(b) = std::fs::read(e.path()) {
                m.insert(name, (b.len() as u64, vhash(&b)));
            }
        }
    }
    m
}

/// a 64-byte manifest of a directory (first 64 bytes of `meta`)
fn read_manifest(dir: &str) -> Vec<u8> {
    let b = std::fs::read(format!("{dir}/meta")).unwrap_or_default();
    b[..b.len().min(64)].to_vec()
}

fn file_len(dir: &str, f: &str) -> u64 {
    std::fs::metadata(format!("{dir}/{f}")).map(|m| m.len()).unwrap_or(0)
}

fn items_line(kvs: &[(Key, Vec<u8>)]) -> String {
    if kvs.is_empty() {
        return "-".into();
    }
    kvs.iter()
        .take(3)
        .map(|(k, v)| format!("{}:{}:{}", hex(k), if v.len() > 1332 { "o" } else { "i" }, hex(&vhash(v))))
        .collect::<Vec<_>>()
        .join(";")
}

/// the answer line of an opened handle, in the model's format
fn opened_line(p: &hook::OpenedParams, shards: usize, root: &[u8; 32], maxlog: u32, manifest: &hook::MetaFields) -> String {
    let s = |seed: &[u8; 16]| {
        format!(
            "{},{}",
            u64::from_le_bytes(seed[..8].try_into().unwrap()),
            u64::from_le_bytes(seed[8..].try_into().unwrap())
        )
    };
    // the arguments `Tree::open` / `Rollback::read` got are not retained by the real objects; what IS retained
    // (bumps, free-list heads, the live range of the seglog) is printed in their place
    let rb = match &p.rollback {
        None => "-".to_string(),
        Some(((start, end), _)) => {
            // the seglog keeps the range it was opened with (normalised: an empty log reports (0,0))
            let _ = (start, end);
            format!("{},{},{}", maxlog, manifest.rollback_start_live, manifest.rollback_end_live)
        }
    };
    format!(
        "open ok seqn={} syncpages={} syncseed={} dbseed={} tree={},{},{},{} rb={} workers={} root={}",
        p.sync_seqn,
        p.sync_num_pages,
        s(&p.sync_seed),
        s(&p.bitbox_seed),
        p.ln_freelist_head.unwrap_or(0),
        p.bbn_freelist_head.unwrap_or(0),
        p.ln_bump,
        p.bbn_bump,
        rb,
        shards,
        hex(root)
    )
}

// ------------------------------------------------------------------------------------------------ dir cases

fn dir_case(rng: &mut Rng, ci: usize, out: &mut Sink) {
    let dir = scratch(&format!("d{ci}"));
    let _ = std::fs::remove_dir_all(&dir);
    let a = Cfg::gen(rng, true);
    let shape = rng.below(9);
    let mut view: BTreeMap<Key, Vec<u8>> = BTreeMap::new();
    let mut shape_name = String::new();
    let mut pre = None;
    let made = catch_unwind(AssertUnwindSafe(|| -> anyhow::Result<()> {
        let db = Db::open(a.options(&dir))?;
        // C20: a second open while the handle lives
        if rng.chance(1, 3) {
            let before = dir_fp(&dir);
            let second = catch_unwind(AssertUnwindSafe(|| Db::open(Cfg::gen(rng, false).options(&dir))));
            match second {
                Ok(Err(_)) => out.count("second_open_refused"),
                Ok(Ok(_)) => out.fail(format!("C20 openpath case {ci}: a second open of a live directory succeeded")),
                Err(_) => out.fail(format!("C20 openpath case {ci}: a second open of a live directory panicked")),
            }
            if dir_fp(&dir) != before {
                out.fail(format!("C20 openpath case {ci}: a refused open changed a file of the directory"));
            }
        }
        let keys = gen_keyset(rng, 40);
        let pick = |rng: &mut Rng, n: usize| -> Vec<Key> {
            let mut ks: Vec<Key> = keys.iter().take(n).cloned().collect();
            while ks.len() < n {
                ks.push(rng.bytes32());
            }
            ks
        };
        match shape {
            0 => {
                shape_name = "empty-never-written".into();
            }
            1 => {
                // ONE key, value length on the boundaries
                let len = *rng.pick(&[0usize, 1, 1332, 1333, 70_000]);
                shape_name = format!("one-key-len-{len}");
                let k = if rng.chance(1, 2) { rng.bytes32() } else { [if rng.chance(1, 2) { 0u8 } else { 0xff }; 32] };
                commit(&db, &mut view, vec![(k, Some(value_of_len(rng, len)))])?;
            }
            2 => {
                shape_name = "two-keys".into();
                // same side / different sides of the root
                let k1 = rng.bytes32();
                let mut k2 = rng.bytes32();
                if rng.chance(1, 2) {
                    k2[0] = (k2[0] & 0x7f) | (k1[0] & 0x80);
                } else {
                    k2[0] = (k2[0] & 0x7f) | (!k1[0] & 0x80);
                }
                let l1 = gen_len(rng);
                let l2 = gen_len(rng);
                commit(&db, &mut view, vec![(k1, Some(value_of_len(rng, l1))), (k2, Some(value_of_len(rng, l2)))])?;
            }
            3 => {
                shape_name = "many".into();
                let n = rng.range(3, 40);
                let ks = pick(rng, n);
                let ws = ks.into_iter().map(|k| { let l = gen_len(rng); (k, Some(value_of_len(rng, l))) }).collect();
                commit(&db, &mut view, ws)?;
            }
            4 => {
                shape_name = "emptied".into();
                let n = rng.range(1, 30);
                let ks = pick(rng, n);
                let ws = ks.iter().map(|k| { let l = gen_len(rng); (*k, Some(value_of_len(rng, l))) }).collect();
                commit(&db, &mut view, ws)?;
                commit(&db, &mut view, ks.iter().map(|k| (*k, None)).collect())?;
            }
            5 => {
                shape_name = "shrunk-to-one".into();
                let n = rng.range(2, 30);
                let ks = pick(rng, n);
                let ws = ks.iter().map(|k| { let l = gen_len(rng); (*k, Some(value_of_len(rng, l))) }).collect();
                commit(&db, &mut view, ws)?;
                let keep = rng.below(ks.len());
                commit(&db, &mut view, ks.iter().enumerate().filter(|(i, _)| *i != keep).map(|(_, k)| (*k, None)).collect())?;
            }
            6 => {
                shape_name = "rollback-to-empty".into();
                let n = rng.range(1, 20);
                let ks = pick(rng, n);
                let ws = ks.iter().map(|k| { let l = gen_len(rng); (*k, Some(value_of_len(rng, l))) }).collect();
                commit(&db, &mut view, ws)?;
                if a.rollback {
                    db.rollback(1)?;
                    view.clear();
                } else {
                    shape_name = "many-no-rollback".into();
                }
            }
            7 => {
                shape_name = "shrunk-to-two".into();
                let n = rng.range(3, 30);
                let ks = pick(rng, n);
                let ws = ks.iter().map(|k| { let l = gen_len(rng); (*k, Some(value_of_len(rng, l))) }).collect();
                commit(&db, &mut view, ws)?;
                commit(&db, &mut view, ks.iter().skip(2).map(|k| (*k, None)).collect())?;
            }
            _ => {
                shape_name = "history".into();
                for _ in 0..rng.range(2, 4) {
                    let n = rng.range(1, 12);
                    let ks = pick(rng, n);
                    let ws = ks
                        .iter()
                        .map(|k| if rng.chance(1, 3) { (*k, None) } else { let l = gen_len(rng); (*k, Some(value_of_len(rng, l))) })
                        .collect();
                    commit(&db, &mut view, ws)?;
                }
            }
        }
        pre = Some((db.root().into_inner(), db.sync_seqn(), db.hash_table_utilization().occupied));
        drop(db);
        Ok(())
    }));
    out.mark_case(format!("openpath dir case {ci} shape={shape_name} A={a:?}"));
    match made {
        Ok(Ok(())) => {}
        Ok(Err(e)) => {
            // bucket exhaustion of a tiny table is legitimate; anything else is not
            out.count("dir_creation_failed");
            if a.buckets > 64 {
                out.fail(format!("C10 openpath case {ci}: building the directory failed: {e}"));
            }
            let _ = std::fs::remove_dir_all(&dir);
            return;
        }
        Err(_) => {
            out.count("dir_creation_panicked");
            out.fail(format!("C10 openpath case {ci}: building the directory panicked (shape {shape_name}, A={a:?})"));
            let _ = std::fs::remove_dir_all(&dir);
            return;
        }
    }
    let (pre_root, pre_seqn, pre_occ) = pre.unwrap();
    out.count(&format!("shape_{shape_name}"));
    let kvs: Vec<(Key, Vec<u8>)> = view.iter().map(|(k, v)| (*k, v.clone())).collect();
    let kvh: Vec<(Key, [u8; 32])> = kvs.iter().map(|(k, v)| (*k, vhash(v))).collect();
    let reference = ref_root(&kvh);
    if pre_root != reference {
        out.fail(format!("C02 openpath case {ci}: root before close differs from the reference trie"));
    }

    // reopen under B
    let reopens = if rng.chance(1, 3) { 2 } else { 1 };
    for round in 0..reopens {
        let b = Cfg::gen(rng, false);
        let manifest = read_manifest(&dir);
        let (mf, mv) = hook::meta_decode_validate(&{
            let mut m = manifest.clone();
            m.resize(64, 0);
            m
        });
        if mv.is_err() {
            out.fail(format!("C10 openpath case {ci}: the manifest a clean close left does not validate: {mv:?}"));
        }
        let htlen = file_len(&dir, "ht");
        let wallen = file_len(&dir, "wal");
        if wallen != 0 {
            out.count("wal_not_empty_after_close");
        }
        let opened = catch_unwind(AssertUnwindSafe(|| Db::open(b.options(&dir))));
        let dbg = cfg!(debug_assertions) as u8;
        match opened {
            Ok(Ok(db)) => {
                let probe = hook::probe(&db);
                let params = hook::params(&db);
                let shards = hook::shard_count(&db);
                let rp = match &probe.root_page {
                    None => "-".to_string(),
                    Some((l, r, _)) => format!("{}:{}", hex(l), hex(r)),
                };
                // the items as the REAL iterator delivered the first one, the rest from the oracle map
                let mut items = kvs.clone();
                let first_ok = match (&probe.first, items.first()) {
                    (hook::FirstItem::Nothing, None) => true,
                    (hook::FirstItem::Inline(k, len, vh), Some((k0, v0))) => k == k0 && *len == v0.len() && *vh == vhash(v0) && v0.len() <= 1332,
                    (hook::FirstItem::Overflow(k, vh, _), Some((k0, v0))) => k == k0 && *vh == vhash(v0) && v0.len() > 1332,
                    _ => false,
                };
                if !first_ok {
                    out.fail(format!(
                        "C10 openpath case {ci}: the B-tree iterator's first item {:?} is not the smallest committed key {:?}",
                        probe.first,
                        items.first().map(|(k, v)| (hex(k), v.len()))
                    ));
                }
                match &probe.first {
                    hook::FirstItem::Nothing => out.count("first_none"),
                    hook::FirstItem::Inline(..) => out.count("first_inline"),
                    hook::FirstItem::Overflow(..) => out.count("first_overflow"),
                }
                // what the model gets as first item is what the real iterator said (kind + stored hash)
                let items_s = match &probe.first {
                    hook::FirstItem::Nothing => "-".to_string(),
                    hook::FirstItem::Inline(k, _, vh) => {
                        let rest = if items.len() > 1 { format!(";{}", items_line(&items.split_off(1))) } else { String::new() };
                        format!("{}:i:{}{}", hex(k), hex(vh), rest)
                    }
                    hook::FirstItem::Overflow(k, vh, _) => {
                        let rest = if items.len() > 1 { format!(";{}", items_line(&items.split_off(1))) } else { String::new() };
                        format!("{}:o:{}{}", hex(k), hex(vh), rest)
                    }
                };
                let op = format!("open {dbg} 0 {} {} {htlen} {wallen} {rp} {items_s}", hex(&manifest), b.line());
                out.line(op.clone(), opened_line(&params, shards, &probe.reported, b.maxlog, &mf));
                out.nontrivial(&op);
                // ---- oracles
                if probe.reported != reference || probe.recomputed != reference {
                    out.fail(format!(
                        "C02 openpath case {ci} ({shape_name}, {} keys): root after reopen {} / recomputed {} differs from the reference trie {}",
                        kvs.len(), hex(&probe.reported), hex(&probe.recomputed), hex(&reference)
                    ));
                }
                match (&probe.root_page, kvs.len() >= 2) {
                    (Some((l, r, _)), true) => {
                        let mid = kvh.partition_point(|(k, _)| !bit(k, 0));
                        if *l != ref_node(&kvh[..mid], 1) || *r != ref_node(&kvh[mid..], 1) {
                            out.fail(format!("C10 openpath case {ci}: the root page's top slots are not the reference nodes of the two halves"));
                        }
                        out.count("root_page_stored_internal");
                        if *l == [0u8; 32] || *r == [0u8; 32] {
                            out.count("root_page_one_side_terminator");
                        }
                    }
                    (None, false) => out.count("root_page_absent_small_store"),
                    (Some((l, r, _)), false) => {
                        out.count("root_page_stored_small_store");
                        if *l != [0u8; 32] || *r != [0u8; 32] {
                            out.fail(format!("C10 openpath case {ci}: {} keys but the stored root page has a non-terminator top slot", kvs.len()));
                        }
                    }
                    (None, true) => out.fail(format!("C10 openpath case {ci}: {} keys but no root page is stored", kvs.len())),
                }
                if db.sync_seqn() != pre_seqn || params.sync_seqn != mf.sync_seqn {
                    out.fail(format!("C10 openpath case {ci}: seqn after reopen {} (Sync {}) / before close {pre_seqn} / manifest {}", db.sync_seqn(), params.sync_seqn, mf.sync_seqn));
                }
                if params.bitbox_occupied != pre_occ || db.hash_table_utilization().occupied != pre_occ {
                    out.fail(format!("C10 openpath case {ci}: occupancy after reopen {} differs from the pre-close value {pre_occ}", params.bitbox_occupied));
                }
                if params.sync_seed != mf.bitbox_seed || params.bitbox_seed != mf.bitbox_seed || params.sync_num_pages != mf.bitbox_num_pages
                    || params.bitbox_capacity != mf.bitbox_num_pages as usize
                {
                    out.fail(format!("C13 openpath case {ci}: the opened store runs with seed / bucket count {:?}/{:?}/{}/{} instead of the manifest's {:?}/{}",
                        params.sync_seed, params.bitbox_seed, params.sync_num_pages, params.bitbox_capacity, mf.bitbox_seed, mf.bitbox_num_pages));
                }
                if params.ln_bump != mf.ln_bump || params.bbn_bump != mf.bbn_bump || params.ln_freelist_head.unwrap_or(0) != mf.ln_freelist_pn
                    || params.bbn_freelist_head.unwrap_or(0) != mf.bbn_freelist_pn
                {
                    out.fail(format!("C13 openpath case {ci}: frontiers / free-list heads of the opened store differ from the manifest's"));
                }
                if params.rollback.is_some() != b.rollback {
                    out.fail(format!("C13 openpath case {ci}: rollback object present = {} but Options.rollback = {}", params.rollback.is_some(), b.rollback));
                }
                if mf.bitbox_seed != a.seed || mf.bitbox_num_pages != a.buckets {
                    out.fail(format!("C13 openpath case {ci}: the manifest no longer carries the seed / bucket count of the creation (round {round})"));
                }
                if b.seed != a.seed {
                    out.count("reopen_other_seed");
                }
                if b.buckets != a.buckets {
                    out.count("reopen_other_buckets");
                }
                if b.rollback != a.rollback {
                    out.count("reopen_other_rollback_flag");
                }
                if b.workers > 64 {
                    out.count("reopen_workers_clamped");
                    if shards != 64 {
                        out.fail(format!("C13 openpath case {ci}: {} workers asked, {shards} shards instead of 64", b.workers));
                    }
                }
                for (k, v) in kvs.iter().take(8) {
                    match db.read(*k) {
                        Ok(Some(x)) if &x == v => {}
                        other => out.fail(format!("C10 openpath case {ci}: value of {} after reopen: {:?}", hex(k), other.map(|o| o.map(|x| x.len())))),
                    }
                }
                // one more commit under B: the NEXT manifest must still carry A's seed and bucket count
                if round + 1 < reopens {
                    let k = rng.bytes32();
                    let mut v2 = view.clone();
                    let r = catch_unwind(AssertUnwindSafe(|| commit(&db, &mut v2, vec![(k, Some(vec![7u8; 10]))])));
                    match r {
                        Ok(Ok(())) => {
                            out.count("commit_under_B");
                            drop(db);
                            let m2 = read_manifest(&dir);
                            let (f2, _) = hook::meta_decode_validate(&m2);
                            if f2.bitbox_seed != a.seed || f2.bitbox_num_pages != a.buckets {
                                out.fail(format!("C13 openpath case {ci}: after a commit under other Options the manifest carries seed {:?} / {} buckets instead of the creation's {:?} / {}",
                                    f2.bitbox_seed, f2.bitbox_num_pages, a.seed, a.buckets));
                            }
                            // the store after it: handled by the next round against a fresh oracle view
                            let _ = std::fs::remove_dir_all(&dir);
                            return;
                        }
                        _ => {
                            out.count("commit_under_B_failed");
                            let _ = std::fs::remove_dir_all(&dir);
                            return;
                        }
                    }
                }
                drop(db);
            }
            Ok(Err(e)) => {
                let op = format!("open {dbg} 0 {} {} {htlen} {wallen} - -", hex(&manifest), b.line());
                out.line(op, "open err".into());
                if b.workers != 0 {
                    out.fail(format!("C10 openpath case {ci}: reopening a cleanly closed directory failed: {e}"));
                }
            }
            Err(_) => {
                let op = format!("open {dbg} 0 {} {} {htlen} {wallen} - -", hex(&manifest), b.line());
                out.line(op, "open panic".into());
                out.fail(format!("C10 openpath case {ci}: reopening a cleanly closed directory panicked (B={b:?})"));
            }
        }
    }
    let _ = std::fs::remove_dir_all(&dir);
}

// ------------------------------------------------------------------------------------------------ meta cases

fn gen_fields(rng: &mut Rng) -> hook::MetaFields {
    let mut seed = [0u8; 16];
    seed.copy_from_slice(&rng.bytes32()[..16]);
    let b32 = |rng: &mut Rng| -> u32 {
        match rng.below(6) {
            0 => 0,
            1 => 1,
            2 => u32::MAX,
            3 => u32::MAX - 4095,
            4 => rng.below(10000) as u32,
            _ => rng.next() as u32,
        }
    };
    let b64 = |rng: &mut Rng| -> u64 {
        match rng.below(5) {
            0 => 0,
            1 => 1,
            2 => u64::MAX,
            3 => rng.below(1000) as u64,
            _ => rng.next(),
        }
    };
    let mut f = hook::MetaFields {
        magic: *b"NOMT",
        version: 1,
        ln_freelist_pn: b32(rng),
        ln_bump: b32(rng),
        bbn_freelist_pn: b32(rng),
        bbn_bump: b32(rng),
        sync_seqn: b32(rng),
        bitbox_num_pages: b32(rng),
        bitbox_seed: seed,
        rollback_start_live: 0,
        rollback_end_live: 0,
    };
    match rng.below(8) {
        0 => f.magic = (rng.next() as u32).to_le_bytes(),
        1 => f.magic = *b"NOMU",
        2 => f.version = 0,
        3 => f.version = 2,
        4 => f.version = b32(rng),
        _ => {}
    }
    match rng.below(5) {
        0 => {
            f.rollback_start_live = b64(rng);
            f.rollback_end_live = b64(rng);
        }
        1 => f.rollback_start_live = 1 + rng.below(10) as u64,
        2 => f.rollback_end_live = 1 + rng.below(10) as u64,
        3 => {
            f.rollback_start_live = 1 + rng.below(10) as u64;
            f.rollback_end_live = f.rollback_start_live + rng.below(5) as u64;
        }
        _ => {}
    }
    f
}

fn fields_nums(f: &hook::MetaFields) -> String {
    format!(
        "{} {} {} {} {} {} {} {} {} {} {} {}",
        u32::from_le_bytes(f.magic),
        f.version,
        f.ln_freelist_pn,
        f.ln_bump,
        f.bbn_freelist_pn,
        f.bbn_bump,
        f.sync_seqn,
        f.bitbox_num_pages,
        u64::from_le_bytes(f.bitbox_seed[..8].try_into().unwrap()),
        u64::from_le_bytes(f.bitbox_seed[8..].try_into().unwrap()),
        f.rollback_start_live,
        f.rollback_end_live
    )
}

fn meta_case(rng: &mut Rng, ci: usize, out: &mut Sink) {
    out.mark_case(format!("openpath meta case {ci}"));
    let f = gen_fields(rng);
    // encode_to / validate on generated fields
    let enc = hook::meta_encode(&f, 64);
    let (back, verdict) = hook::meta_decode_validate(&enc);
    if back != f {
        out.fail(format!("C10 openpath meta case {ci}: decode(encode(m)) differs from m"));
    }
    out.line(format!("metaenc {}", fields_nums(&f)), format!("metaenc {} validate={}", hex(&enc), validate_str(&verdict)));
    out.count(if verdict.is_ok() { "meta_valid" } else { "meta_invalid" });
    // what validate must say (independent restatement)
    let expect_ok = f.magic == *b"NOMT" && f.version == 1 && ((f.rollback_start_live == 0) == (f.rollback_end_live == 0));
    if verdict.is_ok() != expect_ok {
        out.fail(format!("C10 openpath meta case {ci}: validate says {verdict:?} on {f:?}"));
    }
    // create_new
    let nf = hook::meta_create_new(f.bitbox_seed, f.bitbox_num_pages);
    let (s0, s1) = (
        u64::from_le_bytes(f.bitbox_seed[..8].try_into().unwrap()),
        u64::from_le_bytes(f.bitbox_seed[8..].try_into().unwrap()),
    );
    out.line(format!("metanew {s0} {s1} {}", f.bitbox_num_pages), format!("metanew {}", hex(&hook::meta_encode(&nf, 64))));
    // Meta::read on a file
    let len = *rng.pick(&[0usize, 1, 63, 64, 4095, 4096, 4096, 4096, 8192]);
    let mut bytes = match rng.below(3) {
        0 => (0..len.min(64)).map(|_| rng.next() as u8).collect::<Vec<u8>>(),
        _ => {
            let mut e = enc.clone();
            e.truncate(len.min(64));
            e
        }
    };
    let prefix = bytes.clone();
    bytes.resize(len, 0);
    let path = scratch(&format!("meta{ci}"));
    std::fs::write(&path, &bytes).unwrap();
    let file = std::fs::File::open(&path).unwrap();
    let r = catch_unwind(AssertUnwindSafe(|| hook::meta_read_validate(&file)));
    let imp = match r {
        Ok(Ok((fields, v))) => format!("meta ok {} validate={}", manifest_fields_line(&fields), validate_str(&v)),
        Ok(Err(_)) => "meta err".into(),
        Err(_) => {
            out.fail(format!("C10 openpath meta case {ci}: Meta::read panicked on a file of {len} bytes"));
            "meta panic".into()
        }
    };
    let op = format!("meta {len} {}", if prefix.is_empty() { "-".to_string() } else { hex(&prefix) });
    out.nontrivial(&op);
    out.line(op, imp);
    out.count(&format!("meta_file_len_{len}"));
    let _ = std::fs::remove_file(&path);
}

// ------------------------------------------------------------------------------------------------ ht cases

fn expected_len(n: u64) -> u64 {
    ((n + 4095) / 4096 + n) * 4096
}

fn ht_case(rng: &mut Rng, ci: usize, out: &mut Sink) {
    out.mark_case(format!("openpath ht case {ci}"));
    let dbg = cfg!(debug_assertions) as u8;
    let n: u32 = match rng.below(12) {
        0 => 0,
        1 => 1,
        2 | 3 => *rng.pick(&[4095u32, 4096, 4097, 8192, 8193]),
        4 | 5 | 6 | 7 => rng.range(1, 70_000) as u32,
        8 => *rng.pick(&[u32::MAX, u32::MAX - 4094, u32::MAX - 4095, u32::MAX - 4096]),
        9 => *rng.pick(&[0xFFF0_0000u32, 0xFFEF_FFFF, 0xFFF0_0001, 0xFFEF_FFFE]),
        _ => *rng.pick(&[64_000u32, 1 << 20, 1 << 31, (1 << 31) + 1]),
    };
    let exact = expected_len(n as u64);
    let len: u64 = if n > 100_000 {
        // never materialise terabytes: small wrong lengths only (+ the wrapped length a release build would expect)
        *rng.pick(&[0u64, 4096, 8192, (((n as u64 + 4095) % (1 << 32)) / 4096 + n as u64) % (1 << 32) * 4096 % (1 << 24)])
    } else {
        match rng.below(7) {
            0 => 0,
            1 => exact + 1,
            2 => exact.saturating_sub(1),
            3 => exact + 4096,
            4 => exact.saturating_sub(4096),
            _ => exact,
        }
    };
    let path = scratch(&format!("ht{ci}"));
    let file = std::fs::OpenOptions::new().read(true).write(true).create(true).truncate(true).open(&path).unwrap();
    file.set_len(len).unwrap();
    // a few full / tombstone / garbage meta bytes
    let mut expect_full = 0usize;
    if len == exact && n > 0 {
        use std::os::unix::fs::FileExt;
        let meta_len = ((n as u64 + 4095) / 4096) * 4096;
        let mut seen = std::collections::BTreeSet::new();
        for _ in 0..rng.below(6) {
            let pos = rng.below(meta_len as usize) as u64;
            if !seen.insert(pos) {
                continue;
            }
            let b = *rng.pick(&[0x80u8, 0xff, 0x7f, 0x01, 0xc3]);
            file.write_all_at(&[b], pos).unwrap();
            if b & 0x80 != 0 {
                expect_full += 1;
            }
        }
    }
    let r = catch_unwind(AssertUnwindSafe(|| hook::ht::open(n, &file)));
    let imp = match r {
        Ok(Ok(h)) => {
            if h.full_count != expect_full {
                out.fail(format!("C10 openpath ht case {ci}: full_count {} but {} bytes with the top bit were written", h.full_count, expect_full));
            }
            if h.buckets != n as usize || h.meta_bytes_len as u64 != ((n as u64 + 4095) / 4096) * 4096 {
                out.fail(format!("C10 openpath ht case {ci}: meta map of {} buckets / {} bytes for num_pages {n}", h.buckets, h.meta_bytes_len));
            }
            out.count("ht_open_ok");
            format!("htopen ok {}", h.data_page_offset)
        }
        Ok(Err(_)) => {
            if len == exact && (n as u64) < (1 << 31) {
                out.fail(format!("C10 openpath ht case {ci}: a table file of exactly the expected length is refused"));
            }
            out.count("ht_open_err");
            "htopen err".into()
        }
        Err(_) => {
            out.count("ht_open_panic");
            "htopen panic".into()
        }
    };
    let op = format!("htopen {dbg} {n} {len}");
    out.nontrivial(&op);
    out.line(op, imp);
    drop(file);
    let _ = std::fs::remove_file(&path);

    // ht_file::create (small tables only on the real side; the overflowing ones are predicted panics in debug)
    let n2: u32 = match rng.below(5) {
        0 => 0,
        1 => rng.range(1, 9000) as u32,
        2 => u32::MAX,
        3 => 0xFFF0_0001,
        _ => *rng.pick(&[1u32, 4095, 4096, 4097]),
    };
    let wraps = (n2 as u64 + 4095) >= (1 << 32) || (n2 as u64 + (n2 as u64 + 4095) / 4096) >= (1 << 32);
    if n2 <= 9000 || (wraps && dbg == 1) {
        let dir = scratch(&format!("htc{ci}"));
        let _ = std::fs::remove_dir_all(&dir);
        std::fs::create_dir_all(&dir).unwrap();
        let r = catch_unwind(AssertUnwindSafe(|| hook::ht::create(dir.clone().into(), n2, false)));
        let imp = match r {
            Ok(Ok(())) => {
                let l = file_len(&dir, "ht");
                if file_len(&dir, "wal") != 0 {
                    out.fail(format!("C10 openpath ht case {ci}: ht_file::create leaves a non-empty wal"));
                }
                format!("htcreate ok {l}")
            }
            Ok(Err(_)) => "htcreate err".into(),
            Err(_) => {
                out.count("ht_create_panic");
                "htcreate panic".into()
            }
        };
        out.line(format!("htcreate {dbg} {n2}"), imp);
        let _ = std::fs::remove_dir_all(&dir);
    }
}

// ------------------------------------------------------------------------------------------------ effective

fn effective_case(rng: &mut Rng, ci: usize, out: &mut Sink) {
    out.mark_case(format!("openpath effective case {ci}"));
    let dbg = cfg!(debug_assertions) as u8;
    let cc = *rng.pick(&[0usize, 1, 1, 2, 3, 63, 64, 65, 100, 1000]);
    let big = 1usize << 44;
    let pcs = *rng.pick(&[0usize, 1, 2, 256, 256, 1 << 20, big - 1, big, big * 2]);
    let lcs = *rng.pick(&[0usize, 1, 256, 256, 1 << 20, big - 1, big]);
    let up = rng.below(4);
    let dir = scratch(&format!("e{ci}"));
    let _ = std::fs::remove_dir_all(&dir);
    let mut o = Options::new();
    o.path(&dir);
    o.commit_concurrency(cc);
    o.page_cache_size(pcs);
    o.leaf_cache_size(lcs);
    o.page_cache_upper_levels(up);
    o.hashtable_buckets(64);
    o.preallocate_ht(false);
    let r = catch_unwind(AssertUnwindSafe(|| Db::open(o)));
    let imp = match r {
        Ok(Ok(db)) => {
            let shards = hook::shard_count(&db);
            if shards != cc.min(64) {
                out.fail(format!("C13 openpath effective case {ci}: commit_concurrency {cc} gives {shards} page-cache shards"));
            }
            out.count("effective_ok");
            format!("effective ok workers={shards} shards={shards} levels={up}")
        }
        Ok(Err(_)) => {
            if cc != 0 {
                out.fail(format!("C13 openpath effective case {ci}: open fails with commit_concurrency {cc}, caches {pcs} / {lcs} MiB"));
            }
            out.count("effective_err");
            "effective err".into()
        }
        Err(_) => {
            out.count("effective_panic");
            if pcs < big && lcs < big {
                out.fail(format!("C13 openpath effective case {ci}: open panics with commit_concurrency {cc}, caches {pcs} / {lcs} MiB"));
            }
            "effective panic".into()
        }
    };
    let op = format!("effective {dbg} {cc} {pcs} {lcs} {up}");
    out.nontrivial(&op);
    out.line(op, imp);
    let _ = std::fs::remove_dir_all(&dir);
}

// ------------------------------------------------------------------------------------------------ corrupted manifests

/// the damaged manifests tried on a real directory; `(name, fields)` — free-list heads are left alone here (a cyclic
/// chain does not terminate: probed separately, in a child process, by `openpath-findings`)
fn corruptions(good: &hook::MetaFields, rng: &mut Rng) -> Vec<(String, hook::MetaFields)> {
    let mut v = Vec::new();
    let mut push = |name: &str, f: hook::MetaFields| v.push((name.to_string(), f));
    let mut f = good.clone();
    f.magic = *b"NOMU";
    push("magic", f);
    let mut f = good.clone();
    f.version = 0;
    push("version0", f);
    let mut f = good.clone();
    f.version = 2;
    push("version2", f);
    let mut f = good.clone();
    f.rollback_start_live = 5;
    f.rollback_end_live = 0;
    push("rollback-half-nil", f);
    let mut f = good.clone();
    f.bitbox_num_pages = good.bitbox_num_pages + 1;
    push("pages-plus-1", f);
    let mut f = good.clone();
    f.bitbox_num_pages = 0;
    push("pages-0", f);
    let mut f = good.clone();
    f.bitbox_num_pages = u32::MAX;
    push("pages-max", f);
    let mut f = good.clone();
    f.bitbox_num_pages = u32::MAX - 4095;
    push("pages-max-4095", f);
    let mut f = good.clone();
    f.bbn_bump = good.bbn_bump + 1 + rng.below(1000) as u32;
    push("bbn-bump-beyond-file", f);
    let mut f = good.clone();
    f.bbn_bump = 0;
    push("bbn-bump-0", f);
    let mut f = good.clone();
    f.ln_bump = 0;
    push("ln-bump-0", f);
    let mut f = good.clone();
    for b in f.bitbox_seed.iter_mut() {
        *b ^= 0x5a;
    }
    push("seed-flipped", f);
    v
}

/// build one small real directory (4 keys, rollback off) and return its path + the fields of its manifest
fn corrupt_base(tag: &str) -> Option<(String, hook::MetaFields, Vec<(Key, Vec<u8>)>)> {
    let dir = scratch(tag);
    let _ = std::fs::remove_dir_all(&dir);
    let mut o = Options::new();
    o.path(&dir);
    o.hashtable_buckets(300);
    o.preallocate_ht(false);
    o.bitbox_seed([9u8; 16]);
    let mut view = BTreeMap::new();
    let db = Db::open(o).ok()?;
    let mut ws = Vec::new();
    for i in 0..4u8 {
        let mut k = [0u8; 32];
        k[0] = i.wrapping_mul(67);
        k[5] = i;
        ws.push((k, Some(vec![i; 20 + i as usize])));
    }
    commit(&db, &mut view, ws).ok()?;
    drop(db);
    let m = read_manifest(&dir);
    let (f, _) = hook::meta_decode_validate(&m);
    Some((dir, f, view.into_iter().collect()))
}

fn write_manifest(dir: &str, f: &hook::MetaFields) {
    let page = hook::meta_encode(f, 4096);
    std::fs::write(format!("{dir}/meta"), page).unwrap();
}

fn copy_dir(from: &str, to: &str) {
    let _ = std::fs::remove_dir_all(to);
    std::fs::create_dir_all(to).unwrap();
    for e in std::fs::read_dir(from).unwrap().flatten() {
        let _ = std::fs::copy(e.path(), format!("{to}/{}", e.file_name().to_string_lossy()));
    }
}

fn corrupt_case(rng: &mut Rng, ci: usize, out: &mut Sink, findings: bool) {
    out.mark_case(format!("openpath corrupt case {ci}"));
    let Some((base, good, kvs)) = corrupt_base(&format!("cb{ci}")) else {
        out.fail(format!("C10 openpath corrupt case {ci}: could not build the base directory"));
        let _ = std::fs::remove_dir_all(scratch(&format!("cb{ci}")));
        return;
    };
    let dbg = cfg!(debug_assertions) as u8;
    let kvh: Vec<(Key, [u8; 32])> = kvs.iter().map(|(k, v)| (*k, vhash(v))).collect();
    let all = corruptions(&good, rng);
    // a quick case tries three of them, the findings command all
    let chosen: Vec<_> = if findings { all } else { (0..3).map(|_| all[rng.below(all.len())].clone()).collect() };
    for (name, f) in chosen {
        let dir = scratch(&format!("cc{ci}"));
        copy_dir(&base, &dir);
        write_manifest(&dir, &f);
        // "pages-0" needs a table file of length 0 to get past the length check
        let truncated = name == "pages-0" && rng.chance(1, 2) || (findings && name == "pages-0");
        if truncated {
            std::fs::OpenOptions::new().write(true).open(format!("{dir}/ht")).unwrap().set_len(0).unwrap();
        }
        let htlen = file_len(&dir, "ht");
        let mut o = Options::new();
        o.path(&dir);
        o.hashtable_buckets(300);
        o.preallocate_ht(false);
        let r = catch_unwind(AssertUnwindSafe(|| Db::open(o).map(|db| (db.root().into_inner(), hook::probe(&db)))));
        let class = match &r {
            Ok(Ok(_)) => "ok",
            Ok(Err(_)) => "err",
            Err(_) => "panic",
        };
        out.count(&format!("corrupt_{name}{}_{class}", if truncated { "-ht0" } else { "" }));
        if class == "panic" {
            out.count(&format!("corrupt_panic_{name}"));
            if findings {
                out.fail(format!("C10 openpath corrupt case {ci}: Nomt::open PANICS on a directory whose manifest has `{name}`{} (an error value is expected)", if truncated { " and an empty ht file" } else { "" }));
            }
        }
        if let Ok(Ok((root, _))) = &r {
            // a damaged manifest that is accepted must at least not change the root silently
            if *root != ref_root(&kvh) {
                out.count(&format!("corrupt_accepted_wrong_root_{name}"));
                if findings {
                    out.fail(format!("C10 openpath corrupt case {ci}: manifest with `{name}` is accepted and the root differs from the committed one"));
                }
            }
        }
        // the mirror's verdict class on the same manifest (root page / items as a healthy open would deliver them)
        let mid = kvh.partition_point(|(k, _)| !bit(k, 0));
        let rp = format!("{}:{}", hex(&ref_node(&kvh[..mid], 1)), hex(&ref_node(&kvh[mid..], 1)));
        let c = Cfg { workers: 1, buckets: 300, seed: [0; 16], rollback: false, maxlog: 100, page_cache: 256, leaf_cache: 256, upper: 2, io: 3, warm_up: false, prepopulate: false };
        let op = format!("open {dbg} 0 {} {} {htlen} 0 {rp} {}", hex(&hook::meta_encode(&f, 64)), c.line(), items_line(&kvs));
        // only the verdict class is comparable: parts the mirror takes as parameters (Tree::open, load_page) decide the
        // rest; classes that depend on them are normalised to `open part`
        let part_dependent = matches!(name.as_str(), "bbn-bump-beyond-file" | "bbn-bump-0" | "ln-bump-0" | "seed-flipped" | "pages-0");
        if !part_dependent {
            let imp = match class {
                "ok" => {
                    let (_, probe) = r.as_ref().unwrap().as_ref().unwrap();
                    let db_params = format!("classonly {}", hex(&probe.reported));
                    let _ = db_params;
                    "open ok".to_string()
                }
                "err" => "open err".into(),
                _ => "open panic".into(),
            };
            out.line(format!("class {op}"), imp);
        }
        let _ = std::fs::remove_dir_all(&dir);
    }
    let _ = std::fs::remove_dir_all(&base);
}

// ------------------------------------------------------------------------------------------------ entry points

pub fn run(seed: u64, cases: usize, out: &mut Sink) {
    let only: Option<usize> = std::env::var("VH_OPENPATH_ONLY").ok().and_then(|s| s.parse().ok());
    let mut rng = Rng::new(seed ^ 0x0937);
    for ci in 0..cases {
        let mut r = rng.fork();
        if let Some(o) = only {
            if o != ci {
                continue;
            }
        }
        match ci % 10 {
            0 | 1 | 2 | 3 | 4 => dir_case(&mut r, ci, out),
            5 | 6 => meta_case(&mut r, ci, out),
            7 => ht_case(&mut r, ci, out),
            8 => effective_case(&mut r, ci, out),
            _ => corrupt_case(&mut r, ci, out, false),
        }
    }
}

/// every corrupted-manifest probe with panics / silently wrong roots reported as oracle failures (notes/Q37.md (e))
pub fn run_findings(seed: u64, out: &mut Sink) {
    let mut rng = Rng::new(seed ^ 0x0937);
    corrupt_case(&mut rng, 0, out, true);
    // a ONE-key store whose `ln` file lost its leaf page: `compute_root_node` does not look at the completion's result
    out.mark_case("openpath findings: one key, ln truncated to the nil page".into());
    let dir = scratch("ln1");
    let _ = std::fs::remove_dir_all(&dir);
    let mk = |dir: &str| {
        let mut o = Options::new();
        o.path(dir);
        o.hashtable_buckets(64);
        o.preallocate_ht(false);
        o
    };
    let built = catch_unwind(AssertUnwindSafe(|| -> anyhow::Result<[u8; 32]> {
        let db = Db::open(mk(&dir))?;
        let mut view = BTreeMap::new();
        commit(&db, &mut view, vec![([0x42u8; 32], Some(vec![1u8; 40]))])?;
        Ok(db.root().into_inner())
    }));
    if let Ok(Ok(good_root)) = built {
        std::fs::OpenOptions::new().write(true).open(format!("{dir}/ln")).unwrap().set_len(4096).unwrap();
        match catch_unwind(AssertUnwindSafe(|| Db::open(mk(&dir)).map(|db| db.root().into_inner()))) {
            Ok(Ok(r)) => {
                out.count("ln_truncated_open_ok");
                if r != good_root {
                    out.count("ln_truncated_open_ok_wrong_root");
                    out.fail(format!("C10 openpath: ln truncated below the only leaf: Nomt::open returns Ok with root {} (committed root {}) — the failed leaf read is not reported", hex(&r), hex(&good_root)));
                }
            }
            Ok(Err(_)) => out.count("ln_truncated_open_err"),
            Err(_) => {
                out.count("ln_truncated_open_panic");
                out.fail("C10 openpath: ln truncated below the only leaf: Nomt::open PANICS (compute_root_node ignores the failed read and parses the unfilled page)".into());
            }
        }
    }
    let _ = std::fs::remove_dir_all(&dir);
    // Options::hashtable_buckets(0) through the public API
    out.mark_case("openpath findings: create with hashtable_buckets(0)".into());
    let dir = scratch("hb0");
    let _ = std::fs::remove_dir_all(&dir);
    let mut o = Options::new();
    o.path(&dir);
    o.hashtable_buckets(0);
    o.preallocate_ht(false);
    match catch_unwind(AssertUnwindSafe(|| Db::open(o).map(|_| ()))) {
        Ok(Ok(())) => out.count("buckets0_create_ok"),
        Ok(Err(_)) => out.count("buckets0_create_err"),
        Err(_) => {
            out.count("buckets0_create_panic");
            out.fail("C13 openpath: Nomt::open with Options::hashtable_buckets(0) PANICS on a fresh directory (remainder by zero in ProbeSequence::new)".into());
        }
    }
    // … and the directory it leaves
    let mut o = Options::new();
    o.path(&dir);
    o.preallocate_ht(false);
    match catch_unwind(AssertUnwindSafe(|| Db::open(o).map(|_| ()))) {
        Ok(Ok(())) => out.count("buckets0_reopen_ok"),
        Ok(Err(_)) => out.count("buckets0_reopen_err"),
        Err(_) => {
            out.count("buckets0_reopen_panic");
            out.fail("C13 openpath: the directory a hashtable_buckets(0) creation leaves PANICS on every later open, whatever the Options".into());
        }
    }
    let _ = std::fs::remove_dir_all(&dir);
}
