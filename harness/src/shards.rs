//! `shards`: how ONE merkle update is split across the commit workers and how the session witness is
//! assembled (hook H9, `nomt::verif_api::split_trace`).
//!
//! Every case opens a real store under /dev/shm with a chosen `commit_concurrency`, commits a prior state
//! whose trie has terminals INSIDE the root page (depth 0…6) whose key ranges straddle the boundaries of
//! `shard_regions(n)`, then finishes witness-mode sessions whose sorted operations touch both sides of the
//! boundaries.  The trace of the real `RangeUpdater::new / handle_completion / update`, of the root-page
//! pass and of `UpdateHandle::join` (worker ranges, every batch with its owner, `witnessed_start`, the
//! pending list, the child-page roots, the completion order) and the witness exactly as `join` assembled
//! it are compared line by line with the Lean mirror (`nomt_model shards`).
//!
//! Oracles (independent of the model, tagged with the property they decide):
//!   C13  the ranges partition the operation list by the first six key bits according to the region table;
//!        every batch (run of operations under one terminal of the PRIOR trie, computed with the harness'
//!        reference trie) is owned by exactly one worker — the one whose range holds its first operation;
//!        the new root is the reference root of the updated set whatever the worker count
//!   C06  `witnessed_start` of a worker is the start of its first owned batch; the assembled witness
//!        verifies against the base root, every operation hangs under the path that covers its key, reads
//!        are confirmed and carry the view's value, `verify_update` replays to the reported root
//!   C02  every child-page root a worker reports is the reference node of the updated set at that position
use crate::core_pp::{bitslice_str, term_str};
use crate::db::vhash;
use crate::util::*;
use nomt::hasher::Blake3Hasher;
use nomt::trie::LeafData;
use nomt::verif_api::split_trace::{self, Event, Pending};
use nomt::{KeyReadWrite, Nomt, Options, SessionParams, WitnessMode};
use std::collections::BTreeMap;
use std::panic::{catch_unwind, AssertUnwindSafe};

type Db = Nomt<Blake3Hasher>;
type Val = Vec<u8>;
type Map = BTreeMap<Key, Val>;

pub const WORKERS: [usize; 9] = [1, 2, 3, 5, 6, 7, 12, 33, 64];

/// the region table from first principles: the first `64 % n` workers get one more root child
pub(crate) fn regions(n: usize) -> Vec<(usize, usize)> {
    let mut v = Vec::new();
    let mut s = 0;
    for i in 0..n {
        let c = 64 / n + usize::from(i < 64 % n);
        v.push((s, c));
        s += c;
    }
    v
}

pub(crate) fn top6(k: &Key) -> usize {
    (k[0] >> 2) as usize
}

pub(crate) fn set_top6(k: &mut Key, c: usize) {
    k[0] = (k[0] & 3) | ((c as u8) << 2);
}

/// a key whose first six bits are `c`; tail: 0 = zeros, 1 = ones, else random
fn key_in_child(rng: &mut Rng, c: usize) -> Key {
    let t = rng.below(3);
    key_in_child_t(rng, c, t)
}

fn key_in_child_t(rng: &mut Rng, c: usize, tail: usize) -> Key {
    let mut k = match tail {
        0 => [0u8; 32],
        1 => [0xffu8; 32],
        _ => rng.bytes32(),
    };
    set_top6(&mut k, c);
    k
}

pub(crate) fn has_prefix(k: &Key, p: &[bool]) -> bool {
    p.iter().enumerate().all(|(i, b)| bit(k, i) == *b)
}

pub(crate) fn bits_string(p: &[bool]) -> String {
    if p.is_empty() {
        "-".into()
    } else {
        p.iter().map(|b| if *b { '1' } else { '0' }).collect()
    }
}

pub(crate) fn six_bits(c: usize) -> Vec<bool> {
    (0..6).map(|i| (c >> (5 - i)) & 1 == 1).collect()
}

/// number of leading bits the six-bit numbers `a` and `b` share
fn lcp6(a: usize, b: usize) -> usize {
    let (x, y) = (six_bits(a), six_bits(b));
    (0..6).take_while(|i| x[*i] == y[*i]).count()
}

fn gen_val(rng: &mut Rng) -> Val {
    let n = rng.range(1, 40);
    (0..n).map(|_| rng.next() as u8).collect()
}

#[derive(Clone, Debug, PartialEq)]
pub(crate) enum Kind {
    Read,
    Write(Option<Val>),
    ReadWrite(Option<Val>),
}

struct Case {
    view: Map,
    /// prefixes built to be root-page terminals straddling a region boundary
    straddle: Vec<Vec<bool>>,
}

/// a prior state aimed at worker boundaries of `regions(n)`
fn gen_view(rng: &mut Rng, n: usize) -> Case {
    let regs = regions(n);
    let bounds: Vec<usize> = regs.iter().map(|r| r.0).filter(|s| *s > 0).collect();
    let mut keys: Vec<Key> = Vec::new();
    let mut straddle: Vec<Vec<bool>> = Vec::new();
    let style = rng.below(8);
    match style {
        0 => {
            // empty or single-leaf trie: the terminal IS the root (depth 0), straddling every boundary
            if rng.chance(1, 2) {
                keys.push(rng.bytes32());
            }
            straddle.push(vec![]);
        }
        1 => {
            for _ in 0..rng.range(2, 8) {
                keys.push(rng.bytes32());
            }
        }
        2 | 3 | 4 | 5 => {
            // one or two terminals at depth 1…6 whose key range straddles a boundary
            let want = rng.range(1, 2);
            for _ in 0..want {
                let cands: Vec<usize> = bounds.iter().cloned().filter(|c| lcp6(c - 1, *c) >= 1).collect();
                if cands.is_empty() {
                    break;
                }
                let c = *rng.pick(&cands);
                let m = lcp6(c - 1, c);
                let d = rng.range(1, m);
                let p: Vec<bool> = six_bits(c)[..d].to_vec();
                if straddle.iter().any(|q| q.starts_with(&p) || p.starts_with(q)) {
                    continue;
                }
                // at most one key under p, on a random side of the boundary
                match rng.below(3) {
                    0 => {}
                    1 => keys.push(key_in_child(rng, c - 1)),
                    _ => keys.push(key_in_child(rng, c)),
                }
                // at least two keys under the sibling of p (so that p's parent is internal)
                let mut sib = p.clone();
                let last = sib.len() - 1;
                sib[last] = !sib[last];
                for _ in 0..rng.range(2, 4) {
                    let mut k = rng.bytes32();
                    for (i, b) in sib.iter().enumerate() {
                        set_bit(&mut k, i, *b);
                    }
                    keys.push(k);
                }
                straddle.push(p);
            }
            for _ in 0..rng.below(7) {
                keys.push(rng.bytes32());
            }
            if style >= 4 {
                // clusters under single root children: terminals below the root page (exclusive pages)
                for _ in 0..rng.range(1, 3) {
                    let c = rng.below(64);
                    let base = key_in_child_t(rng, c, 2);
                    for _ in 0..rng.range(2, 5) {
                        let d = rng.range(6, 20);
                        keys.push(with_prefix(rng, &base, d));
                    }
                }
            }
        }
        6 => {
            for _ in 0..rng.range(20, 70) {
                keys.push(rng.bytes32());
            }
            for _ in 0..rng.range(1, 3) {
                let c = if !bounds.is_empty() && rng.chance(2, 3) { *rng.pick(&bounds) - rng.below(2) } else { rng.below(64) };
                let base = key_in_child_t(rng, c, 2);
                for _ in 0..rng.range(2, 6) {
                    let d = rng.range(6, 30);
                    keys.push(with_prefix(rng, &base, d));
                }
            }
        }
        _ => {
            // keys exactly at the edges of every region
            for (s, cnt) in regs.iter() {
                if rng.chance(1, 2) {
                    keys.push(key_in_child(rng, *s));
                }
                if rng.chance(1, 2) {
                    keys.push(key_in_child(rng, s + cnt - 1));
                }
            }
            for _ in 0..rng.below(6) {
                keys.push(rng.bytes32());
            }
        }
    }
    // keep the straddling prefixes terminals: at most one key under each
    let mut view = Map::new();
    let mut under: Vec<usize> = vec![0; straddle.len()];
    for k in keys {
        let mut ok = true;
        for (i, p) in straddle.iter().enumerate() {
            if !p.is_empty() && has_prefix(&k, p) {
                if under[i] >= 1 {
                    ok = false;
                } else {
                    under[i] += 1;
                }
            }
        }
        if ok {
            view.insert(k, gen_val(rng));
        }
    }
    Case { view, straddle }
}

fn gen_ops(rng: &mut Rng, n: usize, case: &Case) -> Vec<(Key, Kind)> {
    let regs = regions(n);
    let bounds: Vec<usize> = regs.iter().map(|r| r.0).filter(|s| *s > 0).collect();
    let existing: Vec<Key> = case.view.keys().cloned().collect();
    let count = match rng.below(4) {
        0 => rng.range(1, 4),
        1 => rng.range(3, 12),
        _ => rng.range(8, 40),
    };
    let mut acc: BTreeMap<Key, Kind> = BTreeMap::new();
    for _ in 0..count {
        let k = match rng.below(10) {
            0 | 1 if !existing.is_empty() => *rng.pick(&existing),
            2 | 3 if !bounds.is_empty() => {
                // both sides of a boundary
                let c = *rng.pick(&bounds);
                let k1 = key_in_child(rng, c - 1);
                acc.entry(k1).or_insert(Kind::Read);
                key_in_child(rng, c)
            }
            4 | 5 | 6 if !case.straddle.is_empty() => {
                // under a straddling terminal, on a random side
                let p = rng.pick(&case.straddle).clone();
                let mut k = rng.bytes32();
                for (i, b) in p.iter().enumerate() {
                    set_bit(&mut k, i, *b);
                }
                if rng.chance(1, 2) && !bounds.is_empty() {
                    // … close to a boundary inside the terminal's range
                    let inside: Vec<usize> = bounds.iter().cloned().filter(|c| six_bits(*c).starts_with(&p) && six_bits(c - 1).starts_with(&p)).collect();
                    if !inside.is_empty() {
                        let c = *rng.pick(&inside);
                        set_top6(&mut k, if rng.chance(1, 2) { c } else { c - 1 });
                    }
                }
                k
            }
            7 if !existing.is_empty() => {
                // a neighbour of an existing key (same terminal or a fork below it)
                let base = *rng.pick(&existing);
                let d = rng.range(1, 40);
                diverge_at(rng, &base, d)
            }
            _ => rng.bytes32(),
        };
        let kind = match rng.below(10) {
            0 | 1 | 2 => Kind::Read,
            3 => Kind::Write(None),
            4 => Kind::ReadWrite(None),
            5 => Kind::ReadWrite(Some(gen_val(rng))),
            _ => Kind::Write(Some(gen_val(rng))),
        };
        acc.insert(k, kind);
    }
    acc.into_iter().collect()
}

pub(crate) fn view_hashes(m: &Map) -> Vec<(Key, [u8; 32])> {
    m.iter().map(|(k, v)| (*k, vhash(v))).collect()
}

/// reference terminal position (prefix bits) of `key` in the trie of `kvs`
pub(crate) fn ref_terminal(kvs: &[(Key, [u8; 32])], key: &Key) -> Vec<bool> {
    let mut cur = kvs;
    let mut d = 0;
    while cur.len() > 1 {
        let mid = cur.partition_point(|(k, _)| !bit(k, d));
        cur = if bit(key, d) { &cur[mid..] } else { &cur[..mid] };
        d += 1;
    }
    (0..d).map(|i| bit(key, i)).collect()
}

fn restrict<'a>(kvs: &'a [(Key, [u8; 32])], p: &[bool]) -> &'a [(Key, [u8; 32])] {
    let lo = kvs.partition_point(|(k, _)| {
        // k < every key with prefix p
        for (i, b) in p.iter().enumerate() {
            if bit(k, i) != *b {
                return !bit(k, i) && *b;
            }
        }
        false
    });
    let hi = kvs.partition_point(|(k, _)| {
        for (i, b) in p.iter().enumerate() {
            if bit(k, i) != *b {
                return !bit(k, i) && *b;
            }
        }
        true
    });
    &kvs[lo..hi]
}

pub(crate) fn ops_text(ops: &[(Key, Kind)]) -> String {
    if ops.is_empty() {
        return "-".into();
    }
    ops.iter()
        .map(|(k, kind)| match kind {
            Kind::Read => format!("{}:R", hex(k)),
            Kind::Write(v) => format!("{}:W:{}", hex(k), v.as_ref().map(|v| hex(&vhash(v))).unwrap_or("-".into())),
            Kind::ReadWrite(v) => format!("{}:RW:{}", hex(k), v.as_ref().map(|v| hex(&vhash(v))).unwrap_or("-".into())),
        })
        .collect::<Vec<_>>()
        .join(",")
}

fn opt_hex(v: &Option<[u8; 32]>) -> String {
    v.map(|v| hex(&v)).unwrap_or("-".into())
}

struct WorkerTrace {
    range: Option<(usize, usize)>,
    batches: Vec<(usize, usize, Vec<bool>, bool, bool, bool)>, // start, next, position, owned, non_exclusive, has_writes
    done: Option<(Option<usize>, Option<Vec<usize>>, Vec<(Vec<bool>, [u8; 32])>)>,
}

pub fn run(seed: u64, cases: usize, out: &mut Sink) {
    let mut rng = Rng::new(seed ^ 0x5ead5);
    let pid = std::process::id();
    // one store per worker count (thread creation dominates `open`); every case first moves the store to
    // its own prior state with an ordinary commit
    for (wi, n) in WORKERS.iter().enumerate() {
        let ncases = cases / WORKERS.len() + usize::from(wi < cases % WORKERS.len());
        if ncases == 0 {
            continue;
        }
        let dir = format!("/dev/shm/nomt-verif-shards-{pid}-{seed}-{n}");
        let _ = std::fs::remove_dir_all(&dir);
        let mut orng = rng.fork();
        let mut o = Options::new();
        o.path(&dir);
        o.commit_concurrency(*n);
        o.hashtable_buckets(8192);
        o.rollback(false);
        o.warm_up(orng.chance(1, 2));
        o.page_cache_size(*orng.pick(&[1usize, 4]));
        o.leaf_cache_size(1);
        o.io_workers(orng.range(1, 2));
        o.preallocate_ht(false);
        let db = match catch_unwind(AssertUnwindSafe(|| Db::open(o))) {
            Ok(Ok(db)) => db,
            Ok(Err(e)) => {
                out.fail(format!("OPEN FAILED (shards): {e:#}"));
                continue;
            }
            Err(_) => {
                out.fail("OPEN PANICKED (shards)".into());
                continue;
            }
        };
        let mut view = Map::new();
        for case_no in 0..ncases {
            let mut crng = rng.fork();
            out.mark_case(format!("shards workers={n} case {case_no}"));
            out.count(&format!("workers_{n:02}"));
            if !run_case(&mut crng, *n, &db, &mut view, out) {
                break;
            }
        }
        drop(db);
        let _ = std::fs::remove_dir_all(&dir);
    }
}

/// returns false when the store can no longer be used
fn run_case(rng: &mut Rng, n: usize, db: &Db, view: &mut Map, out: &mut Sink) -> bool {
    let case = gen_view(rng, n);
    // move the store to the prior state of this case: one ordinary commit without witness
    {
        let s = db.begin_session(SessionParams::default().witness_mode(WitnessMode::disabled()));
        let mut actuals: BTreeMap<Key, KeyReadWrite> = BTreeMap::new();
        for k in view.keys() {
            if !case.view.contains_key(k) {
                actuals.insert(*k, KeyReadWrite::Write(None));
            }
        }
        for (k, v) in case.view.iter() {
            if view.get(k) != Some(v) {
                actuals.insert(*k, KeyReadWrite::Write(Some(v.clone())));
            }
        }
        let actuals: Vec<(Key, KeyReadWrite)> = actuals.into_iter().collect();
        match catch_unwind(AssertUnwindSafe(|| s.finish(actuals).and_then(|f| f.commit(db)))) {
            Ok(Ok(_)) => *view = case.view.clone(),
            Ok(Err(e)) => {
                out.fail(format!("C01 commit of the prior state failed: {e:#}"));
                return false;
            }
            Err(_) => {
                out.fail(format!("C01 commit of the prior state PANICKED ({} keys, workers={n})", case.view.len()));
                return false;
            }
        }
    }
    let rounds = rng.range(1, 3);
    for round in 0..rounds {
        let cur = Case { view: view.clone(), straddle: case.straddle.clone() };
        let ops = gen_ops(rng, n, &cur);
        match one_update(rng, n, db, view, &ops, out) {
            Some(next) => *view = next,
            None => return false,
        }
        out.count(&format!("round_{round}"));
    }
    true
}

/// one traced witness-mode session on `view`; returns the view after the commit
fn one_update(rng: &mut Rng, n: usize, db: &Db, view: &Map, ops: &[(Key, Kind)], out: &mut Sink) -> Option<Map> {
    let vh = view_hashes(view);
    let prev_root_ref = ref_root(&vh);
    let s = db.begin_session(SessionParams::default().witness_mode(WitnessMode::read_write()));
    let prev_root = s.prev_root().into_inner();
    if prev_root != prev_root_ref {
        out.fail(format!("C02 session base root {} != reference root {} (workers={n})", hex(&prev_root), hex(&prev_root_ref)));
    }
    out.line(format!("view {}", kv_line(&vh)), hex(&prev_root));

    let actuals: Vec<(Key, KeyReadWrite)> = ops
        .iter()
        .map(|(k, kind)| {
            let cur = view.get(k).cloned();
            (
                *k,
                match kind {
                    Kind::Read => KeyReadWrite::Read(cur),
                    Kind::Write(v) => KeyReadWrite::Write(v.clone()),
                    Kind::ReadWrite(v) => KeyReadWrite::ReadThenWrite(cur, v.clone()),
                },
            )
        })
        .collect();
    for (k, _) in &actuals {
        if rng.chance(1, 3) {
            s.warm_up(*k);
        }
    }
    let mut view_after = view.clone();
    for (k, kind) in ops {
        match kind {
            Kind::Read => {}
            Kind::Write(v) | Kind::ReadWrite(v) => match v {
                Some(v) => {
                    view_after.insert(*k, v.clone());
                }
                None => {
                    view_after.remove(k);
                }
            },
        }
    }
    let vh_after = view_hashes(&view_after);

    split_trace::begin();
    let r = catch_unwind(AssertUnwindSafe(move || s.finish(actuals)));
    let events = split_trace::take();
    let mut fin = match r {
        Ok(Ok(fin)) => fin,
        Ok(Err(e)) => {
            out.fail(format!("C14 finish error (shards): {e:#}"));
            return None;
        }
        Err(_) => {
            out.fail(format!("C01 finish PANIC (shards) workers={n} ops={}", ops_text(ops).chars().take(400).collect::<String>()));
            out.line(format!("ops {} {}", n, ops_text(ops)), "panic".into());
            return None;
        }
    };
    let root = fin.root().into_inner();
    let witness = fin.take_witness();

    // ---- decode the trace -------------------------------------------------------------------
    let mut workers: Vec<WorkerTrace> = (0..n).map(|_| WorkerTrace { range: None, batches: vec![], done: None }).collect();
    let mut root_page: Option<(usize, Vec<(Vec<bool>, Pending)>, [u8; 32])> = None;
    let mut order: Vec<usize> = Vec::new();
    let mut trace_ok = true;
    for e in &events {
        match e {
            Event::Worker { shard, range_start, range_end } if *shard < n => workers[*shard].range = Some((*range_start, *range_end)),
            Event::Batch { shard, start, next, position, owned, non_exclusive, has_writes } if *shard < n => {
                workers[*shard].batches.push((*start, *next, position.clone(), *owned, *non_exclusive, *has_writes))
            }
            Event::WorkerDone { shard, witnessed_start, witnessed_batches, child_roots } if *shard < n => {
                workers[*shard].done = Some((*witnessed_start, witnessed_batches.clone(), child_roots.clone()))
            }
            Event::RootPage { shard, pending, new_root } => root_page = Some((*shard, pending.clone(), *new_root)),
            Event::Joined { shard: Some(s), .. } if *s < n => order.push(*s),
            Event::Update { .. } | Event::Advance { .. } => {}
            _ => trace_ok = false,
        }
    }
    if !trace_ok || order.len() != n || workers.iter().any(|w| w.range.is_none() || w.done.is_none()) || root_page.is_none() {
        out.fail(format!("C13 incomplete worker trace: {} events, {} joined of {n} workers", events.len(), order.len()));
        return None;
    }
    let (_, pending, traced_root) = root_page.unwrap();

    // ---- protocol lines ---------------------------------------------------------------------
    let ranges_txt = workers.iter().map(|w| format!("{}-{}", w.range.unwrap().0, w.range.unwrap().1)).collect::<Vec<_>>().join(",");
    out.line(format!("ops {} {}", n, ops_text(ops)), ranges_txt.clone());

    let batches_txt = workers
        .iter()
        .map(|w| {
            if w.batches.is_empty() {
                "-".to_string()
            } else {
                w.batches
                    .iter()
                    .map(|(s, e, p, owned, nonex, hw)| {
                        format!(
                            "{}-{}-{}-{}{}{}",
                            s,
                            e,
                            bits_string(p),
                            if *owned { 'o' } else { 's' },
                            if !*owned { '-' } else if *nonex { 'n' } else { 'x' },
                            if *hw { 'w' } else { 'r' }
                        )
                    })
                    .collect::<Vec<_>>()
                    .join(",")
            }
        })
        .collect::<Vec<_>>()
        .join(";");
    out.line("batches".into(), batches_txt.clone());

    let wstart_txt = workers
        .iter()
        .map(|w| {
            let (ws, sizes, _) = w.done.as_ref().unwrap();
            format!(
                "{}:{}",
                ws.map(|x| x.to_string()).unwrap_or("-".into()),
                match sizes {
                    Some(v) if !v.is_empty() => v.iter().map(|x| x.to_string()).collect::<Vec<_>>().join("+"),
                    _ => "-".into(),
                }
            )
        })
        .collect::<Vec<_>>()
        .join(",");
    out.line("wstart".into(), wstart_txt);

    let croots_txt = workers
        .iter()
        .map(|w| {
            let (_, _, cr) = w.done.as_ref().unwrap();
            if cr.is_empty() {
                "-".to_string()
            } else {
                cr.iter().map(|(p, nd)| format!("{}={}", bits_string(p), hex(nd))).collect::<Vec<_>>().join("+")
            }
        })
        .collect::<Vec<_>>()
        .join(";");
    out.line("croots".into(), croots_txt);

    let pending_txt = if pending.is_empty() {
        "-".to_string()
    } else {
        pending
            .iter()
            .map(|(p, op)| match op {
                Pending::Node(nd) => format!("{}/N/{}", bits_string(p), hex(nd)),
                Pending::SubTrie { range_start, range_end, has_prev_terminal } => {
                    format!("{}/S/{}-{}/{}", bits_string(p), range_start, range_end, u8::from(*has_prev_terminal))
                }
            })
            .collect::<Vec<_>>()
            .join(",")
    };
    out.line("pending".into(), pending_txt);
    out.line("root".into(), hex(&root));

    let order_txt = order.iter().map(|x| x.to_string()).collect::<Vec<_>>().join(",");
    if order.windows(2).any(|w| w[0] > w[1]) {
        out.count("completion_order_not_ascending");
    } else {
        out.count("completion_order_ascending");
    }

    // ---- oracles ----------------------------------------------------------------------------
    let keys: Vec<Key> = ops.iter().map(|x| x.0).collect();
    let regs = regions(n);
    // C13: ranges partition the list by the first six bits
    let mut expect_start = 0;
    for (i, w) in workers.iter().enumerate() {
        let (rs, re) = w.range.unwrap();
        if rs != expect_start || re < rs || re > keys.len() {
            out.fail(format!("C13 worker ranges are not consecutive: worker {i} has {rs}..{re}, expected start {expect_start} (workers={n}, ranges {ranges_txt})"));
        }
        for k in keys.iter().take(re.min(keys.len())).skip(rs) {
            let c = top6(k);
            if c < regs[i].0 || c >= regs[i].0 + regs[i].1 {
                out.fail(format!("C13 operation on key {} (root child {c}) assigned to worker {i} owning children {}..{} (workers={n})", &hex(k)[..8], regs[i].0, regs[i].0 + regs[i].1));
                break;
            }
        }
        expect_start = re;
    }
    if expect_start != keys.len() {
        out.fail(format!("C13 worker ranges cover {expect_start} of {} operations (workers={n})", keys.len()));
    }
    // C13: reference batches = runs of operations with the same terminal of the prior trie
    let terms: Vec<Vec<bool>> = keys.iter().map(|k| ref_terminal(&vh, k)).collect();
    let mut ref_batches: Vec<(usize, usize)> = Vec::new();
    let mut i = 0;
    while i < keys.len() {
        let mut j = i + 1;
        while j < keys.len() && terms[j] == terms[i] {
            j += 1;
        }
        ref_batches.push((i, j));
        i = j;
    }
    let mut owned_all: Vec<(usize, usize, usize)> = Vec::new(); // start, next, worker
    for (wi, w) in workers.iter().enumerate() {
        for (s, e, p, owned, nonex, hw) in &w.batches {
            if *owned {
                owned_all.push((*s, *e, wi));
                if *p != terms[*s] {
                    out.fail(format!("C13 batch at {s} of worker {wi} has terminal {} but the reference trie says {} (workers={n})", bits_string(p), bits_string(&terms[*s])));
                }
                if *nonex != (p.len() <= 6) {
                    out.fail(format!("C13 batch at {s} (terminal depth {}) classified non_exclusive={nonex} (workers={n})", p.len()));
                }
                let any_write = ops[*s..*e].iter().any(|(_, k)| !matches!(k, Kind::Read));
                if *hw != any_write {
                    out.fail(format!("C13 batch at {s}: has_writes={hw} but the operations say {any_write}"));
                }
                let (rs, re) = w.range.unwrap();
                if *s < rs || *s >= re {
                    out.fail(format!("C13 worker {wi} (range {rs}..{re}) owns a batch starting at {s} (workers={n})"));
                }
                if *e > re {
                    out.count("owned_batch_extends_past_range_end");
                    let span = workers.iter().filter(|x| x.range.unwrap().0 < *e && x.range.unwrap().1 > *s && x.range.unwrap().0 != x.range.unwrap().1).count();
                    out.count(&format!("straddle_spans_{}_nonempty_ranges", span.min(4)));
                    out.count(&format!("straddle_terminal_depth_{}", p.len()));
                }
            } else {
                out.count("batch_left_to_the_worker_on_the_left");
            }
        }
    }
    let mut sorted_owned = owned_all.clone();
    sorted_owned.sort();
    let got: Vec<(usize, usize)> = sorted_owned.iter().map(|x| (x.0, x.1)).collect();
    if got != ref_batches {
        out.fail(format!(
            "C13 batches are not owned exactly once: owned {:?} but the batches of the sorted operations are {:?} (workers={n}, ranges {ranges_txt})",
            sorted_owned, ref_batches
        ));
    }
    if owned_all != sorted_owned {
        out.fail(format!("C13 ownership is not monotone in the worker index: {:?} (workers={n})", owned_all));
    }
    // C06: witnessed_start = start of the first owned batch, sizes = sizes of the owned batches
    for (wi, w) in workers.iter().enumerate() {
        let (ws, sizes, _) = w.done.as_ref().unwrap();
        let owned: Vec<(usize, usize)> = w.batches.iter().filter(|b| b.3).map(|b| (b.0, b.1)).collect();
        let exp_ws = owned.first().map(|b| b.0);
        if *ws != exp_ws {
            out.fail(format!(
                "C06 worker {wi} reports witnessed_start {:?} but its first owned batch starts at {:?} (range {:?}, workers={n})",
                ws, exp_ws, w.range
            ));
        }
        let exp_sizes: Vec<usize> = owned.iter().map(|b| b.1 - b.0).collect();
        if sizes.as_ref() != Some(&exp_sizes) {
            out.fail(format!("C06 worker {wi} witnessed batch sizes {:?} differ from its owned batches {:?}", sizes, exp_sizes));
        }
    }
    // C02 / C13: root and child-page roots against the reference trie of the updated set
    let expect_root = ref_root(&vh_after);
    if root != expect_root || traced_root != root {
        out.fail(format!(
            "C13 root after the update {} != reference root {} ({} keys, {} ops, workers={n})",
            hex(&root), hex(&expect_root), view_after.len(), ops.len()
        ));
    }
    for (wi, w) in workers.iter().enumerate() {
        for (p, nd) in &w.done.as_ref().unwrap().2 {
            let exp = ref_node(restrict(&vh_after, p), p.len());
            if p.len() != 6 || *nd != exp {
                out.fail(format!("C02 worker {wi} reports child-page root {} at {} but the updated set has {} there (workers={n})", hex(nd), bits_string(p), hex(&exp)));
            }
            let c = p.iter().fold(0usize, |a, b| a * 2 + usize::from(*b));
            if c < regs[wi].0 || c >= regs[wi].0 + regs[wi].1 {
                out.fail(format!("C13 worker {wi} reports the root of child page {c} outside its region (workers={n})"));
            }
        }
    }
    // pending list: strictly ascending positions, prefix-free
    for w in pending.windows(2) {
        if w[0].0 >= w[1].0 || w[1].0.starts_with(&w[0].0) {
            out.fail(format!("C13 root-page pending list is not ascending / prefix-free at {} , {}", bits_string(&w[0].0), bits_string(&w[1].0)));
        }
    }

    // ---- witness ----------------------------------------------------------------------------
    match witness {
        None => out.fail("C06 witness mode enabled but no witness produced".into()),
        Some(w) => {
            let paths_txt = if w.path_proofs.is_empty() {
                "-".to_string()
            } else {
                w.path_proofs
                    .iter()
                    .map(|wp| format!("{};{};{}", bitslice_str(wp.path.path()), term_str(&wp.inner.terminal), nodes_line(&wp.inner.siblings)))
                    .collect::<Vec<_>>()
                    .join("#")
            };
            let reads_txt = if w.operations.reads.is_empty() {
                "-".to_string()
            } else {
                w.operations.reads.iter().map(|r| format!("{}:{}:{}", hex(&r.key), opt_hex(&r.value), r.path_index)).collect::<Vec<_>>().join(",")
            };
            let writes_txt = if w.operations.writes.is_empty() {
                "-".to_string()
            } else {
                w.operations.writes.iter().map(|r| format!("{}:{}:{}", hex(&r.key), opt_hex(&r.value), r.path_index)).collect::<Vec<_>>().join(",")
            };
            out.line(format!("join {order_txt}"), format!("{paths_txt}|r={reads_txt}|w={writes_txt}"));
            check_witness(&w, n, prev_root, root, view, ops, out);
        }
    }

    // distinct non-trivial cases: more than one worker with operations, or a batch crossing a boundary
    let busy = workers.iter().filter(|w| w.range.unwrap().0 != w.range.unwrap().1).count();
    if busy > 1 || n == 1 {
        out.nontrivial(&format!("{n}|{ranges_txt}|{batches_txt}"));
    }
    out.add("operations", ops.len() as u64);
    out.add("batches", ref_batches.len() as u64);
    out.count("updates");

    // commit, so that the next round runs on the updated state
    match catch_unwind(AssertUnwindSafe(|| fin.commit(db))) {
        Ok(Ok(_)) => Some(view_after),
        Ok(Err(e)) => {
            out.fail(format!("C14 commit error (shards): {e:#}"));
            None
        }
        Err(_) => {
            out.fail("C01 commit PANIC (shards)".into());
            None
        }
    }
}

/// C06: the assembled witness against the real verifier (the oracle of `db.rs`, plus "every operation hangs
/// under the path that covers its key"), and its canonical form for the `spec` line.
pub(crate) fn check_witness(w: &nomt::Witness, n: usize, prev_root: [u8; 32], new_root: [u8; 32], view: &Map, ops: &[(Key, Kind)], out: &mut Sink) {
    use nomt::proof::{verify_update, PathUpdate};
    let np = w.path_proofs.len();
    let mut verified = Vec::new();
    for (i, wp) in w.path_proofs.iter().enumerate() {
        match wp.inner.verify::<Blake3Hasher>(wp.path.path(), prev_root) {
            Ok(v) => verified.push(Some(v)),
            Err(e) => {
                out.fail(format!("C06 witness path {i} does not verify against the session's base root: {e:?} (workers={n})"));
                verified.push(None);
            }
        }
    }
    let covers = |idx: usize, k: &Key| -> bool {
        idx < np && {
            let p = w.path_proofs[idx].path.path();
            p.iter().by_vals().enumerate().all(|(i, b)| bit(k, i) == b)
        }
    };
    let mut exp_reads: Vec<(Key, Option<[u8; 32]>)> = ops.iter().filter(|(_, k)| !matches!(k, Kind::Write(_))).map(|(k, _)| (*k, view.get(k).map(|v| vhash(v)))).collect();
    exp_reads.sort();
    let mut got_reads: Vec<(Key, Option<[u8; 32]>)> = w.operations.reads.iter().map(|r| (r.key, r.value)).collect();
    got_reads.sort();
    if exp_reads != got_reads {
        out.fail(format!("C06 witnessed reads differ from what the session read ({} vs {} entries, workers={n})", got_reads.len(), exp_reads.len()));
    }
    for r in &w.operations.reads {
        if !covers(r.path_index, &r.key) {
            out.fail(format!("C06 witnessed read of {} is attached to path {} which does not cover it (workers={n}, paths={np})", &hex(&r.key)[..16], r.path_index));
            break;
        }
        let ok = match (&verified[r.path_index], r.value) {
            (Some(v), Some(vh)) => v.confirm_value(&LeafData { key_path: r.key, value_hash: vh }).ok() == Some(true),
            (Some(v), None) => v.confirm_nonexistence(&r.key).ok() == Some(true),
            _ => false,
        };
        if !ok {
            out.fail(format!("C06 witnessed read of {} (path_index {}) is not confirmed by its path (workers={n}, paths={np})", &hex(&r.key)[..16], r.path_index));
            break;
        }
    }
    let mut exp_writes: Vec<(Key, Option<[u8; 32]>)> = ops
        .iter()
        .filter_map(|(k, kind)| match kind {
            Kind::Write(v) | Kind::ReadWrite(v) => Some((*k, v.as_ref().map(|v| vhash(v)))),
            Kind::Read => None,
        })
        .collect();
    exp_writes.sort();
    let mut got_writes: Vec<(Key, Option<[u8; 32]>)> = w.operations.writes.iter().map(|x| (x.key, x.value)).collect();
    got_writes.sort();
    if exp_writes != got_writes {
        out.fail(format!("C06 witnessed writes differ from the session's writes ({} vs {}, workers={n})", got_writes.len(), exp_writes.len()));
    }
    let mut all_ok = true;
    for x in &w.operations.writes {
        if !covers(x.path_index, &x.key) {
            out.fail(format!("C06 witnessed write of {} is attached to path {} which does not cover it (workers={n}, paths={np})", &hex(&x.key)[..16], x.path_index));
            all_ok = false;
            break;
        }
    }
    let mut updates: Vec<PathUpdate> = Vec::new();
    for (i, v) in verified.into_iter().enumerate() {
        let mut o: Vec<(Key, Option<[u8; 32]>)> = w.operations.writes.iter().filter(|x| x.path_index == i).map(|x| (x.key, x.value)).collect();
        o.sort();
        match v {
            Some(v) if !o.is_empty() => updates.push(PathUpdate { inner: v, ops: o }),
            Some(_) => {}
            None => all_ok = false,
        }
    }
    updates.sort_by(|a, b| a.inner.path().cmp(b.inner.path()));
    if all_ok {
        match catch_unwind(AssertUnwindSafe(|| verify_update::<Blake3Hasher>(prev_root, &updates))) {
            Ok(Ok(r)) => {
                if r != new_root {
                    out.fail(format!("C06 replaying the witnessed writes gives root {} but the store reported {} (workers={n})", hex(&r), hex(&new_root)));
                }
            }
            Ok(Err(e)) => out.fail(format!("C06 witness does not replay: verify_update fails with {e:?} (workers={n}, paths={np}, writes={})", w.operations.writes.len())),
            Err(_) => out.fail(format!("C06 verify_update PANICS on the produced witness (workers={n})")),
        }
    }
    // canonical form (paths ascending, operations ascending by key) for the `spec` line
    let mut items: Vec<(String, String)> = Vec::new();
    for (i, wp) in w.path_proofs.iter().enumerate() {
        let fmt_ops = |ops: Vec<(Key, Option<[u8; 32]>)>| {
            if ops.is_empty() {
                "-".to_string()
            } else {
                ops.iter().map(|(k, v)| format!("{}:{}", hex(k), opt_hex(v))).collect::<Vec<_>>().join(",")
            }
        };
        let mut rs: Vec<(Key, Option<[u8; 32]>)> = w.operations.reads.iter().filter(|x| x.path_index == i).map(|x| (x.key, x.value)).collect();
        rs.sort();
        let mut ws: Vec<(Key, Option<[u8; 32]>)> = w.operations.writes.iter().filter(|x| x.path_index == i).map(|x| (x.key, x.value)).collect();
        ws.sort();
        let bits = bitslice_str(wp.path.path());
        items.push((bits.clone(), format!("{};{};{};r={};w={}", bits, term_str(&wp.inner.terminal), nodes_line(&wp.inner.siblings), fmt_ops(rs), fmt_ops(ws))));
    }
    items.sort_by(|a, b| {
        let (x, y) = (if a.0 == "-" { "" } else { &a.0 }, if b.0 == "-" { "" } else { &b.0 });
        x.cmp(y)
    });
    let canon = if items.is_empty() { "-".to_string() } else { items.into_iter().map(|x| x.1).collect::<Vec<_>>().join("#") };
    out.line("spec".into(), canon);
}
