mod alloc;
mod bitops;
mod branchupd;
mod bttree;
mod core_mp;
mod core_pp;
mod crash;
mod db;
mod delta;
mod finishops;
mod flock;
mod image;
mod seglog;
mod seek;
mod shards;
mod iohook;
mod iopool;
mod leafupd;
mod lockrec;
mod openpath;
mod ovl;
mod pipeline;
mod prepsync;
mod hasher;
mod caches;
mod extrange;
mod overflow;
mod stageglue;
mod stress;
mod triepos;
mod locksdemo;
mod rtlock;
mod util;
mod wal;
mod walker;

fn arg(args: &[String], name: &str) -> Option<String> {
    args.iter().position(|a| a == name).and_then(|i| args.get(i + 1).cloned())
}

fn main() {
    let args: Vec<String> = std::env::args().collect();
    let cmd = args.get(1).cloned().unwrap_or_default();
    let seed: u64 = arg(&args, "--seed").and_then(|s| s.parse().ok()).unwrap_or(1);
    let cases: usize = arg(&args, "--cases").and_then(|s| s.parse().ok()).unwrap_or(100);
    let outdir = arg(&args, "--out").unwrap_or_else(|| "work/out".into());
    // panics of the code under test are observations: keep them quiet
    if std::env::var("VH_VERBOSE_PANIC").is_err() {
        std::panic::set_hook(Box::new(|_| {}));
    }
    // H2: rollback segment size override (segment roll-over / pruning reachable with small deltas)
    if let Some(sz) = arg(&args, "--segsize").and_then(|s| s.parse::<u64>().ok()) {
        nomt::verif_hook::set_rollback_segment_size(sz);
    }
    if args.iter().any(|a| a == "--fat") {
        db::FAT.store(true, std::sync::atomic::Ordering::Relaxed);
    }
    match cmd.as_str() {
        "crash-child" => std::process::exit(crash::child(&args)),
        "dump" => std::process::exit(crash::dump(&args)),
        "churn-child" => std::process::exit(crash::churn_child(&args)),
        "flock-child" => std::process::exit(flock::child(&args)),
        "stress-child" => std::process::exit(stress::child(&args)),
        "locks-nested" => std::process::exit(locksdemo::run(&args)),
        "rtlock-child" => std::process::exit(rtlock::child(&args)),
        _ => {}
    }
    let mut sink = util::Sink::new();
    match cmd.as_str() {
        "crash" => crash::run(&args, &mut sink),
        "churn" => crash::churn(&args, &mut sink),
        "placement" => crash::placement(&args, &mut sink),
        "flock" => flock::run(&args, &mut sink),
        "stress" => stress::run(&args, &mut sink),
        "locks-scenarios" => locksdemo::scenarios(&mut sink),
        "rtlock-scenarios" => rtlock::scenarios(&mut sink),
        "alloc-freelist" => alloc::run_freelist(seed, cases, &mut sink),
        "alloc-probe" => alloc::run_probe(seed, cases, &mut sink),
        "alloc-lookup" => alloc::run_lookup(seed, cases, &mut sink),
        "wal" => wal::run(seed, cases, &mut sink),
        "prepsync" => prepsync::run(seed, cases, &mut sink),
        "hasher" => hasher::run(seed, cases, &mut sink),
        "caches" => caches::run(seed, cases, &mut sink),
        "caches-db" => caches::run_db(seed, cases, &mut sink),
        "caches-open0" => caches::run_open0(seed, cases, &mut sink),
        "extrange" => extrange::run(seed, cases, &mut sink),
        "openpath" => openpath::run(seed, cases, &mut sink),
        "iopool" => iopool::run(seed, cases, &mut sink),
        "stageglue" => stageglue::run(seed, cases, &mut sink),
        "openpath-findings" => openpath::run_findings(seed, &mut sink),
        "bttree" => bttree::run(seed, cases, &mut sink),
        "overlay-index" => ovl::run(seed, cases, &mut sink),
        "bitops" => bitops::run(seed, cases, &mut sink),
        "bitops-node" => bitops::run_nodes(seed, cases, &mut sink),
        "seglog" => seglog::run(seed, cases, &mut sink),
        "triepos" => triepos::run(seed, cases, &mut sink),
        "shards" => shards::run(seed, cases, &mut sink),
        "finishops" => finishops::run(seed, cases, &mut sink),
        "delta" => delta::run(seed, cases, &mut sink),
        "delta-log" => delta::run_log(seed, cases, &mut sink),
        "overflow" => overflow::run(seed, cases, &mut sink),
        "leafupd" => leafupd::run(seed, cases, &mut sink),
        "lockrec" => lockrec::run(seed, cases, &mut sink, &args),
        "lockrec-aba" => lockrec::aba(seed, cases, &mut sink),
        "pipeline" => pipeline::run(seed, cases, &mut sink, &args),
        "walker" => {
            let focus = arg(&args, "--focus").unwrap_or_else(|| "all".into());
            walker::run(seed, cases, &focus, &mut sink)
        }
        "branchupd" => branchupd::run(seed, cases, &mut sink),
        "branchupd-firstleaf" => branchupd::first_leaf_scenario(&mut sink),
        "seek" => seek::run(seed, cases, &mut sink),
        "seeker" => seek::seeker::run(seed, cases, &mut sink),
        "core-pp" => core_pp::run(seed, cases, &mut sink),
        "core-mp" => core_mp::run(seed, cases, &mut sink),
        "core-mp-corpus" => {
            let file = arg(&args, "--file").unwrap_or_else(|| "harness/corpus/core-mp-verify-panics.txt".into());
            core_mp::replay(&file, &mut sink)
        }
        "db-scenario" => {
            let name = arg(&args, "--name").unwrap_or_default();
            db::scenario(&name, &mut sink)
        }
        "db-matrix" => {
            let focus = arg(&args, "--focus").unwrap_or_else(|| "general".into());
            let nops: usize = arg(&args, "--nops").and_then(|s| s.parse().ok()).unwrap_or(12);
            let variants: usize = arg(&args, "--variants").and_then(|s| s.parse().ok()).unwrap_or(6);
            let scale: usize = arg(&args, "--scale").and_then(|s| s.parse().ok()).unwrap_or(1);
            db::run_matrix(seed, cases, &mut sink, &focus, nops, variants, scale)
        }
        "db" => {
            let focus = arg(&args, "--focus").unwrap_or_else(|| "general".into());
            let nops: usize = arg(&args, "--nops").and_then(|s| s.parse().ok()).unwrap_or(14);
            let big = args.iter().any(|a| a == "--big");
            let scale: usize = arg(&args, "--scale").and_then(|s| s.parse().ok()).unwrap_or(1);
            db::run(seed, cases, &mut sink, &focus, nops, big, scale)
        }
        "image" => {
            let only: Option<usize> = arg(&args, "--only").and_then(|s| s.parse().ok());
            image::run(seed, cases, &mut sink, &outdir, only)
        }
        "image-leak" => image::scenario_leak(&mut sink, &outdir),
        "image-script" => {
            let focus = arg(&args, "--focus").unwrap_or_default();
            image::scenario_script(&focus, &mut sink, &outdir)
        }
        "image-range-sweep" => image::scenario_range_sweep(seed, cases, &mut sink, &outdir),
        "image-branch-merge-sweep" => image::scenario_branch_merge_sweep(seed, cases, &mut sink, &outdir),
        "image-branch-ops" => image::scenario_branch_ops(seed, cases, &mut sink, &outdir),
        "image-prefix-tail" => image::scenario_prefix_tail(&mut sink, &outdir),
        "image-prefix-shrink" => image::scenario_prefix_shrink(&mut sink, &outdir),
        "image-cycles" => {
            let cycles: usize = arg(&args, "--cycles").and_then(|s| s.parse().ok()).unwrap_or(10);
            let nkeys: usize = arg(&args, "--keys").and_then(|s| s.parse().ok()).unwrap_or(300);
            image::scenario_cycles(&mut sink, &outdir, cycles, nkeys)
        }
        _ => {
            eprintln!("usage: vharness <core-pp|core-mp> --seed S --cases N --out DIR");
            std::process::exit(2);
        }
    }
    sink.write(&outdir).expect("write output");
    println!(
        "lines={} oracle_failures={} distinct_nontrivial={}",
        sink.ops.len(),
        sink.oracle_failures.len(),
        sink.distinct.len()
    );
}
