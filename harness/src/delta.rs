//! C09 / C11 / C12: the rollback delta (prior values) the REAL code builds, and the bookkeeping of the real `Rollback`.
//!
//! `delta` (store level): a real `Nomt<Blake3Hasher>` under /dev/shm with rollback enabled.  Dense key universe; the
//! store is populated with small and overflow values (> 1333 bytes, > 15 overflow pages); chains of 0…4 overlays whose
//! changes delete / insert / overwrite the same keys are built through real sessions; batches of blind writes,
//! read-then-writes, deletes of absent keys and plain reads, with and without `preserve_prior_value` hints (for written
//! and unwritten keys, duplicates) run on the chain.  After every `Session::finish` the priors of the delta the real
//! `ReverseDeltaBuilder` + `StoreLoadValueAsync` computed are read off the `FinishedSession`
//! (`verif_rollback_delta`, hook H9) and compared (a) with the Lean mirror (driver mode `delta`) and (b) with a
//! `BTreeMap` oracle of the session's view.  Then the chain is committed for real oldest first, sessions on the
//! remaining (uncommitted) part of the chain are checked in between, the final batch is committed (optionally after a
//! `try_commit_nonblocking` that finds a lock of the rollback log taken: the changeset must come back with its delta
//! and nothing may change), and everything is rolled back again step by step (with reopens in between); after every
//! step the in-memory rollback log (`verif_rollback_view`) is compared with the mirror of `Rollback` and the committed
//! values with the oracle's stack of states.
//!
//! `delta-log` (log level): the real `Rollback` alone on a scratch directory (`RollbackSim`): `commit`,
//! `commit_nonblocking` with either lock held, `truncate(n)` (n = 0, n > held, …), syncs, reopen with the published
//! range, `max_rollback_log_len` ∈ {0, 1, 2, 3, 5}; view, published range and traceback after every step vs the mirror.
use crate::db::{gen_value, vhash, DbCfg, Map, Val};
use crate::util::*;
use nomt::hasher::Blake3Hasher;
use nomt::verif_api::{overlay_rollback_delta, LogView, Priors, RollbackSim};
use nomt::{FinishedSession, KeyReadWrite, Nomt, Overlay, SessionParams};
use std::collections::BTreeMap;
use std::panic::{catch_unwind, AssertUnwindSafe};

type Db = Nomt<Blake3Hasher>;

fn show_val(v: &Option<Vec<u8>>, hashed: bool) -> String {
    match v {
        None => "-".into(),
        Some(v) if hashed => hex(&vhash(v)),
        Some(v) => hex(v),
    }
}

fn show_priors(p: &[(Key, Option<Vec<u8>>)], sep: &str, hashed: bool) -> String {
    if p.is_empty() {
        return "-".into();
    }
    p.iter().map(|(k, v)| format!("{}:{}", hex(k), show_val(v, hashed))).collect::<Vec<_>>().join(sep)
}

fn show_view(v: &LogView, hashed: bool) -> String {
    let log = if v.log.is_empty() {
        "-".to_string()
    } else {
        v.log.iter().map(|(id, p)| format!("{}={}", id, show_priors(p, ";", hashed))).collect::<Vec<_>>().join("|")
    };
    let pend = v.pending_truncate.map(|n| n.to_string()).unwrap_or_else(|| "-".into());
    format!("log={} pend={} seg={},{}", log, pend, v.seglog_range.0, v.seglog_range.1)
}

#[derive(Clone)]
enum Act {
    Read,
    Write(Option<Val>),
    Rtw(Option<Val>),
}

struct OvRec {
    handle: Option<Overlay>,
    changes: Vec<(Key, Option<Val>)>,
    delta: Priors,
    committed: bool,
}

struct Fin {
    fid: usize,
    fin: FinishedSession,
    writes: Vec<(Key, Option<Val>)>,
    priors: Priors,
}

struct Ctx<'a> {
    out: &'a mut Sink,
    rng: Rng,
    db: Option<Db>,
    dir: String,
    cfg: DbCfg,
    committed: Map,
    /// the states the held deltas lead back to, oldest first (bounded by max_rollback_log_len)
    restorable: Vec<Map>,
    universe: Vec<Key>,
    ovs: Vec<OvRec>,
    next_sid: usize,
    next_fid: usize,
    big: bool,
    case: usize,
}

impl<'a> Ctx<'a> {
    fn db(&self) -> &Db {
        self.db.as_ref().unwrap()
    }

    fn open(&mut self) -> bool {
        let t0 = std::time::Instant::now();
        loop {
            let o = self.cfg.options(&self.dir);
            match catch_unwind(AssertUnwindSafe(|| Db::open(o))) {
                Ok(Ok(db)) => {
                    self.db = Some(db);
                    return true;
                }
                Ok(Err(e)) => {
                    let msg = format!("{e:#}");
                    if msg.contains("lock") && t0.elapsed().as_millis() < 5000 {
                        std::thread::sleep(std::time::Duration::from_millis(2));
                        continue;
                    }
                    self.out.fail(format!("C10 OPEN FAILED: {msg} case={}", self.case));
                    return false;
                }
                Err(_) => {
                    self.out.fail(format!("C10 OPEN PANICKED case={}", self.case));
                    return false;
                }
            }
        }
    }

    /// the uncommitted overlays, youngest first
    fn chain(&self) -> Vec<usize> {
        (0..self.ovs.len()).rev().filter(|i| !self.ovs[*i].committed).collect()
    }

    /// the oracle's view of a session on `chain` (youngest first)
    fn view_of(&self, chain: &[usize]) -> Map {
        let mut m = self.committed.clone();
        for i in chain.iter().rev() {
            for (k, c) in &self.ovs[*i].changes {
                match c {
                    Some(v) => {
                        m.insert(*k, v.clone());
                    }
                    None => {
                        m.remove(k);
                    }
                }
            }
        }
        m
    }

    fn gen_val(&mut self) -> Val {
        if self.big && self.rng.chance(1, 8) {
            // more than 15 overflow pages: the cell holds only the first 15 page numbers
            let len = match self.rng.below(3) {
                0 => 15 * 4092 + self.rng.range(1, 3),
                1 => 16 * 4092 + self.rng.below(3) - 1,
                _ => 65536 + self.rng.below(5000),
            };
            let mut x = self.rng.next();
            return (0..len)
                .map(|_| {
                    x = x.wrapping_mul(6364136223846793005).wrapping_add(1442695040888963407);
                    (x >> 33) as u8
                })
                .collect();
        }
        let big = self.big && self.rng.chance(1, 3);
        gen_value(&mut self.rng, big)
    }

    /// keys changed by the overlays of `chain`
    fn hot_keys(&self, chain: &[usize]) -> Vec<Key> {
        let mut h: Vec<Key> = chain.iter().flat_map(|i| self.ovs[*i].changes.iter().map(|c| c.0)).collect();
        h.sort();
        h.dedup();
        h
    }

    /// a batch over the dense universe: blind writes / deletes (also of absent keys), read-then-writes, reads;
    /// biased towards keys the view holds and keys the ancestors changed (`hot`); `populate`: mostly insertions
    fn gen_batch(&mut self, view: &Map, hot: &[Key], max: usize, populate: bool) -> Vec<(Key, Act)> {
        let n = self.rng.range(1, max);
        let mut b: BTreeMap<Key, Act> = BTreeMap::new();
        let present_keys: Vec<Key> = view.keys().cloned().collect();
        for _ in 0..n {
            let k = match self.rng.below(10) {
                0..=3 if !hot.is_empty() => *self.rng.pick(hot),
                4..=6 if !present_keys.is_empty() => *self.rng.pick(&present_keys),
                _ => *self.rng.pick(&self.universe.clone()),
            };
            let present = view.contains_key(&k);
            let roll = if populate { 5 + self.rng.below(7) } else { self.rng.below(12) };
            let act = match roll {
                0 => Act::Read,
                1 | 2 | 3 => Act::Write(None),
                4 => Act::Rtw(None),
                5 | 6 => {
                    let v = self.gen_val();
                    Act::Rtw(Some(v))
                }
                _ => {
                    let v = self.gen_val();
                    Act::Write(Some(v))
                }
            };
            match (&act, present) {
                (Act::Write(None), false) => self.out.count("batch_delete_absent"),
                (Act::Write(None), true) => self.out.count("batch_delete_present"),
                (Act::Write(Some(_)), false) => self.out.count("batch_blind_insert"),
                (Act::Write(Some(_)), true) => self.out.count("batch_blind_overwrite"),
                (Act::Rtw(_), _) => self.out.count("batch_read_then_write"),
                (Act::Read, _) => self.out.count("batch_read"),
            }
            b.insert(k, act);
        }
        b.into_iter().collect()
    }

    /// a real session on `chain`: hints, reads, `finish`; the priors of the delta vs model and oracle
    fn session(&mut self, chain: &[usize], batch: Vec<(Key, Act)>, label: &str) -> Option<Fin> {
        let sid = self.next_sid;
        self.next_sid += 1;
        let fid = self.next_fid;
        self.next_fid += 1;
        let view = self.view_of(chain);
        let ids = if chain.is_empty() { "-".to_string() } else { chain.iter().map(|i| i.to_string()).collect::<Vec<_>>().join(",") };
        // hints: for some written keys, some unwritten keys, duplicates
        let mut hints: Vec<Key> = vec![];
        let hint_mode = self.rng.below(4); // 0: none, 1: all written, 2/3: random
        for (k, a) in &batch {
            let written = !matches!(a, Act::Read);
            let h = match hint_mode {
                0 => false,
                1 => written,
                _ => self.rng.chance(1, 2),
            };
            if h {
                hints.push(*k);
                if self.rng.chance(1, 6) {
                    hints.push(*k);
                }
            }
        }
        if hint_mode >= 2 {
            for _ in 0..self.rng.below(3) {
                let k = *self.rng.pick(&self.universe.clone());
                hints.push(k);
            }
        }
        // shuffle the hints
        for i in (1..hints.len()).rev() {
            let j = self.rng.below(i + 1);
            hints.swap(i, j);
        }
        let params = {
            let handles: Vec<&Overlay> = chain.iter().map(|i| self.ovs[*i].handle.as_ref().unwrap()).collect();
            SessionParams::default().overlay(handles)
        };
        let params = match params {
            Ok(p) => {
                self.out.line(format!("sess {sid} {ids}"), "ok".into());
                p
            }
            Err(e) => {
                let s = match e {
                    nomt::InvalidAncestors::NotAncestor => "err notancestor",
                    nomt::InvalidAncestors::Incomplete => "err incomplete",
                };
                self.out.line(format!("sess {sid} {ids}"), s.into());
                self.out.fail(format!("C11 a valid chain {ids} was refused ({s}) case={} {label}", self.case));
                return None;
            }
        };
        let res = catch_unwind(AssertUnwindSafe(|| {
            let session = self.db.as_ref().unwrap().begin_session(params);
            for k in &hints {
                session.preserve_prior_value(*k);
            }
            let mut actuals: Vec<(Key, KeyReadWrite)> = vec![];
            let mut read_errors = vec![];
            for (k, a) in &batch {
                let rw = match a {
                    Act::Write(v) => KeyReadWrite::Write(v.clone()),
                    Act::Read => match session.read(*k) {
                        Ok(v) => KeyReadWrite::Read(v),
                        Err(e) => {
                            read_errors.push(format!("{e:#}"));
                            KeyReadWrite::Read(None)
                        }
                    },
                    Act::Rtw(v) => match session.read(*k) {
                        Ok(p) => KeyReadWrite::ReadThenWrite(p, v.clone()),
                        Err(e) => {
                            read_errors.push(format!("{e:#}"));
                            KeyReadWrite::ReadThenWrite(None, v.clone())
                        }
                    },
                };
                actuals.push((*k, rw));
            }
            let shown = actuals.clone();
            (session.finish(actuals), shown, read_errors)
        }));
        for k in &hints {
            self.out.line(format!("hint {sid} {}", hex(k)), "ok".into());
        }
        let (fin, shown, read_errors) = match res {
            Ok(x) => x,
            Err(_) => {
                self.out.line(format!("finish {sid} {fid} ?"), "panic".into());
                self.out.fail(format!("C09 session / finish panicked case={} {label}", self.case));
                return None;
            }
        };
        for e in read_errors {
            self.out.fail(format!("C01 session read failed: {e} case={}", self.case));
        }
        let acts_line = shown
            .iter()
            .map(|(k, rw)| match rw {
                KeyReadWrite::Read(v) => format!("{}:r:{}", hex(k), show_val(v, true)),
                KeyReadWrite::Write(v) => format!("{}:w:{}", hex(k), show_val(v, true)),
                KeyReadWrite::ReadThenWrite(p, v) => format!("{}:x:{}:{}", hex(k), show_val(p, true), show_val(v, true)),
            })
            .collect::<Vec<_>>()
            .join(",");
        let op = format!("finish {sid} {fid} {acts_line}");
        let fin = match fin {
            Ok(f) => f,
            Err(e) => {
                self.out.line(op, "err".into());
                self.out.fail(format!("C09 finish failed: {e:#} case={} {label}", self.case));
                return None;
            }
        };
        let priors = match fin.verif_rollback_delta() {
            Some(p) => p,
            None => {
                self.out.line(op, "nodelta".into());
                self.out.fail(format!("C09 finished session carries no rollback delta case={} {label}", self.case));
                return None;
            }
        };
        self.out.line(op.clone(), format!("priors {}", show_priors(&priors, ",", true)));
        // ---- oracle (independent of the model): the priors are the session's view of exactly the written keys
        let mut expect: Priors = vec![];
        let mut writes = vec![];
        for (k, rw) in &shown {
            match rw {
                KeyReadWrite::Read(v) => {
                    if v.as_ref() != view.get(k) {
                        self.out.fail(format!("C11 session read of {} differs from the chain view case={} {label}", hex(k), self.case));
                    }
                }
                KeyReadWrite::Write(v) => {
                    expect.push((*k, view.get(k).cloned()));
                    writes.push((*k, v.clone()));
                }
                KeyReadWrite::ReadThenWrite(p, v) => {
                    if p.as_ref() != view.get(k) {
                        self.out.fail(format!("C11 session read of {} differs from the chain view case={} {label}", hex(k), self.case));
                    }
                    expect.push((*k, view.get(k).cloned()));
                    writes.push((*k, v.clone()));
                }
            }
        }
        if priors.len() != expect.len() || priors.iter().zip(expect.iter()).any(|(a, b)| a.0 != b.0) {
            self.out.fail(format!(
                "C09 delta key set: the delta holds {} keys, the batch writes {} case={} {label} chain={ids}",
                priors.len(),
                expect.len(),
                self.case
            ));
        } else {
            for (a, b) in priors.iter().zip(expect.iter()) {
                if a.1 != b.1 {
                    self.out.fail(format!(
                        "C09 delta prior of key {} is {} but the session's view (chain {ids}) holds {} case={} {label}",
                        hex(&a.0),
                        show_val(&a.1, true),
                        show_val(&b.1, true),
                        self.case
                    ));
                }
            }
        }
        // ---- statistics: where the prior came from
        for (k, _) in &expect {
            let mut from = "store";
            for i in chain {
                if let Some((_, c)) = self.ovs[*i].changes.iter().find(|(k2, _)| k2 == k) {
                    from = if c.is_some() { "overlay_insert" } else { "overlay_delete" };
                    break;
                }
            }
            let from = match from {
                "store" if self.committed.contains_key(k) => {
                    if self.committed[k].len() > 15 * 4092 {
                        "store_overflow_gt15_pages"
                    } else if self.committed[k].len() > 1332 {
                        "store_overflow"
                    } else {
                        "store_inline"
                    }
                }
                "store" => "store_absent",
                x => x,
            };
            self.out.count(&format!("prior_from_{from}"));
            if from == "overlay_delete" && self.committed.contains_key(k) {
                self.out.count("prior_overlay_delete_hides_committed_value");
            }
            let hinted = hints.contains(k);
            self.out.count(if hinted { "written_key_hinted" } else { "written_key_not_hinted" });
        }
        self.out.count(&format!("session_on_chain_of_{}", chain.len()));
        if !expect.is_empty() {
            self.out.nontrivial(&op);
        }
        Some(Fin { fid, fin, writes, priors })
    }

    fn make_overlay(&mut self, f: Fin) -> usize {
        let oid = self.ovs.len();
        let o = f.fin.into_overlay();
        let d = overlay_rollback_delta(&o).unwrap_or_default();
        self.out.line(format!("overlay {} {oid}", f.fid), format!("ok delta={}", show_priors(&d, ",", true)));
        if d != f.priors {
            self.out.fail(format!("C09 the overlay's delta differs from the finished session's case={}", self.case));
        }
        self.ovs.push(OvRec { handle: Some(o), changes: f.writes, delta: f.priors, committed: false });
        self.out.count("overlay_created");
        oid
    }

    fn view_line(&self) -> (String, Option<LogView>) {
        match self.db().verif_rollback_view() {
            Some(v) => (show_view(&v, true), Some(v)),
            None => ("noview".into(), None),
        }
    }

    fn apply_commit(&mut self, writes: &[(Key, Option<Val>)]) {
        self.restorable.push(self.committed.clone());
        if self.restorable.len() > self.cfg.maxlog as usize {
            self.restorable.remove(0);
        }
        for (k, c) in writes {
            match c {
                Some(v) => {
                    self.committed.insert(*k, v.clone());
                }
                None => {
                    self.committed.remove(k);
                }
            }
        }
    }

    /// oracle on the log after a commit: bounded, consecutive ids, newest entry = the delta just committed
    fn check_log_after_commit(&mut self, v: &Option<LogView>, newest: &Priors, what: &str) {
        let Some(v) = v else { return };
        if v.log.len() > self.cfg.maxlog as usize {
            self.out.fail(format!(
                "C09 the rollback log holds {} deltas, max_rollback_log_len = {} ({what}) case={}",
                v.log.len(),
                self.cfg.maxlog,
                self.case
            ));
        }
        if v.log.len() != self.restorable.len() {
            self.out.fail(format!(
                "C09 the rollback log holds {} deltas, {} commits are restorable ({what}) case={}",
                v.log.len(),
                self.restorable.len(),
                self.case
            ));
        }
        if v.log.windows(2).any(|w| w[1].0 != w[0].0 + 1) {
            self.out.fail(format!("C09 record ids of the in-memory log are not consecutive ({what}) case={}", self.case));
        }
        match v.log.last() {
            Some((_, p)) if p == newest => {}
            _ => self.out.fail(format!("C09 the newest delta of the log is not the committed one ({what}) case={}", self.case)),
        }
    }

    fn commit_overlay(&mut self, oid: usize) -> bool {
        let o = self.ovs[oid].handle.take().unwrap();
        let r = catch_unwind(AssertUnwindSafe(|| o.commit(self.db.as_ref().unwrap())));
        let op = format!("commitov {oid}");
        match r {
            Ok(Ok(())) => {
                let (vl, v) = self.view_line();
                self.out.line(op, format!("ok {vl}"));
                self.ovs[oid].committed = true;
                let ws = self.ovs[oid].changes.clone();
                self.apply_commit(&ws);
                let d = self.ovs[oid].delta.clone();
                self.check_log_after_commit(&v, &d, "overlay commit");
                self.out.count("overlay_committed");
                true
            }
            Ok(Err(e)) => {
                self.out.line(op, "err".into());
                self.out.fail(format!("C11 overlay commit of a valid chain refused: {e:#} case={}", self.case));
                false
            }
            Err(_) => {
                self.out.line(op, "panic".into());
                self.out.fail(format!("C14 overlay commit panicked case={}", self.case));
                false
            }
        }
    }

    fn commit_fin(&mut self, f: Fin) -> bool {
        let op = format!("commitfin {}", f.fid);
        let fin = f.fin;
        let r = catch_unwind(AssertUnwindSafe(|| fin.commit(self.db.as_ref().unwrap())));
        match r {
            Ok(Ok(())) => {
                let (vl, v) = self.view_line();
                self.out.line(op, format!("ok {vl}"));
                self.apply_commit(&f.writes);
                self.check_log_after_commit(&v, &f.priors, "session commit");
                self.out.count("session_committed");
                true
            }
            Ok(Err(e)) => {
                self.out.line(op, "err".into());
                self.out.fail(format!("C12 commit of a valid changeset refused: {e:#} case={}", self.case));
                false
            }
            Err(_) => {
                self.out.line(op, "panic".into());
                self.out.fail(format!("C14 commit panicked case={}", self.case));
                false
            }
        }
    }

    /// `try_commit_nonblocking` while lock `hold` of the rollback log is taken (0: none)
    fn try_commit_fin(&mut self, f: Fin, hold: u8) -> Option<Fin> {
        let op = format!("trycommitfin {} {hold}", f.fid);
        let before = self.db().verif_rollback_view().map(|v| show_view(&v, true));
        let root_before = self.db().root().into_inner();
        let Fin { fid, fin, writes, priors } = f;
        let r = catch_unwind(AssertUnwindSafe(|| {
            let db = self.db.as_ref().unwrap();
            db.verif_with_rollback_lock(hold, || fin.try_commit_nonblocking(db))
        }));
        match r {
            Ok(Ok(None)) => {
                let (vl, v) = self.view_line();
                self.out.line(op, format!("ok {vl}"));
                if hold != 0 {
                    self.out.fail(format!("C12 try_commit_nonblocking went through although lock {hold} was held case={}", self.case));
                }
                self.apply_commit(&writes);
                self.check_log_after_commit(&v, &priors, "non-blocking commit");
                self.out.count("session_committed_nonblocking");
                None
            }
            Ok(Ok(Some(fin))) => {
                let (vl, _) = self.view_line();
                self.out.line(op, format!("busy {vl}"));
                self.out.count("busy_handback");
                if hold == 0 {
                    self.out.fail(format!("C12 try_commit_nonblocking deferred without contention case={}", self.case));
                }
                // C12: nothing changed, the changeset comes back with its delta
                if Some(vl) != before {
                    self.out.fail(format!("C12 a deferred commit changed the rollback log case={}", self.case));
                }
                if self.db().root().into_inner() != root_before {
                    self.out.fail(format!("C12 a deferred commit changed the root case={}", self.case));
                }
                match fin.verif_rollback_delta() {
                    Some(p) if p == priors => {}
                    _ => self.out.fail(format!("C12 the changeset handed back lost / changed its rollback delta case={}", self.case)),
                }
                Some(Fin { fid, fin, writes, priors })
            }
            Ok(Err(e)) => {
                self.out.line(op, "err".into());
                self.out.fail(format!("C12 non-blocking commit of a valid changeset refused: {e:#} case={}", self.case));
                None
            }
            Err(_) => {
                self.out.line(op, "panic".into());
                self.out.fail(format!("C14 non-blocking commit panicked case={}", self.case));
                None
            }
        }
    }

    fn dump(&mut self, what: &str) {
        let keys = self.universe.clone();
        let mut got: Priors = vec![];
        for k in &keys {
            match catch_unwind(AssertUnwindSafe(|| self.db.as_ref().unwrap().read(*k))) {
                Ok(Ok(v)) => got.push((*k, v)),
                _ => {
                    self.out.fail(format!("C01 read of {} failed case={}", hex(k), self.case));
                    got.push((*k, None));
                }
            }
        }
        let op = format!("dump {}", keys.iter().map(|k| hex(k)).collect::<Vec<_>>().join(","));
        self.out.line(op, show_priors(&got, ",", true));
        for (k, v) in &got {
            if v.as_ref() != self.committed.get(k) {
                self.out.fail(format!(
                    "C09 {what}: key {} reads {} but the expected committed state holds {} case={}",
                    hex(k),
                    show_val(v, true),
                    show_val(&self.committed.get(k).cloned(), true),
                    self.case
                ));
            }
        }
    }

    fn rollback(&mut self, n: usize) -> bool {
        let op = format!("rollback {n}");
        let before = self.db().verif_rollback_view().map(|v| show_view(&v, true));
        let r = catch_unwind(AssertUnwindSafe(|| self.db.as_ref().unwrap().rollback(n)));
        let possible = n <= self.restorable.len();
        match r {
            Ok(Ok(())) => {
                let (vl, v) = self.view_line();
                self.out.line(op, format!("ok {vl}"));
                if !possible {
                    self.out.fail(format!(
                        "C09 rollback({n}) succeeded although only {} commits are restorable (max_rollback_log_len {}) case={}",
                        self.restorable.len(),
                        self.cfg.maxlog,
                        self.case
                    ));
                    return true;
                }
                if n > 0 {
                    let keep = self.restorable.len() - n;
                    self.committed = self.restorable[keep].clone();
                    self.restorable.truncate(keep);
                }
                if let Some(v) = v {
                    if v.log.len() != self.restorable.len() {
                        self.out.fail(format!(
                            "C09 after rollback({n}) the log holds {} deltas, expected {} case={}",
                            v.log.len(),
                            self.restorable.len(),
                            self.case
                        ));
                    }
                }
                self.out.count("rollback_ok");
                true
            }
            Ok(Err(_)) => {
                self.out.line(op, "err".into());
                if possible {
                    self.out.fail(format!("C09 rollback({n}) refused although {} commits are restorable case={}", self.restorable.len(), self.case));
                }
                let after = self.db().verif_rollback_view().map(|v| show_view(&v, true));
                if after != before {
                    self.out.fail(format!("C12 a refused rollback({n}) changed the rollback log case={}", self.case));
                }
                self.out.count("rollback_refused");
                false
            }
            Err(_) => {
                self.out.line(op, "panic".into());
                self.out.fail(format!("C14 rollback({n}) panicked case={}", self.case));
                false
            }
        }
    }

    fn reopen(&mut self) -> bool {
        let before = self.db().verif_rollback_view().map(|v| v.log);
        self.db = None;
        let mut r = self.rng.fork();
        self.cfg = self.cfg.regen(&mut r);
        if !self.open() {
            return false;
        }
        let (vl, v) = self.view_line();
        self.out.line("reopen".into(), format!("ok {vl}"));
        if v.map(|v| v.log) != before {
            self.out.fail(format!("C10 the rollback log after reopen differs from the one before close case={}", self.case));
        }
        self.out.count("reopen");
        true
    }
}

fn dense_universe(rng: &mut Rng) -> Vec<Key> {
    // two clusters under common prefixes + a few loners
    let mut u = vec![];
    for _ in 0..2 {
        let base = rng.bytes32();
        let d = interesting_depth(rng).min(250);
        for _ in 0..rng.range(4, 6) {
            u.push(with_prefix(rng, &base, d));
        }
    }
    for _ in 0..rng.range(2, 4) {
        u.push(rng.bytes32());
    }
    u.sort();
    u.dedup();
    u
}

fn run_case(out: &mut Sink, seed: u64, case: usize, directed: bool) {
    let mut rng = Rng::new(seed.wrapping_mul(1_000_003).wrapping_add(case as u64));
    let pid = std::process::id();
    let dir = format!("/dev/shm/nomt-verif-pa8-{pid}-{seed}-{case}");
    let _ = std::fs::remove_dir_all(&dir);
    let mut cfg = DbCfg::gen(&mut rng);
    cfg.rollback = true;
    cfg.maxlog = *rng.pick(&[1u32, 2, 3, 5, 5, 100]);
    if let Some(m) = std::env::var("VH_DELTA_MAXLOG").ok().and_then(|s| s.parse().ok()) {
        cfg.maxlog = m; // experiments outside the registered runs (e.g. max_rollback_log_len = 0)
    }
    cfg.workers = *rng.pick(&[1usize, 2, 4]);
    let big = rng.chance(1, 3);
    let universe = dense_universe(&mut rng);
    out.mark_case(format!("delta case {case} maxlog={} big={big} {}", cfg.maxlog, cfg.describe()));
    let mut cx = Ctx {
        out,
        rng,
        db: None,
        dir: dir.clone(),
        cfg,
        committed: Map::new(),
        restorable: vec![],
        universe,
        ovs: vec![],
        next_sid: 0,
        next_fid: 0,
        big,
        case,
    };
    if !cx.open() {
        let _ = std::fs::remove_dir_all(&dir);
        return;
    }
    cx.out.line(format!("reset {}", cx.cfg.maxlog), "ok".into());
    if directed {
        directed_case(&mut cx);
    } else if case % 16 == 5 {
        wide_case(&mut cx);
    } else {
        random_case(&mut cx);
    }
    cx.db = None;
    let _ = std::fs::remove_dir_all(&dir);
}

/// the shape an independent red-team change was first missed on: overlay A deletes a committed key, overlay B on A
/// blindly writes it, commit A, commit B, rollback(1) must not resurrect the value A deleted
fn directed_case(cx: &mut Ctx<'_>) {
    let k = cx.universe[0];
    let k2 = cx.universe[1];
    let v0 = vec![7u8; 40];
    let big0 = vec![9u8; 16 * 4092 + 5];
    let Some(f) = cx.session(&[], vec![(k, Act::Write(Some(v0))), (k2, Act::Write(Some(big0)))], "directed populate") else { return };
    if !cx.commit_fin(f) {
        return;
    }
    cx.dump("populate");
    if !cx.reopen() {
        return;
    }
    let Some(f) = cx.session(&[], vec![(k, Act::Write(None)), (k2, Act::Write(None))], "directed A deletes") else { return };
    let a = cx.make_overlay(f);
    let Some(f) = cx.session(&[a], vec![(k, Act::Write(Some(vec![1u8; 3]))), (k2, Act::Write(Some(vec![2u8; 2000])))], "directed B rewrites") else { return };
    let b = cx.make_overlay(f);
    if !cx.commit_overlay(a) {
        return;
    }
    cx.dump("commit A");
    if !cx.commit_overlay(b) {
        return;
    }
    cx.dump("commit B");
    if cx.rollback(1) {
        cx.dump("rollback(1) to A's view");
    }
    if cx.restorable.len() >= 1 && cx.rollback(1) {
        cx.dump("rollback(1) to the populated store");
    }
}

/// many concurrent prior lookups: 150…300 keys with overflow values (some > 15 pages), cold leaf cache, every key
/// hinted and blindly rewritten in ONE batch — more than `TARGET_OVERFLOW_REQUESTS` (128) requests are alive at once,
/// so the worker's dormant-request accounting and the throttled `resubmit_overflow` are exercised; then an overlay on
/// top deletes half of them and a session on it rewrites everything again
fn wide_case(cx: &mut Ctx<'_>) {
    let n = cx.rng.range(150, 300);
    let base = cx.rng.bytes32();
    let mut keys: Vec<Key> = (0..n).map(|_| with_prefix(&mut cx.rng, &base, 3)).collect();
    keys.sort();
    keys.dedup();
    cx.universe = keys.clone();
    cx.out.count("wide_case");
    let mut batch = vec![];
    for (i, k) in keys.iter().enumerate() {
        let len = if i % 40 == 7 { 15 * 4092 + 1 + cx.rng.below(9000) } else { cx.rng.range(1333, 9000) };
        let mut x = cx.rng.next();
        let v: Val = (0..len)
            .map(|_| {
                x = x.wrapping_mul(6364136223846793005).wrapping_add(1442695040888963407);
                (x >> 33) as u8
            })
            .collect();
        batch.push((*k, Act::Write(Some(v))));
    }
    let Some(f) = cx.session(&[], batch, "wide populate") else { return };
    if !cx.commit_fin(f) {
        return;
    }
    if !cx.reopen() {
        return;
    }
    // every key rewritten (hints decided by `session`), cold cache
    let batch: Vec<(Key, Act)> = keys
        .iter()
        .enumerate()
        .map(|(i, k)| (*k, if i % 5 == 0 { Act::Write(None) } else { Act::Write(Some(vec![i as u8; 10])) }))
        .collect();
    let Some(f) = cx.session(&[], batch, "wide rewrite") else { return };
    let a = cx.make_overlay(f);
    let batch: Vec<(Key, Act)> = keys.iter().map(|k| (*k, Act::Write(Some(vec![1u8; 1400])))).collect();
    let Some(f) = cx.session(&[a], batch, "wide on overlay") else { return };
    if !cx.commit_overlay(a) {
        return;
    }
    if !cx.commit_fin(f) {
        return;
    }
    cx.dump("wide commits");
    while !cx.restorable.is_empty() {
        if !cx.rollback(1) {
            break;
        }
        cx.dump("wide rollback");
    }
}

fn random_case(cx: &mut Ctx<'_>) {
    // phase 0: populate
    for i in 0..cx.rng.range(2, 4) {
        let view = cx.committed.clone();
        let batch = cx.gen_batch(&view, &[], 12, i < 2);
        let Some(f) = cx.session(&[], batch, "populate") else { return };
        if i == 0 && cx.rng.chance(1, 3) {
            if let Some(f) = cx.try_commit_fin(f, 0) {
                let _ = f;
                return;
            }
        } else if !cx.commit_fin(f) {
            return;
        }
    }
    cx.dump("populate");
    if cx.rng.chance(1, 2) && !cx.reopen() {
        return;
    }
    // phase 1: a chain of overlays on the same keys
    let nov = cx.rng.below(5);
    for _ in 0..nov {
        let chain = cx.chain();
        let view = cx.view_of(&chain);
        let hot = cx.hot_keys(&chain);
        let batch = cx.gen_batch(&view, &hot, 7, false);
        let Some(f) = cx.session(&chain, batch, "overlay") else { return };
        cx.make_overlay(f);
    }
    // phase 2: the final batch on the whole chain
    let chain = cx.chain();
    let view = cx.view_of(&chain);
    let hot = cx.hot_keys(&chain);
    let batch = cx.gen_batch(&view, &hot, 8, false);
    let Some(mut last) = cx.session(&chain, batch, "final batch") else { return };
    // phase 3: commit the chain oldest first; sessions on the remaining chain in between
    let order: Vec<usize> = chain.iter().rev().cloned().collect();
    for oid in order {
        if !cx.commit_overlay(oid) {
            return;
        }
        if cx.rng.chance(1, 2) {
            let rest = cx.chain();
            let view = cx.view_of(&rest);
            let hot: Vec<Key> = (0..cx.ovs.len()).flat_map(|i| cx.ovs[i].changes.iter().map(|c| c.0).collect::<Vec<_>>()).collect();
            let batch = cx.gen_batch(&view, &hot, 6, false);
            if let Some(f) = cx.session(&rest, batch, "mid-chain session") {
                cx.out.line(format!("dropfin {}", f.fid), "ok".into());
                cx.out.count("mid_chain_session");
            }
        }
        if cx.rng.chance(1, 3) {
            cx.dump("overlay commit");
        }
    }
    // the final changeset: sometimes first against a taken lock of the rollback log
    if cx.rng.chance(2, 5) {
        let hold = *cx.rng.pick(&[1u8, 2]);
        match cx.try_commit_fin(last, hold) {
            Some(f) => last = f,
            None => return,
        }
        cx.dump("deferred commit");
        if cx.rng.chance(1, 2) {
            let hold2 = 3 - hold;
            match cx.try_commit_fin(last, hold2) {
                Some(f) => last = f,
                None => return,
            }
        }
    }
    if cx.rng.chance(1, 2) {
        if cx.try_commit_fin(last, 0).is_some() {
            return;
        }
    } else if !cx.commit_fin(last) {
        return;
    }
    cx.dump("final commit");
    // phase 4: roll everything back again
    let mut refused = 0;
    for _ in 0..12 {
        let held = cx.restorable.len();
        let n = match cx.rng.below(8) {
            0 => held + 1,
            1 => 2.min(held.max(1)),
            2 => 0,
            3 if held > 0 => cx.rng.range(1, held),
            _ => 1,
        };
        if cx.rollback(n) {
            cx.dump("rollback");
        } else {
            refused += 1;
            cx.dump("refused rollback");
            if refused >= 2 || held == 0 {
                break;
            }
        }
        if cx.rng.chance(1, 5) && !cx.reopen() {
            return;
        }
    }
    // record ids are reused after a truncation: one more commit and its rollback
    let view = cx.committed.clone();
    let batch = cx.gen_batch(&view, &[], 5, false);
    if let Some(f) = cx.session(&[], batch, "after rollbacks") {
        if cx.commit_fin(f) {
            cx.dump("commit after rollbacks");
            if cx.rng.chance(1, 2) && !cx.reopen() {
                return;
            }
            if cx.rollback(1) {
                cx.dump("rollback after rollbacks");
            }
        }
    }
}

pub fn run(seed: u64, cases: usize, out: &mut Sink) {
    for case in 0..cases {
        run_case(out, seed, case, case == 0);
    }
}

// ---------------------------------------------------------------------------------------------------------------
// the real `Rollback` alone

fn gen_priors(r: &mut Rng, keys: &[Key]) -> Priors {
    let mut m: BTreeMap<Key, Option<Vec<u8>>> = BTreeMap::new();
    for _ in 0..r.below(5) {
        let k = *r.pick(keys);
        let v = if r.chance(1, 3) { None } else { Some((0..r.range(0, 5)).map(|_| r.next() as u8).collect()) };
        m.insert(k, v);
    }
    m.into_iter().collect()
}

fn log_case(out: &mut Sink, seed: u64, case: usize) {
    let mut r = Rng::new(seed.wrapping_mul(7_000_003).wrapping_add(case as u64));
    let pid = std::process::id();
    let dir = std::path::PathBuf::from(format!("/dev/shm/pa-8-rb-{pid}-{seed}-{case}"));
    let _ = std::fs::remove_dir_all(&dir);
    std::fs::create_dir_all(&dir).unwrap();
    let maxlen: u32 = if r.chance(1, 25) { 0 } else { *r.pick(&[1u32, 1, 2, 3, 5]) };
    let keys: Vec<Key> = (0..6).map(|_| r.bytes32()).collect();
    // strict: the order `Nomt` imposes (every append and every truncation is followed by its sync before anything else
    // happens — both run under the write guard); wild: any order (only the model comparison and the local C12 oracles)
    let strict = !r.chance(1, 5);
    out.mark_case(format!("delta-log case {case} maxlen={maxlen} strict={strict}"));
    out.count(if strict { "log_case_strict" } else { "log_case_wild" });
    out.line("reset 0".into(), "ok".into());
    let mut sim = match RollbackSim::open(&dir, maxlen, 0, 0) {
        Ok(s) => s,
        Err(e) => {
            out.fail(format!("C10 Rollback::read on an empty directory failed: {e:#}"));
            let _ = std::fs::remove_dir_all(&dir);
            return;
        }
    };
    out.line(format!("rb-open {maxlen} 0 0"), format!("ok {}", show_view(&sim.view(), false)));
    // oracle: the deltas that must be held, oldest first
    let mut held: Vec<Priors> = vec![];
    let mut published = (0u64, 0u64);
    let mut need_sync = false;
    let mut truncated = false;
    let mut sig = String::new();
    let nops = r.range(8, 40);
    for _ in 0..nops {
        let choice = if need_sync && (strict || r.chance(1, 2)) { 3 } else { r.below(8) };
        match choice {
            0 | 1 | 2 => {
                // commit (+ usually the sync of the commit)
                let p = gen_priors(&mut r, &keys);
                let hold = if choice == 2 { *r.pick(&[0u8, 1, 2]) } else { 9 };
                if hold == 9 {
                    match catch_unwind(AssertUnwindSafe(|| sim.commit(p.clone()))) {
                        Ok(Ok(())) => {
                            out.line(format!("rb-commit {}", show_priors(&p, ",", false)), format!("ok {}", show_view(&sim.view(), false)));
                            held.push(p);
                            need_sync = true;
                            sig.push('c');
                        }
                        _ => {
                            out.line(format!("rb-commit {}", show_priors(&p, ",", false)), "err".into());
                            out.fail("C09 Rollback::commit failed".into());
                            break;
                        }
                    }
                } else {
                    let before = show_view(&sim.view(), false);
                    match catch_unwind(AssertUnwindSafe(|| sim.commit_nonblocking(p.clone(), hold))) {
                        Ok(Ok(Some(back))) => {
                            let after = show_view(&sim.view(), false);
                            out.line(
                                format!("rb-try {hold} {}", show_priors(&p, ",", false)),
                                format!("busy {} {}", show_priors(&back, ",", false), after),
                            );
                            if hold == 0 {
                                out.fail("C12 commit_nonblocking handed the delta back without contention".into());
                            }
                            if back != p {
                                out.fail("C12 commit_nonblocking handed back a different delta".into());
                            }
                            if before != after {
                                out.fail("C12 a busy commit_nonblocking changed the rollback log".into());
                            }
                            out.count("log_busy_handback");
                            sig.push('b');
                        }
                        Ok(Ok(None)) => {
                            out.line(format!("rb-try {hold} {}", show_priors(&p, ",", false)), format!("ok {}", show_view(&sim.view(), false)));
                            if hold != 0 {
                                out.fail("C12 commit_nonblocking appended although a lock was held".into());
                            }
                            held.push(p);
                            need_sync = true;
                            sig.push('n');
                        }
                        _ => {
                            out.line(format!("rb-try {hold} {}", show_priors(&p, ",", false)), "err".into());
                            out.fail("C09 Rollback::commit_nonblocking failed".into());
                            break;
                        }
                    }
                }
            }
            3 | 4 => {
                // sync
                match catch_unwind(AssertUnwindSafe(|| sim.sync())) {
                    Ok(Ok(range)) => {
                        out.line("rb-sync".into(), format!("ok range={},{} {}", range.0, range.1, show_view(&sim.view(), false)));
                        published = range;
                        need_sync = false;
                        // the oldest go first, one per sync (a sync that publishes a truncation prunes nothing else)
                        if !truncated && held.len() > maxlen as usize {
                            held.remove(0);
                        }
                        truncated = false;
                        let v = sim.view();
                        if strict && v.log.iter().map(|x| x.1.clone()).collect::<Vec<_>>() != held {
                            out.fail(format!("C09 after a sync the log does not hold the {} newest deltas (maxlen {maxlen})", held.len()));
                        }
                        if strict && v.log.len() > maxlen as usize {
                            out.fail(format!("C09 after a sync the log holds {} deltas, max_rollback_log_len = {maxlen}", v.log.len()));
                        }
                        if !strict {
                            held = v.log.iter().map(|x| x.1.clone()).collect();
                        }
                        sig.push('s');
                    }
                    Ok(Err(_)) => {
                        out.line("rb-sync".into(), "err".into());
                        if strict {
                            out.fail(format!("C09 sync of the rollback log failed (maxlen {maxlen})"));
                        } else {
                            out.count("log_wild_sync_errs");
                        }
                        break;
                    }
                    Err(_) => {
                        out.line("rb-sync".into(), "panic".into());
                        if maxlen == 0 {
                            out.count("log_maxlen0_sync_panics");
                        } else if strict {
                            out.fail(format!("C14 sync of the rollback log panicked (maxlen {maxlen})"));
                        } else {
                            out.count("log_wild_sync_panics");
                        }
                        break;
                    }
                }
            }
            5 | 6 => {
                // truncate
                if need_sync && strict {
                    continue;
                }
                if !strict {
                    // outside the protocol the expected content is whatever the log holds now
                    held = sim.view().log.iter().map(|x| x.1.clone()).collect();
                }
                let len = held.len();
                let n = match r.below(10) {
                    0 => 0,
                    1 => len + 1,
                    2 => len + r.range(1, 3),
                    _ if len > 0 => r.range(1, len),
                    _ => 1,
                };
                let before = show_view(&sim.view(), false);
                match catch_unwind(AssertUnwindSafe(|| sim.truncate(n))) {
                    Ok(Ok(None)) => {
                        let after = show_view(&sim.view(), false);
                        out.line(format!("rb-truncate {n}"), format!("none {after}"));
                        if n <= len {
                            out.fail(format!("C09 truncate({n}) refused although {len} deltas are held"));
                        }
                        if before != after {
                            out.fail(format!("C12 a refused truncate({n}) changed the rollback log"));
                        }
                        out.count("log_truncate_refused");
                        sig.push('r');
                    }
                    Ok(Ok(Some(tb))) => {
                        out.line(
                            format!("rb-truncate {n}"),
                            format!("some {} {}", show_priors(&tb, ",", false), show_view(&sim.view(), false)),
                        );
                        if n > len {
                            out.fail(format!("C09 truncate({n}) succeeded although only {len} deltas are held"));
                            break;
                        }
                        // the n newest, newest first; older priors override newer ones
                        let mut expect: BTreeMap<Key, Option<Vec<u8>>> = BTreeMap::new();
                        for _ in 0..n {
                            for (k, v) in held.pop().unwrap() {
                                expect.insert(k, v);
                            }
                        }
                        if expect.into_iter().collect::<Vec<_>>() != tb {
                            out.fail(format!("C09 the traceback of truncate({n}) is not the fold of the {n} newest deltas"));
                        }
                        let v = sim.view();
                        if v.log.iter().map(|x| x.1.clone()).collect::<Vec<_>>() != held {
                            out.fail(format!("C09 truncate({n}) did not pop exactly the {n} newest deltas"));
                        }
                        if v.pending_truncate.is_none() {
                            out.fail(format!("C09 truncate({n}) left no pending truncation"));
                        }
                        need_sync = true;
                        truncated = true;
                        out.count("log_truncate_ok");
                        sig.push('t');
                    }
                    Ok(Err(_)) => {
                        out.line(format!("rb-truncate {n}"), "err".into());
                        out.fail(format!("C09 truncate({n}) failed"));
                        break;
                    }
                    Err(_) => {
                        out.line(format!("rb-truncate {n}"), "panic".into());
                        if n != 0 {
                            out.fail(format!("C14 truncate({n}) panicked"));
                        } else {
                            out.count("log_truncate0_asserts");
                        }
                        break;
                    }
                }
            }
            _ => {
                // reopen with the published range
                if need_sync || published.0 > published.1 {
                    continue;
                }
                let before = sim.view().log;
                drop(sim);
                match RollbackSim::open(&dir, maxlen, published.0, published.1) {
                    Ok(s) => sim = s,
                    Err(e) => {
                        // strict sequences (what the API can issue: every truncate is followed by its sync before the next commit) must
                        // reopen.  Free sequences can publish a range whose records a STALE pending truncation has wiped (commits between a
                        // truncate and its sync — only reachable through the API after a failed rollback, see DESIGN §6 observations): a range
                        // naming records that do not exist is outside the documented domain of the mirror `Rb.read`, the line is not compared
                        if strict {
                            out.line(format!("rb-open {maxlen} {} {}", published.0, published.1), "err".into());
                            out.fail(format!("C10 Rollback::read with the published range {published:?} failed: {e:#}"));
                        } else {
                            out.line(format!("rb-open {maxlen} {} {}", published.0, published.1), "skip".into());
                            out.count("log_reopen_err_outside_api_discipline");
                        }
                        let _ = std::fs::remove_dir_all(&dir);
                        return;
                    }
                }
                out.line(
                    format!("rb-open {maxlen} {} {}", published.0, published.1),
                    format!("ok {}", show_view(&sim.view(), false)),
                );
                if strict && sim.view().log != before {
                    out.fail(format!("C10 the log read back with the published range {published:?} differs from the one in memory (maxlen {maxlen})"));
                }
                out.count("log_reopen");
                sig.push('o');
            }
        }
    }
    out.nontrivial(&format!("{maxlen}:{sig}"));
    out.count(&format!("log_maxlen_{maxlen}"));
    drop(sim);
    let _ = std::fs::remove_dir_all(&dir);
}

pub fn run_log(seed: u64, cases: usize, out: &mut Sink) {
    for case in 0..cases {
        log_case(out, seed, case);
    }
}
