//! C01 / C13 / C16 / C19: the multi-worker split of the beatree update and its extend-range protocol — the REAL
//! `branch_stage::run` and `leaf_stage::run` with 1 … 8 workers on caller-supplied levels (hooks H17 `run_stage`, H21
//! `run_leaf_stage`, `*_prepare_view`, the recorder of `extend_range_protocol.rs`) against the Lean mirror
//! (`Store/ExtRangeModel.lean`, driver mode `extrange`).
//!
//! Per case: a level of 3 … 10 nodes and a change list built from per-node shapes that force range extensions (the tail
//! of a node deleted so that it is under-full, a node emptied entirely, a node reduced to a few items, bulk inserts that
//! split, single updates, untouched nodes), then for every worker count 1 … 8:
//!   * `bprep` / `lprep`: the `WorkerParams` of the real `prepare_workers`, line by line;
//!   * `bmulti` / `lmulti`: the real stage; compared with the mirror: every `ExtendRangeResponse` each worker received (in
//!     order), every worker's tracker when it returned, the resulting level node by node, the freed old pages, the
//!     number of freed fresh pages.  The real threads run under whatever schedule the machine produces; the mirror runs two
//!     fixed schedules and reports whether they agree (`sched=same`).
//! Oracles that do not depend on the model: content of the new level = `BTreeMap` fold of the changes (C01) = content of
//! the real 1-worker run (C13); separators ascending, every key of a node in `[separator, next separator)`, new nodes not
//! over-full (C16); every page of a vanished old node freed exactly once, no surviving page freed, fresh freed pages
//! distinct and not part of the new level (C19); no panic.
use crate::util::*;
use nomt::verif_api::bit_ops::{prefix_len, separator_len};
use nomt::verif_api::branch_updater as bu;
use nomt::verif_api::extend_range as xr;
use nomt::verif_api::leaf_updater as lu;
use std::collections::BTreeMap;
use std::panic::{catch_unwind, AssertUnwindSafe};

fn optkey_str(k: &Option<Key>) -> String {
    match k {
        None => "-".into(),
        Some(k) => hex(k),
    }
}

fn params_str(ps: &[xr::ParamsView]) -> String {
    ps.iter()
        .map(|p| {
            format!(
                "{}/{}/{}/{}/{}/{}",
                optkey_str(&p.low),
                optkey_str(&p.high),
                p.op_start,
                p.op_end,
                p.left_neighbor as u8,
                p.right_neighbor as u8
            )
        })
        .collect::<Vec<_>>()
        .join(";")
}

fn entries_str(es: &[xr::EntryView]) -> String {
    if es.is_empty() {
        return "-".into();
    }
    es.iter()
        .map(|e| {
            format!(
                "{}:{}:{}:{}",
                hex(&e.key),
                e.deleted.map(|p| p.to_string()).unwrap_or("-".into()),
                e.inserted.is_some() as u8,
                optkey_str(&e.next_separator)
            )
        })
        .collect::<Vec<_>>()
        .join(",")
}

/// `W<op start>[R=…;F=…]` per worker, from the recorder's log
fn workers_str(params: &[xr::ParamsView], log: &[xr::Event], out: &mut Sink, what: &str) -> String {
    let mut parts = Vec::new();
    let mut ranges: Vec<(Option<Key>, Option<Key>)> = Vec::new();
    // C13 (tracker law, lower side): an entry handed over although its key lies below the `new_high_range` of an earlier
    // response to the same requester was held by the responder BELOW its `range.low` (the responder's low is set to every
    // `new_high_range` it sends).  With the `BranchUpdater` convention (every node of a split gets the cutoff as
    // `next_separator`) this happens for produced nodes; in BOTH stages it happens for the delete mark of a node that was merged away (the
    // handed-over node's `next_separator` lies behind it).  A counter, not an oracle: the lower side of the tracker law is false.
    for p in params {
        let mut granted: Option<Key> = None;
        for ev in log {
            if let xr::Event::Response { requester, changed, new_high_range, new_right_neighbor } = ev {
                if *requester != p.op_start {
                    continue;
                }
                if let Some(g) = granted {
                    if changed.iter().any(|e| e.key < g) {
                        out.count(&format!("{what}_entry_held_below_low"));
                    }
                }
                // a relink answer comes from a worker that leaves the chain: the next responder is another one
                granted = if *new_right_neighbor == 0 { *new_high_range } else { None };
            }
        }
    }
    // C13: separators held by two trackers when the workers return (`T13_trackers_disjoint` is FALSE: directed family `dup`)
    {
        let mut seen: std::collections::BTreeMap<Key, usize> = Default::default();
        for ev in log {
            if let xr::Event::Final { worker, inner, .. } = ev {
                for e in inner {
                    if let Some(w0) = seen.insert(e.key, *worker) {
                        if w0 != *worker {
                            // legitimate (the duplicate branch of `filter_*_changeset` exists for it): one worker deleted the
                            // node under this separator, another one produced a node under the same separator
                            out.count(&format!("{what}_separator_in_two_trackers"));
                        }
                    }
                }
                out.add(&format!("{what}_final_tracker_keys"), inner.len() as u64);
            }
        }
    }
    for p in params {
        let mut items = Vec::new();
        let mut fin = None;
        for ev in log {
            match ev {
                xr::Event::Response { requester, changed, new_high_range, new_right_neighbor } if *requester == p.op_start => {
                    items.push(format!("R={}|{}|{}", entries_str(changed), optkey_str(new_high_range), new_right_neighbor));
                    out.count(&format!("{what}_responses"));
                    out.count(&format!("{what}_response_kind_{}", match (changed.last().map_or(false, |e| e.inserted.is_some()), new_right_neighbor) {
                        (true, _) => "pending_base",
                        (false, 0) => "unchanged_range",
                        (false, 1) => "relink_none",
                        _ => "relink_next",
                    }));
                }
                xr::Event::Final { worker, inner, extra_freed, low, high, .. } if *worker == p.op_start => {
                    fin = Some(format!("F={}|x{}|l={}|h={}", entries_str(inner), extra_freed.len(), optkey_str(low), optkey_str(high)));
                    ranges.push((*low, *high));
                }
                _ => {}
            }
        }
        if items.len() >= 2 {
            out.count(&format!("{what}_worker_with_2plus_extensions"));
        }
        items.push(fin.unwrap_or("F=?".into()));
        parts.push(format!("W{}[{}]", p.op_start, items.join(";")));
    }
    // C16: when every worker has returned the non-empty separator ranges are adjacent again: `high` of a worker = `low` of
    // the next one whose range was not consumed entirely (`low = high`); the first is unbounded below, the last above
    let live: Vec<(Option<Key>, Option<Key>)> = ranges.iter().cloned().filter(|r| !(r.0.is_some() && r.0 == r.1)).collect();
    let adjacent = ranges.len() == params.len()
        && live.first().map_or(true, |r| r.0.is_none())
        && live.last().map_or(true, |r| r.1.is_none())
        && live.windows(2).all(|w| w[0].1 == w[1].0);
    if !adjacent {
        out.fail(format!("C16 {what} stage: the separator ranges of the workers are not adjacent when the workers return: {:?}", ranges.iter().map(|r| (optkey_str(&r.0), optkey_str(&r.1))).collect::<Vec<_>>()));
    }
    parts.join(" ")
}

struct Ctx {
    env: Option<bu::StageEnv>,
    path: std::path::PathBuf,
}
impl Ctx {
    fn env(&mut self) -> &bu::StageEnv {
        if self.env.is_none() {
            self.env = Some(bu::StageEnv::new(1, 8));
        }
        self.env.as_ref().unwrap()
    }
}

fn variant() -> String {
    std::env::var("VH_XR_VARIANT").unwrap_or("real".into())
}

/// the per-node shapes of a change list
#[derive(Clone, Copy, Debug, PartialEq)]
enum Shape {
    Untouched,
    Update,
    DeleteTail,
    DeleteAll,
    DeleteHead,
    InsertMany,
    KeepFew,
    DeleteMiddle,
}

fn pick_shape(r: &mut Rng) -> Shape {
    match r.below(20) {
        0..=4 => Shape::Untouched,
        5..=6 => Shape::Update,
        7..=10 => Shape::DeleteTail,
        11..=13 => Shape::DeleteAll,
        14 => Shape::DeleteHead,
        15..=16 => Shape::InsertMany,
        17..=18 => Shape::KeepFew,
        _ => Shape::DeleteMiddle,
    }
}

/// directed families (the geometries of the task): the shapes of the nodes left to right
fn directed_shapes(which: usize, m: usize) -> Vec<Shape> {
    use Shape::*;
    let base: Vec<Shape> = match which % 8 {
        // a worker's last node under-full, the right worker's first node emptied entirely, then untouched nodes
        0 => vec![DeleteTail, DeleteAll, Untouched, Untouched, Update, Update],
        // chains: every node under-full
        1 => vec![KeepFew, KeepFew, KeepFew, KeepFew, KeepFew, KeepFew, KeepFew],
        // everything right of the first node emptied
        2 => vec![DeleteTail, DeleteAll, DeleteAll, DeleteAll, DeleteAll, DeleteAll],
        // alternating
        3 => vec![DeleteTail, Update, DeleteTail, Update, DeleteTail, Update, DeleteTail],
        // splits on the right of an under-full node
        4 => vec![KeepFew, InsertMany, KeepFew, InsertMany, Update],
        // a middle worker whose whole range is consumed
        5 => vec![Update, DeleteTail, KeepFew, DeleteAll, KeepFew, Update, Update],
        6 => vec![DeleteAll, DeleteAll, KeepFew, DeleteAll, DeleteTail, DeleteAll, Update],
        _ => vec![DeleteMiddle, DeleteTail, DeleteHead, DeleteAll, Update, KeepFew],
    };
    (0..m).map(|i| base[i % base.len()]).collect()
}

/// the directed sweep (cases 8 … 8 + SWEEP - 1): node 0 keeps `cap - n2 + d - 2` items, node 1 is emptied, nodes 2 and 3 are
/// untouched, nodes 4 and 5 get one update each — the merged node `rest(0) + node 2` is just above one node for some `d`,
/// so that the worker needs a SECOND merge inside the unchanged range its right neighbour granted (the geometry of the
/// seeded change `C01-branch-stage-stale-range-high`)
/// a second sweep (cases 24 … 39): as above but nodes 1 AND 2 are emptied — with three workers the middle worker owns node 1
/// only, answers "left neighbor consumed our entire range" (relink), and the left worker re-sends its request to the third
/// worker; the second merge happens inside the range the THIRD worker granted
const SWEEP: usize = 32;
/// the tail-merge family: k = 1 … 4 for each size variant
const TAIL: usize = 8;
const TINY: i64 = -1000;
fn tail_params(v: usize) -> (i64, i64, usize) {
    if std::env::var("VH_XR_TAIL").is_err() {
        // 0: tiny tail nodes; 1: one overflow with an under-full rest (the window found by the scan), then plain merges
        return if v == 0 { (TINY, 0, 16) } else { (5, -1, 16) };
    }
    // (c, aoff, plen): scanned with VH_XR_TAIL=<4 * variants>
    let c = (v % 12) as i64;
    let aoff = -(((v / 12) % 3) as i64);
    let plen = [16usize, 8, 12, 20, 24, 28][(v / 36) % 6];
    (c, aoff, plen)
}
fn sweep_sizes(cap: usize, half: usize, d: usize) -> Vec<usize> {
    if d < 16 {
        vec![cap - 5, half + 5, half + 20, half + 10, half + 10, half + 10]
    } else {
        vec![cap - 5, half + 5, half + 5, half + 20, half + 10, half + 10, half + 10]
    }
}
fn sweep_shapes(d: usize) -> Vec<Shape> {
    use Shape::*;
    if d < 16 {
        vec![DeleteTail, DeleteAll, Untouched, Untouched, Update, Update]
    } else {
        vec![DeleteTail, DeleteAll, DeleteAll, Untouched, Untouched, Update, Update]
    }
}
/// how many items node 0 keeps in sweep step `d`: `keep + (the node it merges with)` runs across the capacity
fn sweep_keep(cap: usize, sizes: &[usize], d: usize, slack: usize) -> usize {
    let cap = (cap as i64 + std::env::var("VH_XR_SHIFT").ok().and_then(|s| s.parse::<i64>().ok()).unwrap_or(0)).max(0) as usize;
    if d < 16 {
        (cap + d).saturating_sub(sizes[2] + slack)
    } else {
        (cap + (d - 16)).saturating_sub(sizes[3] + slack)
    }
}

/// which indices of a node of `n` items are deleted / how many keys are inserted / which one is updated
fn shape_plan(r: &mut Rng, shape: Shape, n: usize, underfull_below: usize, keep: Option<usize>) -> (Vec<usize>, usize, Option<usize>) {
    if let (Shape::DeleteTail, Some(keep)) = (shape, keep) {
        return ((keep.clamp(1, n - 1)..n).collect(), 0, None);
    }
    match shape {
        Shape::Untouched => (vec![], 0, None),
        Shape::Update => (vec![], 0, Some(r.below(n))),
        Shape::DeleteTail => {
            let keep = r.range(1, underfull_below.min(n - 1).max(1));
            ((keep..n).collect(), 0, None)
        }
        Shape::DeleteAll => ((0..n).collect(), 0, None),
        Shape::DeleteHead => {
            let keep = r.range(1, underfull_below.min(n - 1).max(1));
            ((0..n - keep).collect(), 0, None)
        }
        Shape::InsertMany => (vec![], r.range(n / 3, n), None),
        Shape::KeepFew => {
            let keep = r.range(1, 4.min(n - 1).max(1));
            let start = r.below(n - keep + 1);
            ((0..n).filter(|i| *i < start || *i >= start + keep).collect(), 0, None)
        }
        Shape::DeleteMiddle => {
            let a = r.below(n / 2);
            let b = r.range(n / 2, n - 1);
            ((a..b).collect(), 0, None)
        }
    }
}

// ---------------------------------------------------------------------------------------------------------------
// branch stage

#[derive(Clone)]
struct BNode {
    id: usize,
    handle: bu::NodeHandle,
    view: bu::NodeView,
}

fn items_str(items: &[(Key, u32, usize)]) -> String {
    items.iter().map(|(k, pn, sl)| format!("{}:{}:{}", hex(k), pn, sl)).collect::<Vec<_>>().join(",")
}
fn view_str(v: &bu::NodeView) -> String {
    format!("{}|{}|{}", v.prefix_len, v.prefix_compressed, items_str(&v.items))
}

fn branch_key(p: &Key, plen: usize, node: usize, slot: usize) -> Key {
    let mut k = [0u8; 32];
    k[..plen].copy_from_slice(&p[..plen]);
    let v = (node * 2000 + slot) as u32;
    k[plen..plen + 4].copy_from_slice(&v.to_be_bytes());
    k[31] = 1;
    k
}

struct BScenario {
    level: Vec<BNode>,
    changes: Vec<(Key, Option<u32>)>,
    desc: String,
}

fn gen_branch(r: &mut Rng, next_id: &mut usize, pn: &mut u32, out: &mut Sink, directed: Option<usize>) -> Option<BScenario> {
    let p = r.bytes32();
    let sweep = directed.filter(|d| *d >= 8).map(|d| d - 8);
    let plen = if sweep.is_some() { 16 } else { *r.pick(&[8usize, 16, 16, 20, 24]) };
    // bytes per item, measured on a probe node of 64 items
    let probe: Vec<(Key, u32)> = (0..64).map(|i| (branch_key(&p, plen, 1, i * 4), 1)).collect();
    let probe_body = catch_unwind(AssertUnwindSafe(|| bu::make_node(&probe, 64, prefix_len(&probe[0].0, &probe[63].0), 1).view().body_size)).ok()?;
    let cap = (bu::BRANCH_NODE_BODY_SIZE - 48) * 64 / probe_body;
    let half = bu::BRANCH_MERGE_THRESHOLD * 64 / probe_body + 2;
    let m = match sweep { Some(d) => sweep_shapes(d).len(), None => r.range(3, 10) };
    let mut level = Vec::new();
    let mut sizes = Vec::new();
    for j in 0..m {
        let n = match r.below(4) {
            0 => r.range(half + 2, half + 10),
            1 => r.range(cap - 12, cap),
            _ => r.range(half + 2, cap),
        };
        let n = match sweep { Some(d) => sweep_sizes(cap, half, d)[j], None => n.min(450) };
        sizes.push(n);
        let keys: Vec<Key> = (0..n).map(|i| branch_key(&p, plen, j, i * 4)).collect();
        let pl = if n <= 1 { separator_len(&keys[0]) } else { prefix_len(&keys[0], &keys[n - 1]) };
        let pc = n;
        let items: Vec<(Key, u32)> = keys.iter().map(|k| {
            *pn += 1;
            (*k, *pn)
        }).collect();
        *pn += 1;
        let bbn = *pn;
        let h = match catch_unwind(AssertUnwindSafe(|| bu::make_node(&items, pc, pl, bbn))) {
            Ok(h) => h,
            Err(_) => {
                out.count("harness_make_node_refused");
                return None;
            }
        };
        let view = match catch_unwind(AssertUnwindSafe(|| h.view())) {
            Ok(v) => v,
            Err(_) => return None,
        };
        if view.body_size > bu::BRANCH_NODE_BODY_SIZE {
            out.count("harness_node_overfull_skipped");
            return None;
        }
        let id = *next_id;
        *next_id += 1;
        out.line(
            format!("node {} {} {} {} {}", id, view.bbn_pn, view.prefix_len, view.prefix_compressed, items_str(&view.items)),
            format!("ok body={}", view.body_size),
        );
        level.push(BNode { id, handle: h, view });
    }
    let shapes: Vec<Shape> = match (directed, sweep) {
        (_, Some(d)) => sweep_shapes(d),
        (Some(w), _) => directed_shapes(w, m),
        _ => (0..m).map(|_| pick_shape(r)).collect(),
    };
    let keep = sweep.map(|d| sweep_keep(cap, &sizes, d, 3));
    let mut changes: Vec<(Key, Option<u32>)> = Vec::new();
    for (j, nd) in level.iter().enumerate() {
        let n = nd.view.items.len();
        let (dels, ins, upd) = shape_plan(r, shapes[j], n, half.saturating_sub(2), keep);
        let mut here: BTreeMap<Key, Option<u32>> = BTreeMap::new();
        for i in dels {
            here.insert(nd.view.items[i].0, None);
        }
        if let Some(i) = upd {
            *pn += 1;
            here.insert(nd.view.items[i].0, Some(*pn));
        }
        for _ in 0..ins {
            let slot = r.below(n) * 4 + 1 + r.below(3);
            *pn += 1;
            here.insert(branch_key(&p, plen, j, slot), Some(*pn));
        }
        changes.extend(here);
    }
    if changes.is_empty() {
        *pn += 1;
        changes.push((level[0].view.items[0].0, Some(*pn)));
    }
    Some(BScenario { level, changes, desc: format!("branch level sizes {:?} shapes {:?} plen {plen}", sizes, shapes) })
}

/// directed family "tail merges" (the geometry of the seeded change `C13-extend-range-high-max`): node 0 keeps an under-full
/// rest, node 1 — the first node of the LAST worker — is emptied, behind it `k` untouched nodes sized so that `rest + node`
/// overflows one node and leaves an under-full rest again (k successive merges past the right neighbour's exhausted range),
/// then one more untouched node.  `c`, `aoff` move the sizes across the narrow window in which the split leaves an
/// under-full remainder.
fn gen_branch_tail(r: &mut Rng, next_id: &mut usize, pn: &mut u32, out: &mut Sink, k: usize, c: i64, aoff: i64, plen: usize) -> Option<BScenario> {
    let p = r.bytes32();
    let probe: Vec<(Key, u32)> = (0..64).map(|i| (branch_key(&p, plen, 1, i * 4), 1)).collect();
    let probe_body = catch_unwind(AssertUnwindSafe(|| bu::make_node(&probe, 64, prefix_len(&probe[0].0, &probe[63].0), 1).view().body_size)).ok()?;
    let cap = (bu::BRANCH_NODE_BODY_SIZE - 48) * 64 / probe_body;
    let half = bu::BRANCH_MERGE_THRESHOLD * 64 / probe_body + 2;
    // `c = TINY`: the tail nodes are tiny (such levels arise: a hand-over can leave an under-full non-rightmost node), every
    // merge stays under-full until the last node — k + 1 successive merges without a split
    let tiny = c == TINY;
    let a = if tiny { 10 } else { (half as i64 - 3 - aoff) as usize };
    let n_u = if tiny { 15 } else { ((cap as i64 + c) as usize).saturating_sub(a) };
    let mut sizes = vec![cap - 5, half + 5];
    for _ in 0..k {
        sizes.push(n_u);
    }
    sizes.push(half + 5);
    let mut level = Vec::new();
    for (j, &n) in sizes.iter().enumerate() {
        let keys: Vec<Key> = (0..n).map(|i| branch_key(&p, plen, j, i * 4)).collect();
        let pl = prefix_len(&keys[0], &keys[n - 1]);
        let items: Vec<(Key, u32)> = keys.iter().map(|k| {
            *pn += 1;
            (*k, *pn)
        }).collect();
        *pn += 1;
        let bbn = *pn;
        let h = catch_unwind(AssertUnwindSafe(|| bu::make_node(&items, n, pl, bbn))).ok()?;
        let view = catch_unwind(AssertUnwindSafe(|| h.view())).ok()?;
        if view.body_size > bu::BRANCH_NODE_BODY_SIZE {
            out.count("harness_node_overfull_skipped");
            return None;
        }
        let id = *next_id;
        *next_id += 1;
        out.line(
            format!("node {} {} {} {} {}", id, view.bbn_pn, view.prefix_len, view.prefix_compressed, items_str(&view.items)),
            format!("ok body={}", view.body_size),
        );
        level.push(BNode { id, handle: h, view });
    }
    let mut changes: Vec<(Key, Option<u32>)> = Vec::new();
    for it in &level[0].view.items[a..] {
        changes.push((it.0, None));
    }
    for it in &level[1].view.items {
        changes.push((it.0, None));
    }
    Some(BScenario { level, changes, desc: format!("branch tail merges k={k} c={c} aoff={aoff} plen={plen} sizes {:?}", sizes) })
}

struct BRes {
    content: Vec<(Key, u32)>,
}

fn run_branch(ctx: &mut Ctx, sc: &BScenario, workers: usize, case: usize, out: &mut Sink) -> Option<BRes> {
    let level = &sc.level;
    let db = level.iter().map(|n| format!("{}@{}", hex(&n.view.items[0].0), n.id)).collect::<Vec<_>>().join(",");
    let chs = sc.changes.iter().map(|(k, pn)| format!("{}:{}", hex(k), pn.map(|p| p.to_string()).unwrap_or("-".into()))).collect::<Vec<_>>().join(",");
    let nodes: Vec<(Key, bu::NodeHandle)> = level.iter().map(|n| (n.view.items[0].0, n.handle.clone())).collect();
    let bump = level.iter().map(|n| n.view.bbn_pn).max().unwrap_or(0) + 1;
    // prepare_workers
    let params = match catch_unwind(AssertUnwindSafe(|| xr::branch_prepare_view(&nodes, &sc.changes, workers))) {
        Ok(p) => p,
        Err(_) => {
            out.line(format!("bprep {workers} {db} {chs}"), "panic".into());
            out.fail(format!("C13 branch prepare_workers panicked ({workers} workers, case {case}: {})", sc.desc));
            return None;
        }
    };
    out.line(format!("bprep {workers} {db} {chs}"), params_str(&params));
    out.count(&format!("branch_workers_asked_{workers}"));
    out.count(&format!("branch_workers_got_{}", params.len()));
    prepare_oracle("branch", &params, &sc.changes.iter().map(|c| c.0).collect::<Vec<_>>(), workers, case, &sc.desc, out);
    // the stage
    let _ = xr::take_log();
    let op = format!("bmulti {} {workers} {db} {chs}", variant());
    let path = ctx.path.clone();
    let r = {
        let env = ctx.env();
        catch_unwind(AssertUnwindSafe(|| bu::run_stage(env, &path, &nodes, &sc.changes, workers, bump)))
    };
    let log = xr::take_log();
    let so = match r {
        Err(_) => {
            ctx.env = None;
            out.line(op, "panic".into());
            out.fail(format!("C01 branch_stage::run with {workers} workers panicked (case {case}: {})", sc.desc));
            return None;
        }
        Ok(Err(e)) => {
            ctx.env = None;
            out.line(op, format!("ioerr {e}"));
            out.fail(format!("C01 branch_stage::run with {workers} workers failed: {e} (case {case}: {})", sc.desc));
            return None;
        }
        Ok(Ok(so)) => so,
    };
    let ws = workers_str(&params, &log, out, "branch");
    let mut lvl = Vec::new();
    let mut content: Vec<(Key, u32)> = Vec::new();
    let mut survivors = Vec::new();
    let mut new_pns = Vec::new();
    let mut seps: Vec<(Key, Key, Key)> = Vec::new();
    for (sep, h) in &so.index {
        match level.iter().position(|n| n.handle.ptr_eq(h)) {
            Some(j) => {
                survivors.push(j);
                lvl.push(format!("{}|o{}", hex(sep), level[j].view.bbn_pn));
                content.extend(level[j].view.items.iter().map(|it| (it.0, it.1)));
                seps.push((*sep, level[j].view.items[0].0, level[j].view.items.last().unwrap().0));
            }
            None => match catch_unwind(AssertUnwindSafe(|| h.view())) {
                Ok(v) => {
                    lvl.push(format!("{}|n|{}", hex(sep), view_str(&v)));
                    if v.body_size > bu::BRANCH_NODE_BODY_SIZE || v.items.is_empty() {
                        out.fail(format!("C16 branch stage with {workers} workers: a produced node is empty or over-full ({} bytes) (case {case}: {})", v.body_size, sc.desc));
                    }
                    if !v.items.is_empty() {
                        seps.push((*sep, v.items[0].0, v.items.last().unwrap().0));
                    }
                    new_pns.push(v.bbn_pn);
                    content.extend(v.items.iter().map(|it| (it.0, it.1)));
                }
                Err(_) => {
                    lvl.push(format!("{}|n|undecodable", hex(sep)));
                    out.fail(format!("C16 branch stage with {workers} workers: a produced node cannot be decoded (case {case}: {})", sc.desc));
                }
            },
        }
    }
    let mut freed_old: Vec<u32> = so.freed.iter().cloned().filter(|p| *p < bump).collect();
    freed_old.sort();
    let mut extra: Vec<u32> = so.freed.iter().cloned().filter(|p| *p >= bump).collect();
    let n_extra = extra.len();
    let line = format!(
        "{ws} lvl={} freed={} extra={} sched=same",
        if lvl.is_empty() { "-".to_string() } else { lvl.join(";") },
        if freed_old.is_empty() { "-".to_string() } else { freed_old.iter().map(|p| p.to_string()).collect::<Vec<_>>().join(",") },
        n_extra
    );
    out.nontrivial(&line);
    out.line(op, line);
    out.add("branch_extra_freed", n_extra as u64);
    pending_base_oracle("branch", &log, n_extra, workers, case, &sc.desc, out);
    // oracles
    let mut want: BTreeMap<Key, u32> = level.iter().flat_map(|n| n.view.items.iter().map(|it| (it.0, it.1))).collect();
    for (k, pn) in &sc.changes {
        match pn {
            Some(p) => {
                want.insert(*k, *p);
            }
            None => {
                want.remove(k);
            }
        }
    }
    let want: Vec<(Key, u32)> = want.into_iter().collect();
    if content != want {
        out.fail(format!(
            "C01 branch stage with {workers} workers: the new level holds {} entries, the BTreeMap fold {} — content differs (case {case}: {})",
            content.len(),
            want.len(),
            sc.desc
        ));
    }
    chain_oracle("branch", &seps, workers, case, &sc.desc, out);
    let mut gone: Vec<u32> = level.iter().enumerate().filter(|(j, _)| !survivors.contains(j)).map(|(_, n)| n.view.bbn_pn).collect();
    gone.sort();
    if freed_old != gone {
        out.fail(format!("C19 branch stage with {workers} workers: freed old pages {:?} differ from the pages of the replaced nodes {:?} (case {case}: {})", freed_old, gone, sc.desc));
    }
    extra.sort();
    extra.dedup();
    if extra.len() != n_extra || extra.iter().any(|p| new_pns.contains(p)) {
        out.fail(format!("C19 branch stage with {workers} workers: a page allocated in this stage is freed twice or freed although it is part of the new level (case {case}: {})", sc.desc));
    }
    Some(BRes { content })
}

/// C19: a node that was written by the right worker and handed over as a pending base never becomes part of the level:
/// its fresh page must be freed — as many freed fresh pages as pending bases handed over
fn pending_base_oracle(what: &str, log: &[xr::Event], n_extra: usize, workers: usize, case: usize, desc: &str, out: &mut Sink) {
    let handed = log
        .iter()
        .filter(|ev| matches!(ev, xr::Event::Response { changed, .. } if changed.last().map_or(false, |e| e.inserted.is_some())))
        .count();
    if handed != n_extra {
        out.fail(format!(
            "C19 {what} stage with {workers} workers: {handed} pending bases were handed over but {n_extra} fresh pages were freed (a page written in this stage leaks or is freed twice) (case {case}: {desc})"
        ));
    }
}

/// C13 / C16: what `prepare_workers` promises
fn prepare_oracle(what: &str, ps: &[xr::ParamsView], keys: &[Key], asked: usize, case: usize, desc: &str, out: &mut Sink) {
    let mut bad = Vec::new();
    if ps.is_empty() || ps.len() > asked {
        bad.push(format!("{} workers for {asked} asked", ps.len()));
    }
    for (i, p) in ps.iter().enumerate() {
        if p.op_start >= p.op_end {
            bad.push(format!("worker {i} has an empty op range"));
        }
        if i == 0 && (p.low.is_some() || p.op_start != 0 || p.left_neighbor) {
            bad.push("first worker does not start at the beginning".into());
        }
        if i + 1 == ps.len() && (p.high.is_some() || p.op_end != keys.len() || p.right_neighbor) {
            bad.push("last worker does not end at the end".into());
        }
        if i + 1 < ps.len() {
            let q = &ps[i + 1];
            if p.high != q.low || p.high.is_none() || p.op_end != q.op_start || !p.right_neighbor || !q.left_neighbor {
                bad.push(format!("workers {i} and {} are not adjacent", i + 1));
            }
        }
        for k in &keys[p.op_start.min(keys.len())..p.op_end.min(keys.len())] {
            if p.low.map_or(false, |l| *k < l) || p.high.map_or(false, |h| *k >= h) {
                bad.push(format!("worker {i} has an op outside its separator range"));
                break;
            }
        }
    }
    if !bad.is_empty() {
        out.fail(format!("C13 {what} prepare_workers: {} (case {case}: {desc})", bad.join("; ")));
    }
}

/// C16: separators ascending; every node's keys in `[separator, next separator)`
fn chain_oracle(what: &str, seps: &[(Key, Key, Key)], workers: usize, case: usize, desc: &str, out: &mut Sink) {
    for (i, (sep, first, last)) in seps.iter().enumerate() {
        let next_ok = seps.get(i + 1).map_or(true, |n| *last < n.0 && *sep < n.0);
        if !(sep <= first && next_ok) {
            out.fail(format!("C16 {what} stage with {workers} workers: node {i} of the new level is out of order (separator above its first key, or its last key not below the next separator) (case {case}: {desc})"));
            return;
        }
    }
}

// ---------------------------------------------------------------------------------------------------------------
// leaf stage

#[derive(Clone)]
struct LLeaf {
    id: usize,
    sep: Key,
    pn: u32,
    entries: Vec<lu::Entry>,
}

fn leaf_body(es: &[lu::Entry]) -> usize {
    es.len() * 34 + es.iter().map(|e| e.1.len()).sum::<usize>()
}

fn lentries_str(es: &[lu::Entry]) -> String {
    if es.is_empty() {
        return "-".into();
    }
    es.iter()
        .map(|(k, v, o)| format!("{}:{}:{}", hex(k), if v.is_empty() { "_".to_string() } else { hex(v) }, *o as u8))
        .collect::<Vec<_>>()
        .join(",")
}

fn leaf_key(p: &Key, leaf: usize, slot: usize) -> Key {
    let mut k = *p;
    let v = (leaf * 4000 + slot) as u32;
    k[4..8].copy_from_slice(&v.to_be_bytes());
    for b in k[8..].iter_mut() {
        *b = 0;
    }
    k
}

struct LScenario {
    leaves: Vec<LLeaf>,
    changes: Vec<(Key, Option<Vec<u8>>)>,
    fanout: usize,
    desc: String,
}

fn gen_leaf(r: &mut Rng, next_id: &mut usize, pn: &mut u32, out: &mut Sink, directed: Option<usize>) -> LScenario {
    let mut p = r.bytes32();
    p[0] = 0x40 | (p[0] & 0x3f);
    let sweep = directed.filter(|d| *d >= 8).map(|d| d - 8);
    let m = match sweep { Some(d) => sweep_shapes(d).len(), None => r.range(3, 12) };
    let vsize = if sweep.is_some() { 20 } else { *r.pick(&[20usize, 40, 60, 100]) };
    let per = 34 + vsize;
    let cap = lu::LEAF_NODE_BODY_SIZE / per;
    let half = lu::LEAF_MERGE_THRESHOLD / per + 1;
    let mut leaves = Vec::new();
    let mut sizes = Vec::new();
    for j in 0..m {
        let n = match r.below(4) {
            0 => r.range(half + 1, half + 4),
            1 => r.range(cap.saturating_sub(3).max(half + 1), cap),
            _ => r.range(half + 1, cap),
        };
        let n = match sweep { Some(d) => sweep_sizes(cap, half, d)[j], None => n };
        sizes.push(n);
        let entries: Vec<lu::Entry> = (0..n)
            .map(|i| {
                let mut v = vec![0u8; vsize];
                v[0] = j as u8;
                v[1] = i as u8;
                (leaf_key(&p, j, i * 4), v, false)
            })
            .collect();
        debug_assert!(leaf_body(&entries) <= lu::LEAF_NODE_BODY_SIZE);
        *pn += 1;
        let sep = if j == 0 { [0u8; 32] } else { entries[0].0 };
        let id = *next_id;
        *next_id += 1;
        out.line(format!("lleaf {} {} {} {}", id, hex(&sep), *pn, lentries_str(&entries)), "ok".into());
        leaves.push(LLeaf { id, sep, pn: *pn, entries });
    }
    let shapes: Vec<Shape> = match (directed, sweep) {
        (_, Some(d)) => sweep_shapes(d),
        (Some(w), _) => directed_shapes(w, m),
        _ => (0..m).map(|_| pick_shape(r)).collect(),
    };
    let keep = sweep.map(|d| sweep_keep(cap, &sizes, d, 6));
    let mut changes: Vec<(Key, Option<Vec<u8>>)> = Vec::new();
    for (j, lf) in leaves.iter().enumerate() {
        let n = lf.entries.len();
        let (dels, ins, upd) = shape_plan(r, shapes[j], n, half.saturating_sub(2).max(1), keep);
        let mut here: BTreeMap<Key, Option<Vec<u8>>> = BTreeMap::new();
        for i in dels {
            // the first entry of the first leaf stays: `enforce_first_leaf_separator` is not part of this unit
            if j == 0 && i == 0 {
                continue;
            }
            here.insert(lf.entries[i].0, None);
        }
        if let Some(i) = upd {
            let mut v = vec![0xabu8; vsize];
            v[0] = r.below(256) as u8;
            here.insert(lf.entries[i].0, Some(v));
        }
        for _ in 0..ins {
            let slot = r.below(n) * 4 + 1 + r.below(3);
            let mut v = vec![0xcdu8; vsize];
            v[0] = r.below(256) as u8;
            here.insert(leaf_key(&p, j, slot), Some(v));
        }
        changes.extend(here);
    }
    if changes.is_empty() {
        changes.push((leaves[0].entries[0].0, Some(vec![1u8; vsize])));
    }
    let fanout = *r.pick(&[2usize, 3, 4, 16]);
    LScenario { leaves, changes, fanout, desc: format!("leaf level sizes {:?} value size {vsize} shapes {:?} fanout {fanout}", sizes, shapes) }
}

/// the leaf twin of `gen_branch_tail`: the value sizes of the red team's demo — the rest `[900, 900]` (1868 bytes) plus a leaf
/// `[1300, 1100, 700]` is one full leaf `[900, 900, 1300]` and the under-full rest `[1100, 700]` (1868 bytes) again
fn gen_leaf_tail(r: &mut Rng, next_id: &mut usize, pn: &mut u32, out: &mut Sink, k: usize) -> LScenario {
    let mut p = r.bytes32();
    p[0] = 0x40 | (p[0] & 0x3f);
    let mut shapes: Vec<Vec<usize>> = vec![vec![900, 900, 900, 900], vec![1100, 1000, 1000]];
    for _ in 0..k {
        shapes.push(vec![1300, 1100, 700]);
    }
    shapes.push(vec![1000, 1000]);
    let mut leaves = Vec::new();
    for (j, vs) in shapes.iter().enumerate() {
        let entries: Vec<lu::Entry> = vs
            .iter()
            .enumerate()
            .map(|(i, len)| {
                let mut v = vec![j as u8; *len];
                v[0] = i as u8;
                (leaf_key(&p, j, i * 4), v, false)
            })
            .collect();
        *pn += 1;
        let sep = if j == 0 { [0u8; 32] } else { entries[0].0 };
        let id = *next_id;
        *next_id += 1;
        out.line(format!("lleaf {} {} {} {}", id, hex(&sep), *pn, lentries_str(&entries)), "ok".into());
        leaves.push(LLeaf { id, sep, pn: *pn, entries });
    }
    let mut changes: Vec<(Key, Option<Vec<u8>>)> = Vec::new();
    changes.push((leaves[0].entries[2].0, None));
    changes.push((leaves[0].entries[3].0, None));
    for e in &leaves[1].entries {
        changes.push((e.0, None));
    }
    LScenario { leaves, changes, fanout: 16, desc: format!("leaf tail merges k={k}") }
}

/// directed family `dup` (the same separator in two trackers): the right worker's first leaf is under-full and merges with the
/// next leaf `Y` (a delete mark under `sep(Y)` stays in its tracker); the left worker merges its under-full rest with the
/// handed-over leaf and splits in the middle, the second half starts at `Y`'s first key — with the canonical separators
/// (`separate(last key before, first key)`) the new leaf gets exactly `sep(Y)`
fn gen_leaf_dup(r: &mut Rng, next_id: &mut usize, pn: &mut u32, out: &mut Sink) -> LScenario {
    use nomt::verif_api::bit_ops::separate;
    let mut p = r.bytes32();
    p[0] = 0x40 | (p[0] & 0x3f);
    let shapes: Vec<Vec<usize>> = vec![vec![900, 900, 900, 900], vec![700, 1000, 1000], vec![1100, 1100], vec![1000, 1000, 1000], vec![1000, 1000]];
    let mut leaves: Vec<LLeaf> = Vec::new();
    for (j, vs) in shapes.iter().enumerate() {
        let entries: Vec<lu::Entry> = vs
            .iter()
            .enumerate()
            .map(|(i, len)| {
                let mut v = vec![j as u8; *len];
                v[0] = i as u8;
                (leaf_key(&p, j, i * 4), v, false)
            })
            .collect();
        *pn += 1;
        let sep = match leaves.last() {
            None => [0u8; 32],
            Some(prev) => separate(&prev.entries.last().unwrap().0, &entries[0].0),
        };
        let id = *next_id;
        *next_id += 1;
        out.line(format!("lleaf {} {} {} {}", id, hex(&sep), *pn, lentries_str(&entries)), "ok".into());
        leaves.push(LLeaf { id, sep, pn: *pn, entries });
    }
    let changes: Vec<(Key, Option<Vec<u8>>)> = vec![
        (leaves[0].entries[2].0, None),
        (leaves[0].entries[3].0, None),
        (leaves[1].entries[1].0, None),
        (leaves[1].entries[2].0, None),
    ];
    LScenario { leaves, changes, fanout: 16, desc: "leaf dup: a produced leaf under the separator of a leaf the right worker merged away".into() }
}

/// the branch twin of `gen_leaf_dup` (separator of a branch node = its first key): `a` items stay in node 0
fn gen_branch_dup(r: &mut Rng, next_id: &mut usize, pn: &mut u32, out: &mut Sink, a: usize) -> Option<BScenario> {
    let p = r.bytes32();
    let plen = 16usize;
    let sizes = vec![198usize, 110, 108, 115, 115];
    let mut level = Vec::new();
    for (j, &n) in sizes.iter().enumerate() {
        let keys: Vec<Key> = (0..n).map(|i| branch_key(&p, plen, j, i * 4)).collect();
        let pl = prefix_len(&keys[0], &keys[n - 1]);
        let items: Vec<(Key, u32)> = keys.iter().map(|k| {
            *pn += 1;
            (*k, *pn)
        }).collect();
        *pn += 1;
        let bbn = *pn;
        let h = catch_unwind(AssertUnwindSafe(|| bu::make_node(&items, n, pl, bbn))).ok()?;
        let view = catch_unwind(AssertUnwindSafe(|| h.view())).ok()?;
        if view.body_size > bu::BRANCH_NODE_BODY_SIZE {
            return None;
        }
        let id = *next_id;
        *next_id += 1;
        out.line(
            format!("node {} {} {} {} {}", id, view.bbn_pn, view.prefix_len, view.prefix_compressed, items_str(&view.items)),
            format!("ok body={}", view.body_size),
        );
        level.push(BNode { id, handle: h, view });
    }
    let mut changes: Vec<(Key, Option<u32>)> = Vec::new();
    for it in &level[0].view.items[a..] {
        changes.push((it.0, None));
    }
    for it in &level[1].view.items[50..] {
        changes.push((it.0, None));
    }
    Some(BScenario { level, changes, desc: format!("branch dup a={a}") })
}

fn run_leaf(ctx: &mut Ctx, sc: &LScenario, workers: usize, case: usize, out: &mut Sink) -> Option<Vec<(Key, Vec<u8>)>> {
    let ids = sc.leaves.iter().map(|l| l.id.to_string()).collect::<Vec<_>>().join(",");
    let keys: Vec<Key> = sc.changes.iter().map(|c| c.0).collect();
    let seps: Vec<(Key, u32)> = sc.leaves.iter().map(|l| (l.sep, l.pn)).collect();
    let params = match catch_unwind(AssertUnwindSafe(|| xr::leaf_prepare_view(&seps, sc.fanout, &keys, workers))) {
        Ok(p) => p,
        Err(_) => {
            out.fail(format!("C13 leaf prepare_workers panicked ({workers} workers, case {case}: {})", sc.desc));
            return None;
        }
    };
    out.line(format!("lprep {workers} {ids} {}", keys.iter().map(|k| hex(k)).collect::<Vec<_>>().join(",")), params_str(&params));
    out.count(&format!("leaf_workers_asked_{workers}"));
    out.count(&format!("leaf_workers_got_{}", params.len()));
    prepare_oracle("leaf", &params, &keys, workers, case, &sc.desc, out);
    let chs = sc
        .changes
        .iter()
        .map(|(k, v)| format!("{}:{}", hex(k), v.as_ref().map(|v| hex(v)).unwrap_or("-".into())))
        .collect::<Vec<_>>()
        .join(",");
    let op = format!("lmulti {} {workers} {ids} {chs}", variant());
    let bump = sc.leaves.iter().map(|l| l.pn).max().unwrap_or(0) + 1;
    let leaves: Vec<(Key, u32, Vec<lu::Entry>)> = sc.leaves.iter().map(|l| (l.sep, l.pn, l.entries.clone())).collect();
    let _ = xr::take_log();
    let path = ctx.path.with_extension("ln");
    let r = {
        let env = ctx.env();
        catch_unwind(AssertUnwindSafe(|| xr::run_leaf_stage(env, &path, &leaves, sc.fanout, &sc.changes, workers, bump)))
    };
    let log = xr::take_log();
    let so = match r {
        Err(_) => {
            ctx.env = None;
            out.line(op, "panic".into());
            out.fail(format!("C01 leaf_stage::run with {workers} workers panicked (case {case}: {})", sc.desc));
            return None;
        }
        Ok(Err(e)) => {
            ctx.env = None;
            out.line(op, format!("ioerr {e}"));
            out.fail(format!("C01 leaf_stage::run with {workers} workers failed: {e} (case {case}: {})", sc.desc));
            return None;
        }
        Ok(Ok(so)) => so,
    };
    let ws = workers_str(&params, &log, out, "leaf");
    // the new leaf level = the old one with the leaf changeset applied
    let mut lvl: BTreeMap<Key, (Option<u32>, Vec<lu::Entry>)> = sc.leaves.iter().map(|l| (l.sep, (Some(l.pn), l.entries.clone()))).collect();
    let mut new_pns = Vec::new();
    for (k, ch) in &so.leaf_changeset {
        match ch {
            None => {
                lvl.remove(k);
            }
            Some(pn) => match so.new_leaves.iter().find(|(p, _)| p == pn) {
                Some((_, es)) => {
                    new_pns.push(*pn);
                    lvl.insert(*k, (None, es.clone()));
                }
                None => {
                    out.fail(format!("C01 leaf stage with {workers} workers: the changeset names page {pn} which no worker produced (case {case}: {})", sc.desc));
                }
            },
        }
    }
    let mut parts = Vec::new();
    let mut content: Vec<(Key, Vec<u8>)> = Vec::new();
    let mut chain: Vec<(Key, Key, Key)> = Vec::new();
    let mut survivors = Vec::new();
    for (sep, (old, es)) in &lvl {
        match old {
            Some(pn) => {
                parts.push(format!("{}|o{}", hex(sep), pn));
                survivors.push(*pn);
            }
            None => {
                parts.push(format!("{}|n|{}", hex(sep), lentries_str(es)));
                if es.is_empty() || leaf_body(es) > lu::LEAF_NODE_BODY_SIZE {
                    out.fail(format!("C16 leaf stage with {workers} workers: a produced leaf is empty or over-full (case {case}: {})", sc.desc));
                }
            }
        }
        if !es.is_empty() {
            chain.push((*sep, es[0].0, es.last().unwrap().0));
        }
        content.extend(es.iter().map(|e| (e.0, e.1.clone())));
    }
    let mut freed_old: Vec<u32> = so.freed.iter().cloned().filter(|p| *p < bump).collect();
    freed_old.sort();
    let mut extra: Vec<u32> = so.freed.iter().cloned().filter(|p| *p >= bump).collect();
    let n_extra = extra.len();
    let line = format!(
        "{ws} lvl={} freed={} extra={} sched=same",
        if parts.is_empty() { "-".to_string() } else { parts.join(";") },
        if freed_old.is_empty() { "-".to_string() } else { freed_old.iter().map(|p| p.to_string()).collect::<Vec<_>>().join(",") },
        n_extra
    );
    out.nontrivial(&line);
    out.line(op, line);
    out.add("leaf_extra_freed", n_extra as u64);
    pending_base_oracle("leaf", &log, n_extra, workers, case, &sc.desc, out);
    let mut want: BTreeMap<Key, Vec<u8>> = sc.leaves.iter().flat_map(|l| l.entries.iter().map(|e| (e.0, e.1.clone()))).collect();
    for (k, v) in &sc.changes {
        match v {
            Some(v) => {
                want.insert(*k, v.clone());
            }
            None => {
                want.remove(k);
            }
        }
    }
    let want: Vec<(Key, Vec<u8>)> = want.into_iter().collect();
    if content != want {
        out.fail(format!(
            "C01 leaf stage with {workers} workers: the new level holds {} entries, the BTreeMap fold {} — content differs (case {case}: {})",
            content.len(),
            want.len(),
            sc.desc
        ));
    }
    chain_oracle("leaf", &chain, workers, case, &sc.desc, out);
    let mut gone: Vec<u32> = sc.leaves.iter().filter(|l| !survivors.contains(&l.pn)).map(|l| l.pn).collect();
    gone.sort();
    if freed_old != gone {
        out.fail(format!("C19 leaf stage with {workers} workers: freed old pages {:?} differ from the pages of the replaced leaves {:?} (case {case}: {})", freed_old, gone, sc.desc));
    }
    extra.sort();
    extra.dedup();
    if extra.len() != n_extra || extra.iter().any(|p| new_pns.contains(p)) {
        out.fail(format!("C19 leaf stage with {workers} workers: a page allocated in this stage is freed twice or freed although it is part of the new level (case {case}: {})", sc.desc));
    }
    Some(content)
}

// ---------------------------------------------------------------------------------------------------------------

fn worker_counts(r: &mut Rng) -> Vec<usize> {
    // always 1 (the reference), 2 and 3; two more drawn from 4 … 8
    let mut v = vec![1usize, 2, 3];
    let a = r.range(4, 8);
    let mut b = r.range(4, 8);
    if b == a {
        b = if a == 8 { 5 } else { a + 1 };
    }
    v.push(a.min(b));
    v.push(a.max(b));
    if std::env::var("VH_XR_ALL").is_ok() {
        v = (1..=8).collect();
    }
    v
}

pub fn run(seed: u64, cases: usize, out: &mut Sink) {
    let mut rng = Rng::new(seed ^ 0xE7_7E4D_2A11);
    let path = std::path::PathBuf::from(format!("/dev/shm/nomt-verif-extrange-{}-{}.bbn", std::process::id(), seed));
    let mut ctx = Ctx { env: None, path: path.clone() };
    let mut next_node = 0usize;
    let mut next_leaf = 0usize;
    let mut pn = 1000u32;
    let only: Option<usize> = std::env::var("VH_XR_ONLY").ok().and_then(|s| s.parse().ok());
    let ntail: usize = std::env::var("VH_XR_TAIL").ok().and_then(|s| s.parse().ok()).unwrap_or(TAIL);
    let ndup = 8usize;
    let ndirected = 8usize + SWEEP + ntail + ndup;
    for case in 0..cases + ndirected {
        let mut r = rng.fork();
        if let Some(o) = only {
            if o != case {
                continue;
            }
        }
        let directed = if case < ndirected { Some(case) } else { None };
        let wcs = worker_counts(&mut r);
        let dup = directed.filter(|d| *d >= 8 + SWEEP + ntail).map(|d| d - 8 - SWEEP - ntail);
        let directed = if dup.is_some() { None } else { directed };
        let tail = directed.filter(|d| *d >= 8 + SWEEP).map(|d| d - 8 - SWEEP);
        // branch stage
        let bsc = match (dup, tail) {
            (Some(d), _) => gen_branch_dup(&mut r, &mut next_node, &mut pn, out, 56 + d),
            (_, Some(t)) => {
                let (c, aoff, plen) = tail_params(t / 4);
                gen_branch_tail(&mut r, &mut next_node, &mut pn, out, t % 4 + 1, c, aoff, plen)
            }
            _ => gen_branch(&mut r, &mut next_node, &mut pn, out, directed),
        };
        if let Some(sc) = bsc {
            out.mark_case(format!("case {case} branch: {}", sc.desc));
            let mut reference: Option<Vec<(Key, u32)>> = None;
            for &w in &wcs {
                if let Some(res) = run_branch(&mut ctx, &sc, w, case, out) {
                    match &reference {
                        None => reference = Some(res.content),
                        Some(c) => {
                            if *c != res.content {
                                out.fail(format!("C13 branch stage: the level of the {w}-worker run differs in content from the 1-worker run (case {case}: {})", sc.desc));
                            }
                        }
                    }
                }
            }
        }
        // leaf stage
        let sc = match tail {
            _ if dup == Some(0) => gen_leaf_dup(&mut r, &mut next_leaf, &mut pn, out),
            _ if dup.is_some() => continue,
            Some(t) if t < 4 => gen_leaf_tail(&mut r, &mut next_leaf, &mut pn, out, t % 4 + 1),
            Some(_) => continue,
            None => gen_leaf(&mut r, &mut next_leaf, &mut pn, out, directed),
        };
        out.mark_case(format!("case {case} leaf: {}", sc.desc));
        let mut reference: Option<Vec<(Key, Vec<u8>)>> = None;
        for &w in &wcs {
            if let Some(content) = run_leaf(&mut ctx, &sc, w, case, out) {
                match &reference {
                    None => reference = Some(content),
                    Some(c) => {
                        if *c != content {
                            out.fail(format!("C13 leaf stage: the level of the {w}-worker run differs in content from the 1-worker run (case {case}: {})", sc.desc));
                        }
                    }
                }
            }
        }
    }
    drop(ctx);
    let _ = std::fs::remove_file(&path);
    let _ = std::fs::remove_file(path.with_extension("ln"));
}
