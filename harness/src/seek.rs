//! C05 / C11 (secondarily C06): the seek state machine of `nomt/src/merkle/seek.rs` — the REAL `SeekRequest`
//! (`new`, `next_query`, `continue_seek`, `continue_leaf_fetch`, `continue_leaves_fetch` with the real
//! `page_walker::reconstruct_pages`, `range_bounds`) over a real `PageSet` / `PageCache` / `LiveOverlay` and hand-built
//! b-tree leaves, driven step by step through `nomt::verif_api::seek::SeekSim` (hook H18, cfg nomt_verif).  No store, no
//! I/O: this module answers every page request and every leaf request itself, at a time and in an order of its choosing,
//! for several interleaved keys sharing one page set.
//! Every step is one protocol line for the Lean driver's `seek` mode (mirror `Store/Seek*.lean`) and is checked against
//! oracles that do not depend on the model:
//!   * C05 proof oracle: position, siblings (top-down) and terminal of every completed seek = the reference trie's proof
//!     of the session's view (b-tree leaves ⊕ staging ⊕ overlay chain) for that key; `page_id` = the page of the terminal;
//!   * C05 verifier oracle: the `PathProof` made of the result the way `Updater::prove` makes it passes the REAL
//!     `PathProof::verify` against the view's root and confirms exactly membership / absence;
//!   * C05 request oracle: only pages on the key's path are requested, only leaves overlapping the key range of the
//!     position the fetch started at; a request the page tree cannot answer (missing page) never happens;
//!   * C05 reconstruction oracle: every page the seek put into the page set holds the reference node in every slot
//!     reachable through internal nodes;
//!   * C11 view oracle: the overlay chain's `value_iter` over the full range = the BTreeMap fold of the chain;
//!   * no panic and no stall on a well-formed run (a panic is an answer only on the malformed stream).
use crate::util::*;
use nomt::verif_api::page_addr::PageSim;
use nomt::verif_api::seek::{Awaiting, LeafSpec, SeekSim, Source, StateView, Step, Val};
use nomt::verif_api::{LiveSim, Overlay};
use nomt_core::hasher::{Blake3Hasher, NodeHasher, ValueHasher};
use nomt_core::page_id::{ChildPageIndex, PageId, ROOT_PAGE_ID};
use nomt_core::proof::{PathProof, PathProofTerminal};
use nomt_core::trie::{LeafData, Node, NodeKind, TERMINATOR};
use nomt_core::trie_pos::TriePosition;
use std::collections::{BTreeMap, BTreeSet};
use std::panic::{catch_unwind, AssertUnwindSafe};

const THRESHOLD: usize = 20;

fn path_str(p: &[u8]) -> String {
    if p.is_empty() {
        "-".into()
    } else {
        p.iter().map(|x| x.to_string()).collect::<Vec<_>>().join(".")
    }
}
fn pid_str(p: &PageId) -> String {
    path_str(p.length_dependent_encoding())
}
fn mk_pid(path: &[u8]) -> PageId {
    let mut p = ROOT_PAGE_ID;
    for &c in path {
        p = p.child_page_id(ChildPageIndex::new(c).unwrap()).unwrap();
    }
    p
}
fn has_prefix(k: &Key, bits: &[bool]) -> bool {
    bits.iter().enumerate().all(|(i, &b)| bit(k, i) == b)
}
fn sextet_bits(c: u8) -> [bool; 6] {
    let mut r = [false; 6];
    for i in 0..6 {
        r[i] = (c >> (5 - i)) & 1 == 1;
    }
    r
}
fn path_bits(p: &[u8]) -> Vec<bool> {
    p.iter().flat_map(|&c| sextet_bits(c)).collect()
}
fn in_page_index(l: &[bool]) -> usize {
    let mut v = 0usize;
    for &b in l {
        v = v * 2 + b as usize;
    }
    (1usize << l.len()) - 2 + v
}
fn kind(n: &Node) -> NodeKind {
    NodeKind::of::<Blake3Hasher>(n)
}

/// A stored value as the protocol sees it: the value hash and whether it is an overflow value.
#[derive(Clone, Debug, PartialEq, Eq)]
struct PVal {
    vh: [u8; 32],
    ovf: bool,
    real: Val2,
}
#[derive(Clone, Debug, PartialEq, Eq)]
enum Val2 {
    Inline(Vec<u8>),
    Overflow(usize, Vec<u32>),
}
impl PVal {
    fn gen(r: &mut Rng) -> PVal {
        if r.chance(1, 6) {
            let vh = r.bytes32();
            let np = r.range(1, 3);
            PVal { vh, ovf: true, real: Val2::Overflow(1333 + r.below(5000), (0..np).map(|_| 7 + r.below(1000) as u32).collect()) }
        } else {
            let n = r.below(20);
            let v: Vec<u8> = (0..n).map(|_| r.next() as u8).collect();
            PVal { vh: Blake3Hasher::hash_value(&v), ovf: false, real: Val2::Inline(v) }
        }
    }
    fn val(&self) -> Val {
        match &self.real {
            Val2::Inline(v) => Val::Inline(v.clone()),
            Val2::Overflow(size, pages) => Val::Overflow(*size, self.vh, pages.clone()),
        }
    }
    fn show(&self) -> String {
        format!("{}{}", hex(&self.vh), if self.ovf { "!" } else { "" })
    }
}
type Chg = Option<PVal>;

fn show_chgs(ws: &[(Key, Chg)]) -> String {
    if ws.is_empty() {
        return "-".into();
    }
    ws.iter()
        .map(|(k, c)| match c {
            Some(v) => format!("{}:{}", hex(k), v.show()),
            None => format!("{}:-", hex(k)),
        })
        .collect::<Vec<_>>()
        .join(",")
}
fn show_entries(es: &[(Key, PVal)]) -> String {
    if es.is_empty() {
        return "-".into();
    }
    es.iter().map(|(k, v)| format!("{}:{}", hex(k), v.show())).collect::<Vec<_>>().join(",")
}

fn apply(m: &mut BTreeMap<Key, PVal>, ws: &[(Key, Chg)]) {
    for (k, c) in ws {
        match c {
            Some(v) => {
                m.insert(*k, v.clone());
            }
            None => {
                m.remove(k);
            }
        }
    }
}

/// `a < s <= b`, the shortest such key (what `bit_ops::separate` computes)
fn separate(a: &Key, b: &Key) -> Key {
    let d = shared_bits(a, b);
    let mut s = [0u8; 32];
    for i in 0..=d.min(255) {
        set_bit(&mut s, i, bit(b, i));
    }
    s
}

// ------------------------------------------------------------------------------------------------------------------
// the page tree of a key set (harness reference, independent of the model)

#[derive(Clone)]
struct PageImg {
    path: Vec<u8>,
    nodes: Vec<(usize, Node)>,
    elided: u64,
}
impl PageImg {
    fn bytes(&self) -> Vec<u8> {
        let mut p = PageSim::pristine_empty(&mk_pid(&self.path));
        for (i, n) in &self.nodes {
            p.set_node(*i, *n);
        }
        p.set_elided_children(self.elided);
        p.bytes()
    }
    fn show(&self) -> String {
        let ns = if self.nodes.is_empty() {
            "-".to_string()
        } else {
            self.nodes.iter().map(|(i, n)| format!("{}:{}", i, hex(n))).collect::<Vec<_>>().join(",")
        };
        format!("{} {:x} {}", path_str(&self.path), self.elided, ns)
    }
}

/// What to do with the child pages that the canonical rule would elide / store.
#[derive(Clone, Copy, PartialEq, Eq, Debug)]
enum Elide {
    /// stored iff depth < 2 or at least 20 leaves (what the store produces)
    Canonical,
    /// additionally some small pages are stored (still a representation)
    Loose,
}

struct PageTree {
    stored: BTreeMap<Vec<u8>, PageImg>,
    /// child pages that exist (parent node internal) but are elided, with the number of leaves below
    elided: BTreeMap<Vec<u8>, usize>,
}

fn build_page(path: &[u8], kvs: &[(Key, [u8; 32])]) -> (Vec<(usize, Node)>, Vec<(u8, usize)>) {
    // kvs: the keys below the page's parent node (at least 2). Returns the nodes reachable through internal nodes and
    // the child pages that exist with their number of leaves.
    let d0 = 6 * path.len();
    let mut nodes = Vec::new();
    let mut children = Vec::new();
    fn rec(kvs: &[(Key, [u8; 32])], d0: usize, l: &mut Vec<bool>, nodes: &mut Vec<(usize, Node)>, children: &mut Vec<(u8, usize)>) {
        // kvs: keys below the in-page path l (|l| < 6), at least 2
        let d = d0 + l.len();
        let mid = kvs.partition_point(|(k, _)| !bit(k, d));
        for (b, part) in [(false, &kvs[..mid]), (true, &kvs[mid..])] {
            l.push(b);
            nodes.push((in_page_index(l), ref_node(part, d + 1)));
            if part.len() >= 2 {
                if l.len() == 6 {
                    let c = l.iter().fold(0u8, |a, &x| a * 2 + x as u8);
                    children.push((c, part.len()));
                } else {
                    rec(part, d0, l, nodes, children);
                }
            }
            l.pop();
        }
    }
    rec(kvs, d0, &mut Vec::new(), &mut nodes, &mut children);
    (nodes, children)
}

fn build_tree(r: &mut Rng, kvs: &[(Key, [u8; 32])], mode: Elide) -> PageTree {
    let mut t = PageTree { stored: BTreeMap::new(), elided: BTreeMap::new() };
    fn rec(r: &mut Rng, t: &mut PageTree, path: Vec<u8>, kvs: &[(Key, [u8; 32])], mode: Elide) {
        let (nodes, children) = build_page(&path, kvs);
        let d = 6 * path.len();
        let mut elided = 0u64;
        for (c, n) in children {
            let mut cp = path.clone();
            cp.push(c);
            let pre = path_bits(&cp);
            let lo = kvs.partition_point(|(k, _)| !has_prefix(k, &pre) && k_lt_prefix(k, &pre));
            let sub: Vec<(Key, [u8; 32])> = kvs[lo..].iter().take_while(|(k, _)| has_prefix(k, &pre)).cloned().collect();
            assert_eq!(sub.len(), n);
            let _ = d;
            let canonical = cp.len() < 2 || n >= THRESHOLD;
            let store = if cp.len() < 2 || path.is_empty() {
                true
            } else {
                match mode {
                    Elide::Canonical => canonical,
                    // a page the canonical rule would elide may be stored (never the other way round: reconstructing a
                    // subtree with an inner page of >= 20 leaves is outside the contract of `reconstruct_pages`)
                    Elide::Loose => canonical || r.chance(1, 4),
                }
            };
            if store && cp.len() < 42 {
                rec(r, t, cp, &sub, mode);
            } else {
                elided |= 1u64 << c;
                t.elided.insert(cp, n);
            }
        }
        t.stored.insert(path.clone(), PageImg { path, nodes, elided });
    }
    if kvs.len() >= 2 {
        rec(r, &mut t, vec![], kvs, mode);
    } else {
        t.stored.insert(vec![], PageImg { path: vec![], nodes: vec![], elided: 0 });
    }
    t
}
fn k_lt_prefix(k: &Key, pre: &[bool]) -> bool {
    for (i, &b) in pre.iter().enumerate() {
        if bit(k, i) != b {
            return !bit(k, i) && b;
        }
    }
    false
}

// ------------------------------------------------------------------------------------------------------------------
// case generation

struct Case {
    /// leaves ⊕ secondary ⊕ primary
    leaves: Vec<Vec<(Key, Vec<(Key, PVal)>)>>,
    primary: Vec<(Key, Chg)>,
    secondary: Option<Vec<(Key, Chg)>>,
    /// overlay chain, oldest first
    chain: Vec<Vec<(Key, Chg)>>,
    base: BTreeMap<Key, PVal>,
    ov_fold: BTreeMap<Key, Chg>,
    view: Vec<(Key, [u8; 32])>,
    queries: Vec<Key>,
    desc: String,
    /// the first separator is not the zero key: not a tree the store builds (the iterator misses the keys below it)
    bad_first_sep: bool,
}

/// Key sets aimed at the page structure: clusters of 18…22 keys under prefixes of 12 / 18 / 24 bits (elision threshold),
/// deep clusters (an elided page below an elided page), terminals at 6k-1 / 6k / 6k+1, deep forks beyond 64 bits.
fn gen_view_keys(r: &mut Rng) -> (Vec<Key>, String) {
    let mut keys: Vec<Key> = Vec::new();
    let mut desc = String::new();
    let flavour = r.below(8);
    match flavour {
        0 => {
            // tiny: 0..3 keys
            for _ in 0..r.below(4) {
                keys.push(r.bytes32());
            }
            desc.push_str("tiny");
        }
        1 => {
            keys = gen_keyset(r, 40);
            desc.push_str("keyset");
        }
        _ => {
            // clusters around the threshold
            let nclusters = r.range(1, 3);
            for _ in 0..nclusters {
                let base = r.bytes32();
                let plen = *r.pick(&[12usize, 12, 13, 17, 18, 18, 19, 24, 30, 66, 120]);
                let n = *r.pick(&[2usize, 3, 5, 18, 19, 19, 20, 20, 21, 22, 25, 41]);
                let mut cl: BTreeSet<Key> = BTreeSet::new();
                // some keys deep inside (below a second page boundary), the rest spread
                while cl.len() < n {
                    let k = match r.below(4) {
                        0 if !cl.is_empty() => {
                            let b = *r.pick(&cl.iter().cloned().collect::<Vec<_>>());
                            let d = (plen + r.range(1, 20)).min(255);
                            diverge_at(r, &b, d)
                        }
                        1 if !cl.is_empty() => {
                            let b = *r.pick(&cl.iter().cloned().collect::<Vec<_>>());
                            let j = (plen / 6 + r.range(1, 3)) * 6;
                            let d = (j + r.below(3)).saturating_sub(1).min(255);
                            diverge_at(r, &b, d.max(plen))
                        }
                        _ => with_prefix(r, &base, plen),
                    };
                    cl.insert(k);
                }
                desc.push_str(&format!("cluster({plen},{n}) "));
                keys.extend(cl);
            }
            for _ in 0..r.below(6) {
                keys.push(r.bytes32());
            }
            if r.chance(1, 3) && !keys.is_empty() {
                // deep forks
                let b = *r.pick(&keys);
                let mut d = r.range(60, 100);
                for _ in 0..r.range(1, 3) {
                    if d > 254 {
                        break;
                    }
                    keys.push(diverge_at(r, &b, d));
                    d += r.range(30, 80);
                }
                desc.push_str("deepfork ");
            }
        }
    }
    keys.sort();
    keys.dedup();
    (keys, desc)
}

fn near_key(r: &mut Rng, keys: &[Key]) -> Key {
    if keys.is_empty() {
        return r.bytes32();
    }
    let b = *r.pick(keys);
    let d = match r.below(4) {
        0 => interesting_depth(r),
        1 => r.range(10, 40),
        2 => {
            let k = r.range(1, 8);
            (6 * k + r.below(3)).saturating_sub(1)
        }
        _ => r.range(200, 255),
    };
    diverge_at(r, &b, d.min(255))
}

fn gen_case(r: &mut Rng) -> Case {
    let (vkeys, mut desc) = gen_view_keys(r);
    let with_overlay = r.chance(2, 3);
    let nov = if with_overlay { r.range(1, 3) } else { 0 };
    let with_staging = r.chance(1, 3);
    // provenance of every view key
    let mut leaf_kv: BTreeMap<Key, PVal> = BTreeMap::new();
    let mut primary: BTreeMap<Key, Chg> = BTreeMap::new();
    let mut secondary: BTreeMap<Key, Chg> = BTreeMap::new();
    let mut chain: Vec<BTreeMap<Key, Chg>> = (0..nov).map(|_| BTreeMap::new()).collect();
    for k in &vkeys {
        let v = PVal::gen(r);
        let choice = r.below(10);
        if nov > 0 && choice < 3 {
            // inserted (or overwritten) by an overlay
            let o = r.below(nov);
            chain[o].insert(*k, Some(v.clone()));
            match r.below(4) {
                0 => {
                    leaf_kv.insert(*k, PVal::gen(r)); // overwritten on disk
                }
                1 if o > 0 => {
                    chain[r.below(o)].insert(*k, if r.chance(1, 2) { None } else { Some(PVal::gen(r)) });
                }
                _ => {} // naked insert
            }
        } else if with_staging && choice < 5 {
            if r.chance(1, 2) {
                primary.insert(*k, Some(v.clone()));
                if r.chance(1, 3) {
                    secondary.insert(*k, if r.chance(1, 2) { None } else { Some(PVal::gen(r)) });
                }
            } else {
                secondary.insert(*k, Some(v.clone()));
            }
            if r.chance(1, 3) {
                leaf_kv.insert(*k, PVal::gen(r));
            }
        } else {
            leaf_kv.insert(*k, v);
        }
    }
    // keys that are not in the view
    let nextra = if vkeys.is_empty() { r.below(3) } else { r.below(vkeys.len() / 2 + 3) };
    let vset: BTreeSet<Key> = vkeys.iter().cloned().collect();
    for _ in 0..nextra {
        let k = near_key(r, &vkeys);
        if vset.contains(&k) {
            continue;
        }
        match r.below(6) {
            0 | 1 if nov > 0 => {
                // on disk, deleted by an overlay
                leaf_kv.insert(k, PVal::gen(r));
                chain[r.below(nov)].insert(k, None);
            }
            2 if nov > 0 => {
                // naked deletion
                chain[r.below(nov)].insert(k, None);
            }
            3 if nov > 1 => {
                // inserted by an older overlay, deleted by a younger one
                let o = r.range(1, nov - 1);
                chain[o].insert(k, None);
                chain[r.below(o)].insert(k, Some(PVal::gen(r)));
            }
            4 if with_staging => {
                leaf_kv.insert(k, PVal::gen(r));
                if r.chance(1, 2) {
                    primary.insert(k, None);
                } else {
                    secondary.insert(k, None);
                }
            }
            5 if with_staging => {
                // naked staging deletion
                primary.insert(k, None);
            }
            _ => {}
        }
    }
    // empty a whole cluster through the overlay now and then
    if nov > 0 && r.chance(1, 8) && vkeys.len() > 4 {
        desc.push_str("emptied ");
    }
    // leaves
    let entries: Vec<(Key, PVal)> = leaf_kv.into_iter().collect();
    let mut leaves: Vec<Vec<(Key, Vec<(Key, PVal)>)>> = Vec::new();
    if !entries.is_empty() {
        let mut flat: Vec<(Key, Vec<(Key, PVal)>)> = Vec::new();
        let mut i = 0;
        let mut prev_last: Option<Key> = None;
        while i < entries.len() {
            let n = *r.pick(&[1usize, 1, 2, 3, 5, 8, 13, 21, 30]);
            let j = (i + n).min(entries.len());
            let first = entries[i].0;
            let sep = match prev_last {
                None => {
                    if r.chance(1, 12) {
                        first
                    } else {
                        [0u8; 32]
                    }
                }
                Some(p) => match r.below(3) {
                    0 => first,
                    _ => separate(&p, &first),
                },
            };
            flat.push((sep, entries[i..j].to_vec()));
            prev_last = Some(entries[j - 1].0);
            i = j;
        }
        // branch nodes
        let mut cur: Vec<(Key, Vec<(Key, PVal)>)> = Vec::new();
        for l in flat {
            cur.push(l);
            if cur.len() >= 12 || r.chance(1, 5) {
                leaves.push(std::mem::take(&mut cur));
            }
        }
        if !cur.is_empty() {
            leaves.push(cur);
        }
    }
    let mut base: BTreeMap<Key, PVal> = BTreeMap::new();
    for b in &leaves {
        for (_, es) in b {
            for (k, v) in es {
                base.insert(*k, v.clone());
            }
        }
    }
    let secv: Vec<(Key, Chg)> = secondary.into_iter().collect();
    let priv_: Vec<(Key, Chg)> = primary.into_iter().collect();
    apply(&mut base, &secv);
    apply(&mut base, &priv_);
    let chainv: Vec<Vec<(Key, Chg)>> = chain.into_iter().map(|m| m.into_iter().collect()).collect();
    let mut ov_fold: BTreeMap<Key, Chg> = BTreeMap::new();
    for o in &chainv {
        for (k, c) in o {
            ov_fold.insert(*k, c.clone());
        }
    }
    let mut viewm = base.clone();
    apply(&mut viewm, &ov_fold.iter().map(|(k, c)| (*k, c.clone())).collect::<Vec<_>>());
    let view: Vec<(Key, [u8; 32])> = viewm.iter().map(|(k, v)| (*k, v.vh)).collect();
    // queries
    let mut queries = Vec::new();
    let all_keys: Vec<Key> = view.iter().map(|x| x.0).chain(base.keys().cloned()).chain(ov_fold.keys().cloned()).collect();
    let nq = r.range(1, 6);
    for _ in 0..nq {
        let q = match r.below(6) {
            0 | 1 if !view.is_empty() => r.pick(&view).0,
            2 if !all_keys.is_empty() => *r.pick(&all_keys),
            3 => r.bytes32(),
            _ => near_key(r, &all_keys),
        };
        queries.push(q);
    }
    if r.chance(1, 4) && !queries.is_empty() {
        let q = *r.pick(&queries);
        queries.push(q); // the same key twice
    }
    desc.push_str(&format!("view={} base={} ov={} staging={}", view.len(), base.len(), nov, with_staging as u8));
    let bad_first_sep = leaves.first().and_then(|b| b.first()).map_or(false, |l| l.0 != [0u8; 32]);
    if bad_first_sep {
        desc.push_str(" badsep");
    }
    Case {
        bad_first_sep,
        leaves,
        primary: priv_,
        secondary: if with_staging || r.chance(1, 2) { Some(secv) } else { None },
        chain: chainv,
        base,
        ov_fold,
        view,
        queries,
        desc,
    }
}

// ------------------------------------------------------------------------------------------------------------------
// running one case

fn state_line(sim: &SeekSim, i: usize) -> String {
    let v = sim.view(i);
    let st = match &v.state {
        StateView::Seeking => "seeking".to_string(),
        StateView::FetchingLeaf(n) => format!("leaf:{n}"),
        StateView::FetchingLeaves(n) => format!("leaves:{n}"),
        StateView::Completed(None) => "done:T".to_string(),
        StateView::Completed(Some((k, vh))) => format!("done:L:{}:{}", hex(k), hex(vh)),
    };
    let aw = match &v.awaiting {
        None => "-".to_string(),
        Some(Awaiting::Page(p)) => format!("P:{}", pid_str(p)),
        Some(Awaiting::Leaf(l)) => format!("L:{l}"),
    };
    format!(
        "{st} d={} ni={} raw={} pid={} ns={} last={} ios={} aw={aw}",
        v.depth,
        v.node_index.map(|x| x.to_string()).unwrap_or("-".into()),
        hex(&v.raw_path),
        v.page_id.as_ref().map(pid_str).unwrap_or("none".into()),
        v.siblings.len(),
        v.siblings.last().map(|n| hex(n)).unwrap_or("-".into()),
        v.ios
    )
}

fn set_line(sim: &SeekSim) -> String {
    let ids = sim.page_set_ids();
    if ids.is_empty() {
        "-".into()
    } else {
        ids.iter().map(|(p, rec)| format!("{}:{}", pid_str(p), if *rec { "R" } else { "P" })).collect::<Vec<_>>().join(",")
    }
}

fn guard<T>(f: impl FnOnce() -> T) -> Option<T> {
    catch_unwind(AssertUnwindSafe(f)).ok()
}

/// the reachable slots of a page (through internal nodes), from the real bytes
fn reachable_slots(bytes: &[u8]) -> Vec<(usize, Node, Vec<bool>)> {
    let node = |i: usize| -> Node {
        let mut n = [0u8; 32];
        n.copy_from_slice(&bytes[32 * i..32 * i + 32]);
        n
    };
    let mut out = Vec::new();
    fn rec(node: &dyn Fn(usize) -> Node, l: &mut Vec<bool>, out: &mut Vec<(usize, Node, Vec<bool>)>) {
        for b in [false, true] {
            l.push(b);
            let i = in_page_index(l);
            let n = node(i);
            out.push((i, n, l.clone()));
            if l.len() < 6 && kind(&n) == NodeKind::Internal {
                rec(node, l, out);
            }
            l.pop();
        }
    }
    rec(&node, &mut Vec::new(), &mut out);
    out
}

struct Pending {
    page: Option<PageId>,
    leaf: Option<usize>,
}

pub fn run(seed: u64, cases: usize, out: &mut Sink) {
    let mut rng = Rng::new(seed ^ 0x5EE4);
    for case in 0..cases {
        let mut r = rng.fork();
        let c = gen_case(&mut r);
        out.mark_case(format!("seek case {case}: {}", c.desc));
        out.count("cases");
        run_case(&mut r, &c, out);
    }
}

fn run_case(r: &mut Rng, c: &Case, out: &mut Sink) {
    let root = ref_root(&c.view);
    let mode = if r.chance(1, 4) { Elide::Loose } else { Elide::Canonical };
    let tree = build_tree(r, &c.view, mode);
    // ---- the overlay chain (real `LiveOverlay::new` / `finish`)
    let mut handles: Vec<Overlay> = Vec::new();
    // pages carried by overlays: a random subset of the stored pages goes to the youngest overlay that has changes; stale
    // images (an emptied page, a random page) sit at elided page ids in older overlays and in the cache
    let stored_ids: Vec<Vec<u8>> = tree.stored.keys().cloned().collect();
    let elided_ids: Vec<Vec<u8>> = tree.elided.keys().cloned().collect();
    let mut ovl_pages: Vec<(Vec<u8>, PageImg)> = Vec::new();
    let mut cache_pages: Vec<(Vec<u8>, PageImg)> = Vec::new();
    let warm = r.below(4); // 0 cold, 1 some, 2 most, 3 all in cache
    for id in &stored_ids {
        let img = tree.stored[id].clone();
        if !c.chain.is_empty() && r.chance(1, 3) {
            ovl_pages.push((id.clone(), img.clone()));
        }
        let p = match warm {
            0 => 0,
            1 => 1,
            2 => 3,
            _ => 4,
        };
        if r.chance(p, 4) {
            cache_pages.push((id.clone(), img));
        }
    }
    let stale = |r: &mut Rng, id: &Vec<u8>| -> PageImg {
        match r.below(3) {
            0 => PageImg { path: id.clone(), nodes: vec![], elided: 0 }, // emptied
            1 => PageImg { path: id.clone(), nodes: vec![(0, r.bytes32()), (1, TERMINATOR)], elided: r.next() },
            _ => {
                let mut l = r.bytes32();
                l[0] &= 0x7f; // a leaf-kind node
                PageImg { path: id.clone(), nodes: vec![(0, l), (1, l)], elided: 0 }
            }
        }
    };
    let mut stale_ovl: Vec<(Vec<u8>, PageImg)> = Vec::new();
    for id in &elided_ids {
        if !c.chain.is_empty() && r.chance(1, 3) {
            stale_ovl.push((id.clone(), stale(r, id)));
            out.count("stale_overlay_page");
        }
        if r.chance(1, 5) {
            cache_pages.push((id.clone(), stale(r, id)));
            out.count("stale_cache_page");
        }
    }
    let nov = c.chain.len();
    for (o, changes) in c.chain.iter().enumerate() {
        let refs: Vec<&Overlay> = handles.iter().rev().collect();
        let live = match LiveSim::new(refs.iter().cloned()) {
            Ok(l) => l,
            Err(e) => {
                out.fail(format!("C11 LiveOverlay::new refused a plain chain: {e:?}"));
                return;
            }
        };
        let mut pages: Vec<(PageId, Vec<u8>)> = Vec::new();
        if o + 1 == nov {
            for (id, img) in &ovl_pages {
                pages.push((mk_pid(id), img.bytes()));
            }
        }
        for (id, img) in &stale_ovl {
            // stale images live in any overlay; a live image of the same id never exists (the id is elided)
            if (id.len() + o) % nov == 0 {
                pages.push((mk_pid(id), img.bytes()));
            }
        }
        let values: Vec<(Key, Option<Val>)> = changes.iter().map(|(k, ch)| (*k, ch.as_ref().map(|v| v.val()))).collect();
        let mut prev = [0u8; 32];
        prev[0] = o as u8;
        let mut next = [0u8; 32];
        next[0] = o as u8 + 1;
        handles.push(live.finish_full(prev, next, pages, values));
    }
    let refs: Vec<&Overlay> = handles.iter().rev().collect();
    let live = match LiveSim::new(refs.iter().cloned()) {
        Ok(l) => l,
        Err(e) => {
            out.fail(format!("C11 LiveOverlay::new refused a plain chain: {e:?}"));
            return;
        }
    };
    // C11 view oracle
    let it = live.value_iter([0u8; 32], None);
    let want: Vec<(Key, bool)> = c.ov_fold.iter().map(|(k, ch)| (*k, ch.is_some())).collect();
    let got: Vec<(Key, bool)> = it.iter().map(|(k, ch)| (*k, ch.is_some())).collect();
    if want != got {
        out.fail(format!("C11 value_iter over the full range differs from the fold of the chain: {} vs {} items", got.len(), want.len()));
    }
    // ---- protocol: the environment
    let leaves_txt = {
        let mut parts = Vec::new();
        for b in &c.leaves {
            let ls: Vec<String> = b.iter().map(|(sep, es)| format!("{}={}", hex(sep), show_entries(es))).collect();
            parts.push(ls.join(";"));
        }
        if parts.is_empty() {
            "-".to_string()
        } else {
            parts.join(";")
        }
    };
    let record = !r.chance(1, 10);
    out.line(
        format!(
            "skenv {} {} {} {} {} {}",
            hex(&root),
            record as u8,
            show_chgs(&c.primary),
            c.secondary.as_ref().map(|s| show_chgs(s)).unwrap_or("none".into()),
            leaves_txt,
            show_chgs(&c.ov_fold.iter().map(|(k, ch)| (*k, ch.clone())).collect::<Vec<_>>())
        ),
        "ok".into(),
    );
    for (_, img) in &ovl_pages {
        out.line(format!("skpage ovl {}", img.show()), "ok".into());
    }
    for (_, img) in &stale_ovl {
        out.line(format!("skpage ovl {}", img.show()), "ok".into());
    }
    for (_, img) in &cache_pages {
        out.line(format!("skpage cache {}", img.show()), "ok".into());
    }
    for (_, img) in &tree.stored {
        out.line(format!("skpage disk {}", img.show()), "ok".into());
    }
    let branches: Vec<Vec<LeafSpec>> =
        c.leaves.iter().map(|b| b.iter().map(|(sep, es)| (*sep, es.iter().map(|(k, v)| (*k, v.val())).collect())).collect()).collect();
    let flat_leaves: Vec<&(Key, Vec<(Key, PVal)>)> = c.leaves.iter().flatten().collect();
    let to_stage = |s: &Vec<(Key, Chg)>| -> Vec<(Key, Option<Val>)> { s.iter().map(|(k, ch)| (*k, ch.as_ref().map(|v| v.val()))).collect() };
    let mut sim = match live.seek_sim(root, to_stage(&c.primary), c.secondary.as_ref().map(to_stage), branches, record) {
        Ok(s) => s,
        Err(e) => {
            out.fail(format!("harness: SeekSim::new failed: {e}"));
            return;
        }
    };
    for (id, img) in &cache_pages {
        sim.cache_insert(mk_pid(id), &img.bytes());
    }
    let malformed = r.chance(1, 12) || c.bad_first_sep;
    if malformed {
        out.count("malformed_cases");
    }
    // ---- the requests, interleaved
    let mut pend: Vec<Pending> = Vec::new();
    let mut asked_pages: Vec<Vec<Vec<u8>>> = Vec::new();
    let mut asked_leaves: Vec<Vec<(usize, usize)>> = Vec::new();
    let mut taken: Vec<bool> = Vec::new();
    let mut to_push: Vec<Key> = c.queries.clone();
    to_push.reverse();
    let mut steps = 0usize;
    let budget = 4000;
    loop {
        steps += 1;
        if steps > budget {
            out.fail(format!("C05 seek does not finish within {budget} steps ({})", c.desc));
            return;
        }
        let n = sim.len();
        let undone: Vec<usize> = (0..n).filter(|&i| !taken[i]).collect();
        if undone.is_empty() && to_push.is_empty() {
            break;
        }
        // a new page set between two seekers (warm-up → update: the old one frozen and shared; or a new session)
        if undone.is_empty() && r.chance(1, 3) {
            let freeze = r.chance(2, 3);
            sim.restart_page_set(freeze);
            out.line(format!("sknewset {}", freeze as u8), "ok".into());
            out.count(if freeze { "page_set_frozen" } else { "page_set_dropped" });
            continue;
        }
        // push a new key?
        if !to_push.is_empty() && (undone.is_empty() || r.chance(1, 3)) {
            let k = to_push.pop().unwrap();
            let res = guard(|| sim.push(k));
            match res {
                Some(i) => {
                    out.line(format!("skpush {}", hex(&k)), format!("#{i} {}", state_line(&sim, i)));
                    pend.push(Pending { page: None, leaf: None });
                    asked_pages.push(vec![]);
                    asked_leaves.push(vec![]);
                    taken.push(false);
                }
                None => {
                    out.line(format!("skpush {}", hex(&k)), "panic".into());
                    if malformed {
                        return;
                    }
                    out.fail(format!("C05 SeekRequest::new PANICS for key {} ({})", hex(&k), c.desc));
                    return;
                }
            }
            continue;
        }
        let i = *r.pick(&undone);
        // malformed stream: an answer nobody asked for
        if malformed && r.chance(1, 6) {
            let kindm = r.below(4);
            let (op, res): (String, Option<String>) = match kindm {
                0 => {
                    let ids: Vec<&Vec<u8>> = tree.stored.keys().collect();
                    let id = (*r.pick(&ids)).clone();
                    let img = tree.stored[&id].clone();
                    let pid = mk_pid(&id);
                    (format!("skforcepage {i} {}", img.show()), guard(|| sim.force_page(i, pid, &img.bytes())).map(|_| state_line(&sim, i)))
                }
                1 if !flat_leaves.is_empty() => {
                    let l = r.below(flat_leaves.len());
                    (format!("skforceleaf {i} {l}"), guard(|| sim.force_leaf(i, l)).map(|_| state_line(&sim, i)))
                }
                2 if pend[i].page.is_none() => (format!("skpagein {i}"), guard(|| sim.supply_page(i, &tree.stored[&vec![]].bytes())).map(|x| if x.is_ok() { state_line(&sim, i) } else { "err".into() })),
                3 if pend[i].leaf.is_none() => (format!("skleafin {i}"), guard(|| sim.supply_leaf(i)).map(|x| if x.is_ok() { state_line(&sim, i) } else { "err".into() })),
                _ => continue,
            };
            out.count("malformed_ops");
            match res {
                Some(s) if s == "err" => {
                    out.line(op, s);
                    continue;
                }
                Some(s) => {
                    // the request was tampered with: its result is no longer the subject of the proof oracle
                    out.line(op, s);
                    taken[i] = true;
                    continue;
                }
                None => {
                    out.line(op, "panic".into());
                    out.nontrivial(&format!("panic-malformed-{kindm}"));
                    return; // state after a panic is unspecified: next case
                }
            }
        }
        // deliver something this request waits for?
        if let Some(pid) = pend[i].page.clone() {
            if r.chance(1, 2) {
                continue; // let it wait
            }
            let id = pid.length_dependent_encoding().to_vec();
            match tree.stored.get(&id) {
                None => {
                    out.fail(format!("C05 seek requested page {} which the page tree does not hold ({})", pid_str(&pid), c.desc));
                    out.line(format!("skpagein {i}"), "missing".into());
                    return;
                }
                Some(img) => {
                    let res = guard(|| sim.supply_page(i, &img.bytes()));
                    pend[i].page = None;
                    match res {
                        Some(_) => out.line(format!("skpagein {i}"), state_line(&sim, i)),
                        None => {
                            out.line(format!("skpagein {i}"), "panic".into());
                            if malformed {
                                return;
                            }
                            out.fail(format!("C05 continue_seek PANICS on page {} ({})", pid_str(&pid), c.desc));
                            return;
                        }
                    }
                }
            }
            continue;
        }
        if pend[i].leaf.is_some() {
            if r.chance(1, 3) {
                continue;
            }
            let res = guard(|| sim.supply_leaf(i));
            pend[i].leaf = None;
            match res {
                Some(_) => out.line(format!("skleafin {i}"), state_line(&sim, i)),
                None => {
                    out.line(format!("skleafin {i}"), "panic".into());
                    if malformed {
                        return;
                    }
                    out.fail(format!("C05 leaf fetch PANICS ({})", c.desc));
                    return;
                }
            }
            continue;
        }
        // one step
        let res = guard(|| sim.step(i));
        let Some(st) = res else {
            out.line(format!("skstep {i}"), "panic".into());
            if malformed {
                return;
            }
            out.fail(format!("C05 seek step PANICS for key {} ({})", hex(&c.queries.get(i).cloned().unwrap_or([0; 32])), c.desc));
            return;
        };
        let what = match &st {
            Step::Busy => "busy".to_string(),
            Step::NoQuery => "none".to_string(),
            Step::Continued(p, s) => format!(
                "cont {} {}",
                pid_str(p),
                match s {
                    Source::PageSet => "set",
                    Source::Overlay => "ovl",
                    Source::Cache => "cache",
                }
            ),
            Step::NeedPage(p) => format!("needpage {}", pid_str(p)),
            Step::NeedLeaf(l) => format!("needleaf {l}"),
        };
        out.line(format!("skstep {i}"), format!("{what} | {}", state_line(&sim, i)));
        match st {
            Step::Continued(p, src) => {
                asked_pages[i].push(p.length_dependent_encoding().to_vec());
                out.count(match src {
                    Source::PageSet => "page_from_set",
                    Source::Overlay => "page_from_overlay",
                    Source::Cache => "page_from_cache",
                });
            }
            Step::NeedPage(p) => {
                asked_pages[i].push(p.length_dependent_encoding().to_vec());
                pend[i].page = Some(p);
                out.count("page_from_disk");
            }
            Step::NeedLeaf(l) => {
                asked_leaves[i].push((l, sim.view(i).depth));
                pend[i].leaf = Some(l);
                out.count("leaf_requests");
            }
            Step::NoQuery => {
                // completed (or stuck)
                let v = sim.view(i);
                match v.state {
                    StateView::Completed(term) => {
                        let sibs = nodes_line(&v.siblings);
                        let t = match &term {
                            None => "T".to_string(),
                            Some((k, vh)) => format!("L:{}:{}", hex(k), hex(vh)),
                        };
                        out.line(
                            format!("sktake {i}"),
                            format!("seek d={} raw={} pid={} term={t} sibs={sibs}", v.depth, hex(&v.raw_path), v.page_id.as_ref().map(pid_str).unwrap_or("none".into())),
                        );
                        taken[i] = true;
                        if !c.bad_first_sep {
                        check_result(c, &root, i, record, &v.raw_path, v.depth, &v.page_id, &v.siblings, &term, &asked_pages[i], &asked_leaves[i], &flat_leaves, out);
                        }
                    }
                    _ => {
                        if !malformed {
                            out.fail(format!("C05 seek is stuck: no query and not completed ({})", c.desc));
                        }
                        return;
                    }
                }
            }
            Step::Busy => {}
        }
    }
    // ---- the page set at the end
    out.line("skset".into(), set_line(&sim));
    for (pid, rec) in sim.page_set_ids() {
        let Some(bytes) = sim.page_set_get(&pid) else { continue };
        let id = pid.length_dependent_encoding().to_vec();
        let pre = path_bits(&id);
        let sub: Vec<(Key, [u8; 32])> = c.view.iter().filter(|(k, _)| has_prefix(k, &pre)).cloned().collect();
        if malformed {
            continue;
        }
        if sub.len() < 2 {
            out.fail(format!("C05 page {} is in the page set but the node above it is not internal ({})", pid_str(&pid), c.desc));
            continue;
        }
        let slots = reachable_slots(&bytes);
        let mut shown = Vec::new();
        for (idx, n, l) in &slots {
            let mut bits = pre.clone();
            bits.extend(l);
            let s2: Vec<(Key, [u8; 32])> = sub.iter().filter(|(k, _)| has_prefix(k, &bits)).cloned().collect();
            let want = ref_node(&s2, bits.len());
            if *n != want {
                out.fail(format!(
                    "C05 page {} ({}) of the page set holds {} in slot {idx}, the reference trie has {} ({})",
                    pid_str(&pid),
                    if rec { "reconstructed" } else { "persisted" },
                    hex(n),
                    hex(&want),
                    c.desc
                ));
                break;
            }
            shown.push(format!("{idx}:{}", hex(n)));
        }
        if rec {
            out.count("reconstructed_pages");
            out.line(format!("skpg {}", pid_str(&pid)), if shown.is_empty() { "-".into() } else { shown.join(",") });
        }
    }
    out.nontrivial(&format!("{}|{}|{}", c.desc, c.queries.len(), steps));
}

#[allow(clippy::too_many_arguments)]
fn check_result(
    c: &Case,
    root: &Node,
    i: usize,
    record: bool,
    raw: &Key,
    depth: usize,
    page_id: &Option<PageId>,
    siblings: &[Node],
    term: &Option<(Key, [u8; 32])>,
    asked_pages: &[Vec<u8>],
    asked_leaves: &[(usize, usize)],
    flat_leaves: &[&(Key, Vec<(Key, PVal)>)],
    out: &mut Sink,
) {
    let key = c.queries[i];
    let (rt, rs) = ref_prove(&c.view, &key);
    let want_depth = rs.len();
    out.count("seeks");
    out.nontrivial(&format!("seek|{}|{}|{}|{}|{}", hex(&key), c.view.len(), asked_pages.len(), asked_leaves.len(), record));
    out.add("sibling_depth_total", want_depth as u64);
    if want_depth >= 6 {
        out.count(&format!("boundaries_crossed_{}", (want_depth / 6).min(7)));
    }
    if want_depth % 6 == 0 && want_depth > 0 {
        out.count("terminal_at_page_bottom");
    }
    if want_depth % 6 == 1 {
        out.count("terminal_at_page_top");
    }
    if depth != want_depth || (0..depth).any(|j| bit(raw, j) != bit(&key, j)) {
        out.fail(format!("C05 seek of key {} ends at depth {depth}, the terminal of the view's trie is at depth {want_depth} ({})", hex(&key), c.desc));
    }
    if (depth..256).any(|j| bit(raw, j)) {
        out.fail(format!("C05 seek of key {}: raw path has bits set beyond the depth ({})", hex(&key), c.desc));
    }
    let t_ok = match (&rt, term) {
        (RefTerminal::Leaf(k, v), Some((k2, v2))) => k == k2 && v == v2,
        (RefTerminal::Terminator(_), None) => true,
        _ => false,
    };
    if !t_ok {
        out.fail(format!("C05 seek of key {} returns terminal {:?}, the view's trie has {:?} ({})", hex(&key), term.map(|(k, _)| hex(&k)), rt, c.desc));
    }
    match (&rt, term) {
        (RefTerminal::Leaf(..), _) => out.count("terminal_leaf"),
        _ => out.count("terminal_terminator"),
    }
    if record {
        if siblings != &rs[..] {
            out.fail(format!("C05 seek of key {} returns {} siblings, the reference proof has {} (first difference at {:?}) ({})", hex(&key), siblings.len(), rs.len(), siblings.iter().zip(rs.iter()).position(|(a, b)| a != b), c.desc));
        }
        // the real verifier on the proof `Updater::prove` would build
        let terminal = match term {
            Some((k, v)) => PathProofTerminal::Leaf(LeafData { key_path: *k, value_hash: *v }),
            None => {
                let mut bits = bitvec::prelude::BitVec::<u8, bitvec::prelude::Msb0>::new();
                for j in 0..depth {
                    bits.push(bit(raw, j));
                }
                if depth == 0 {
                    PathProofTerminal::Terminator(TriePosition::new())
                } else {
                    PathProofTerminal::Terminator(TriePosition::from_bitslice(&bits))
                }
            }
        };
        let proof = PathProof { terminal, siblings: siblings.to_vec() };
        let kb = bitvec::prelude::BitSlice::<u8, bitvec::prelude::Msb0>::from_slice(&key);
        match guard(|| proof.verify::<Blake3Hasher>(kb, *root)) {
            None => out.fail(format!("C05 the real verifier PANICS on the proof of key {} ({})", hex(&key), c.desc)),
            Some(Err(e)) => out.fail(format!("C05 proof of key {} does not verify against the view's root: {e:?} ({})", hex(&key), c.desc)),
            Some(Ok(v)) => {
                let present = c.view.binary_search_by(|x| x.0.cmp(&key)).ok().map(|j| c.view[j].1);
                match present {
                    Some(vh) => {
                        let l = LeafData { key_path: key, value_hash: vh };
                        if !matches!(v.confirm_value(&l), Ok(true)) || !matches!(v.confirm_nonexistence(&key), Ok(false)) {
                            out.fail(format!("C05 the verified proof of present key {} does not confirm its value ({})", hex(&key), c.desc));
                        }
                    }
                    None => {
                        if !matches!(v.confirm_nonexistence(&key), Ok(true)) {
                            out.fail(format!("C05 the verified proof of absent key {} does not confirm absence ({})", hex(&key), c.desc));
                        }
                    }
                }
            }
        }
    } else if !siblings.is_empty() {
        out.fail(format!("C05 seek without sibling recording returned {} siblings", siblings.len()));
    }
    // page of the terminal
    let want_pid: Option<Vec<u8>> = if depth == 0 { None } else { Some((0..(depth - 1) / 6).map(|j| (0..6).fold(0u8, |a, b| a * 2 + bit(&key, 6 * j + b) as u8)).collect()) };
    let got_pid = page_id.as_ref().map(|p| p.length_dependent_encoding().to_vec());
    if want_pid != got_pid && !(depth == 0) {
        out.fail(format!("C05 seek of key {}: page_id {:?}, the terminal lives in page {:?} ({})", hex(&key), got_pid, want_pid, c.desc));
    }
    // request oracle
    for p in asked_pages {
        let pre = path_bits(p);
        if !has_prefix(&key, &pre) || pre.len() > depth {
            out.fail(format!("C05 seek of key {} asked for page {} which is not on its path above the terminal ({})", hex(&key), path_str(p), c.desc));
        }
    }
    for &(l, d) in asked_leaves {
        // the leaf's key interval [separator, next separator) must meet the key range of the position the fetch runs at
        let pre: Vec<bool> = (0..d).map(|j| bit(&key, j)).collect();
        let lo = flat_leaves[l].0;
        let hi = flat_leaves.get(l + 1).map(|x| x.0);
        // smallest / largest key with the prefix
        let mut kmin = [0u8; 32];
        let mut kmax = [0xffu8; 32];
        for (j, &b) in pre.iter().enumerate() {
            set_bit(&mut kmin, j, b);
            set_bit(&mut kmax, j, b);
        }
        let meets = lo <= kmax && hi.map_or(true, |h| h > kmin);
        if !meets || d > depth {
            out.fail(format!("C05 seek of key {} asked for leaf {l} (separator {}) outside the key range of its position at depth {d} ({})", hex(&key), hex(&lo), c.desc));
        }
        out.count("leaf_deliveries_checked");
    }
}

#[path = "seeker.rs"]
pub mod seeker;
