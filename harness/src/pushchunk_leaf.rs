//! C16 / C01 (unit Q48): directed geometries of `LeafBuilder::push_chunk` (`nomt/src/beatree/leaf/node.rs`) through hook H13
//! `nomt::verif_api::leaf_updater` — the hook drives the builder only through the real `LeafUpdater` (`digest` → `build_leaf`:
//! one `push_chunk` per `LeafOp::KeepChunk`, one `push_cell` per `LeafOp::Insert`).  Command `pushchunk-leaf`; the protocol lines
//! are those of `leafupd` (driver mode `leafupd`), this file is a child module of `leafupd.rs` (`#[path]`).
//!
//! One base leaf of 1..12 cells (inline values of 0..200 bytes and overflow cells of 40 + 4k bytes with the overflow bit) and a
//! change list made to leave kept runs of a chosen shape: the whole leaf kept as the first and only call (rebase offset 0);
//! an insert in front (the chunk is not the first call, offset > 0); the first cell(s) deleted (first call, offset < 0); a cell
//! deleted / replaced by a shorter / longer / equal value in the middle (second chunk not first, offset < 0 / > 0 / = 0); all
//! cells but one deleted (chunk of one cell); an insert behind.  The classification below (kept runs, sign of the rebase
//! offset `34·(n' − n) + values in front (new) − values in front (base)`, overflow cells inside) is computed from the scenario
//! alone.  A chunk of 0 cells is NOT reachable through the updater (`KeepChunk(from, from)` is never made; the builder would
//! compute `to − 1`).
//!
//! Oracle (independent of the model; `run_scenario`'s, re-tagged `C16 pushchunk-leaf`): the produced leaf read back through the
//! real `LeafNode::{n, key, value}` — key, cell bytes AND overflow bit of every cell — is the base leaf with the changes applied.
use super::*;

fn cell(r: &mut Rng) -> (Vec<u8>, bool) {
    match r.below(6) {
        0 | 1 => {
            let k = r.range(1, 15);
            (value(r, 40 + 4 * k), true)
        }
        2 => {
            let n = *r.pick(&[0usize, 1, 2, 33, 34, 35]);
            (value(r, n), false)
        }
        _ => {
            let n = r.range(1, 200);
            (value(r, n), false)
        }
    }
}

fn scenario(r: &mut Rng, out: &mut Sink) -> Scenario {
    let n = *r.pick(&[1usize, 2, 2, 3, 3, 4, 5, 6, 8, 12]);
    // 2n + 1 ascending keys: the odd ones are the base's, the even ones are free for inserts in front / between / behind
    let all = sorted_keys(r, 2 * n + 1);
    let base: Vec<Entry> = (0..n)
        .map(|i| {
            let (v, o) = cell(r);
            (all[2 * i + 1], v, o)
        })
        .collect();
    let mut changes: Vec<(Key, Option<(Vec<u8>, bool)>)> = Vec::new();
    let shape = *r.pick(&["whole", "insert-front", "delete-first", "delete-middle", "replace-middle", "insert-back", "keep-one", "mixed", "mixed"]);
    let mid = if n >= 3 { r.range(1, n - 2) } else { n / 2 };
    match shape {
        "whole" => changes.push((all[2 * n], None)),
        "insert-front" => changes.push((all[0], Some(cell(r)))),
        "delete-first" => {
            let k = if n >= 3 && r.chance(1, 3) { 2 } else { 1 };
            for i in 0..k.min(n) {
                changes.push((base[i].0, None));
            }
        }
        "delete-middle" => changes.push((base[mid].0, None)),
        "replace-middle" => {
            let old = base[mid].1.len();
            let (v, o) = match r.below(4) {
                0 => (value(r, old), base[mid].2),
                1 => (value(r, old / 2), false),
                2 => {
                    let l = (old + 1 + r.below(150)).min(MAXV);
                    (value(r, l), false)
                }
                _ => cell(r),
            };
            changes.push((base[mid].0, Some((v, o))));
        }
        "insert-back" => changes.push((all[2 * n], Some(cell(r)))),
        "keep-one" => {
            let keep = r.below(n);
            for i in 0..n {
                if i != keep {
                    changes.push((base[i].0, None));
                }
            }
            if changes.is_empty() {
                changes.push((all[2 * n], None));
            }
        }
        _ => {
            for i in 0..=2 * n {
                if r.chance(1, 4) {
                    let ch = if i % 2 == 1 && r.chance(1, 2) { None } else { Some(cell(r)) };
                    changes.push((all[i], ch));
                }
            }
            if changes.is_empty() {
                changes.push((all[0], Some(cell(r))));
            }
        }
    }
    changes.sort_by(|a, b| a.0.cmp(&b.0));
    out.count(&format!("lpc_shape_{shape}"));

    // ---- classification of the kept runs (from the scenario alone)
    let n_new = {
        let mut m: BTreeMap<Key, bool> = base.iter().map(|e| (e.0, true)).collect();
        for (k, ch) in &changes {
            match ch {
                None => {
                    m.remove(k);
                }
                Some(_) => {
                    m.insert(*k, true);
                }
            }
        }
        m.len()
    };
    let mut new_before = 0usize; // value bytes in front, in the new leaf
    let mut new_index = 0usize;
    let mut run: Option<(usize, usize, usize, usize)> = None; // (base from, base to, new index of the run, value bytes in front of it in the new leaf)
    let mut runs: Vec<(usize, usize, usize, usize)> = Vec::new();
    for key in &all {
        let ch = changes.iter().find(|c| c.0 == *key);
        let bi = base.iter().position(|e| e.0 == *key);
        match (ch, bi) {
            (Some((_, Some((v, _)))), _) => {
                if let Some(x) = run.take() {
                    runs.push(x);
                }
                new_before += v.len();
                new_index += 1;
            }
            (Some((_, None)), _) => {
                if bi.is_some() {
                    if let Some(x) = run.take() {
                        runs.push(x);
                    }
                }
            }
            (None, Some(i)) => {
                match &mut run {
                    Some(x) => x.1 = i + 1,
                    None => run = Some((i, i + 1, new_index, new_before)),
                }
                new_before += base[i].1.len();
                new_index += 1;
            }
            (None, None) => {}
        }
    }
    if let Some(x) = run.take() {
        runs.push(x);
    }
    if n_new * 34 + new_before <= BODY && n_new > 0 {
        for (from, to, idx, before_new) in &runs {
            let before_old: usize = base[..*from].iter().map(|e| e.1.len()).sum();
            let d = 34 * (n_new as isize - n as isize) + *before_new as isize - before_old as isize;
            out.count(if d == 0 { "lpc_rebase_zero" } else if d > 0 { "lpc_rebase_positive" } else { "lpc_rebase_negative" });
            out.count(if *idx == 0 { "lpc_chunk_is_first_call" } else { "lpc_chunk_is_later_call" });
            out.count(match to - from {
                1 => "lpc_len_one",
                l if l == n => "lpc_len_whole_leaf",
                _ => "lpc_len_sub",
            });
            if base[*from..*to].iter().any(|e| e.2) {
                out.count("lpc_chunk_with_overflow_cell");
                if d != 0 {
                    out.count("lpc_chunk_with_overflow_cell_rebased");
                }
            }
            out.add("lpc_kept_cells", (to - from) as u64);
        }
        out.count(&format!("lpc_runs_{}", runs.len().min(3)));
    } else {
        out.count("lpc_split_or_empty");
    }
    Scenario { db: vec![DbLeaf { sep: [0u8; 32], ents: base }], outer_cutoff: None, changes, desc: format!("pushchunk-leaf {shape} n={n}") }
}

pub fn run(seed: u64, cases: usize, out: &mut Sink) {
    let mut rng = Rng::new(seed ^ 0x9C48_1EAF);
    for case in 0..cases {
        let mut r = rng.fork();
        let sc = scenario(&mut r, out);
        out.mark_case(format!("case {case}: {}", sc.desc));
        let before = out.oracle_failures.len();
        run_scenario(&sc, case, &mut r, out);
        if out.oracle_failures.len() > before {
            let first = out.oracle_failures[before].clone();
            out.fail(format!("C16 pushchunk-leaf: the leaf built with push_chunk does not read back as the base leaf with the changes applied (case {case}: {}): {first}", sc.desc));
        }
        out.nontrivial(&format!("{:?}", sc.changes.iter().map(|c| (c.0, c.1.as_ref().map(|v| (v.0.len(), v.1)))).collect::<Vec<_>>()));
    }
}
