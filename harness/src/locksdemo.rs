//! C15 (Lean LTS `Api/Locks2.lean`, counterexample `cexNested`): replay on the real `Nomt` of the one
//! schedule in which the two-lock protocol needs the caller discipline.
//!
//!   main thread : `begin_session`                      -> holds the access lock for reading (session S1)
//!   thread W    : `FinishedSession::commit` (blocking) -> parking_lot sets WRITER_BIT, waits for S1 to end
//!   main thread : `begin_session` again (or `Nomt::read`)
//!
//! parking_lot's `RwLock::read` does not pass a waiting writer, so the second read acquisition waits for W,
//! which waits for S1, which the main thread never drops: a deadlock.  A watchdog reports it (exit code 42).
//! `--mode control` runs the same schedule with the second `begin_session` issued by the main thread only
//! after S1 was dropped (the disciplined order): it must finish.
use crate::db::DbCfg;
use crate::util::*;
use nomt::hasher::Blake3Hasher;
use nomt::{KeyReadWrite, Nomt, SessionParams};
use std::sync::atomic::{AtomicU32, Ordering};
use std::sync::Arc;
use std::time::Duration;

type Db = Nomt<Blake3Hasher>;

fn arg(args: &[String], name: &str) -> Option<String> {
    args.iter().position(|a| a == name).and_then(|i| args.get(i + 1).cloned())
}

/// `locks-nested --dir <tmp dir> [--mode nested|nomt-read|control] [--wait-ms 3000]`
pub fn run(args: &[String]) -> i32 {
    let dir = arg(args, "--dir").unwrap_or_else(|| "/dev/shm/pa-locks-nested".into());
    let mode = arg(args, "--mode").unwrap_or_else(|| "nested".into());
    let wait_ms: u64 = arg(args, "--wait-ms").and_then(|s| s.parse().ok()).unwrap_or(3000);
    let _ = std::fs::remove_dir_all(&dir);
    let mut rng = Rng::new(1);
    let mut cfg = DbCfg::gen(&mut rng);
    cfg.buckets = 4096;
    cfg.workers = 1;
    let db: Arc<Db> = Arc::new(Db::open(cfg.options(&dir)).expect("open"));
    // a changeset, prepared by a session that is finished (its read guard is gone)
    let fin = {
        let s = db.begin_session(SessionParams::default());
        s.finish(vec![([7u8; 32], KeyReadWrite::Write(Some(b"v".to_vec())))]).expect("finish")
    };
    // 0 = start, 1 = S1 taken, 2 = writer about to call commit, 3 = writer done, 4 = second acquisition done
    let stage = Arc::new(AtomicU32::new(0));
    {
        let stage = stage.clone();
        let dir = dir.clone();
        std::thread::spawn(move || {
            std::thread::sleep(Duration::from_millis(wait_ms));
            let st = stage.load(Ordering::SeqCst);
            println!("C15 locks-nested: WATCHDOG after {wait_ms} ms, stage={st} (1/2 = main waits in its second read acquisition, writer waits in commit): DEADLOCK");
            let _ = std::fs::remove_dir_all(&dir);
            std::process::exit(42);
        });
    }
    let s1 = db.begin_session(SessionParams::default());
    stage.store(1, Ordering::SeqCst);
    let w = {
        let (db, stage) = (db.clone(), stage.clone());
        std::thread::spawn(move || {
            stage.store(2, Ordering::SeqCst);
            let r = fin.commit(&*db);
            stage.store(3, Ordering::SeqCst);
            r.is_ok()
        })
    };
    // let the writer reach `access_lock.write()` (it sets WRITER_BIT and parks)
    std::thread::sleep(Duration::from_millis(300));
    match mode.as_str() {
        "nested" => {
            let s2 = db.begin_session(SessionParams::default());
            stage.store(4, Ordering::SeqCst);
            drop(s2);
            drop(s1);
        }
        "nomt-read" => {
            let _ = db.read([7u8; 32]);
            stage.store(4, Ordering::SeqCst);
            drop(s1);
        }
        _ => {
            // disciplined: end the session first
            drop(s1);
            let s2 = db.begin_session(SessionParams::default());
            stage.store(4, Ordering::SeqCst);
            drop(s2);
        }
    }
    let ok = w.join().unwrap_or(false);
    println!("C15 locks-nested: mode={mode} finished, writer ok={ok}: no deadlock");
    drop(db);
    let _ = std::fs::remove_dir_all(&dir);
    0
}

/// `locks-scenarios`: the directed schedules above as child processes, reported through the sink (C15 corpus run).
pub fn scenarios(out: &mut Sink) {
    let exe = std::env::current_exe().unwrap();
    let pid = std::process::id();
    for mode in ["control", "nested", "nomt-read"] {
        let dir = format!("/dev/shm/nomt-verif-db-{pid}-locks-{mode}");
        let st = std::process::Command::new(&exe)
            .args(["locks-nested", "--dir", &dir, "--mode", mode, "--wait-ms", "2500"])
            .stdout(std::process::Stdio::null())
            .stderr(std::process::Stdio::null())
            .status();
        let _ = std::fs::remove_dir_all(&dir);
        out.mark_case(format!("locks scenario {mode}"));
        out.count(&format!("locks_scenario_{mode}"));
        match st.ok().and_then(|s| s.code()) {
            Some(0) => out.nontrivial(&format!("locks {mode} finished")),
            Some(42) if mode == "control" => out.fail("C15 DEADLOCK in the disciplined control schedule (session dropped before the next begin_session while a blocking commit waits)".into()),
            Some(42) => out.fail(format!(
                "C15 DEADLOCK nested-session: a thread that owns a live Session blocks forever in its next read acquisition of the access lock ({}) while another thread's blocking commit waits for that session (parking_lot read() does not pass a waiting writer)",
                if mode == "nested" { "begin_session" } else { "Nomt::read" }
            )),
            other => out.fail(format!("C15 locks scenario {mode}: child ended with {other:?}")),
        }
    }
}
