//! C15 / C01 / C10 / C16: the beatree `Tree` object — the REAL `Tree` (`nomt/src/beatree/mod.rs`) on a scratch directory
//! under /dev/shm, driven step by step through `nomt::verif_api::beatree_tree` (hook H21): `Tree::commit`, `begin_sync`
//! (commit, `block_until_zero`, `take_staged_changeset`, `ops::update`), `wait_pre_meta`, `post_meta` (`finish_sync`),
//! `Tree::lookup`, read transactions with `lookup_async` / `AsyncLookup` and iterators interleaved at every phase
//! (before the sync, while the sync waits for the read transactions, racing with the sync task, between `wait_pre_meta`
//! and `post_meta`, afterwards), values across the in-leaf / overflow boundary, close and reopen (`ops::reconstruct`), the
//! real `reconstruct` on the bbn file with the true and with doctored free-page sets / bumps, `search_branch` and
//! `LeafNode::get` on the pages the syncs wrote.
//!
//! One protocol line per step for the Lean driver mode `bttree` (the state machine of `Api/BtTreeModel.lean`, the
//! code-level read path of `Store/BtLookup.lean`, the mirror of `reconstruct` of `Store/BtReconstruct.lean`).  The pages a
//! sync wrote (file diff) and the index / free list it left are INPUTS of the model, which checks on them the contract of
//! `ops::update` its theorems assume (`finishOKb`) and that every written page was free or fresh.
//!
//! Oracles independent of Lean:
//!   * C01: `Tree::lookup` = a `BTreeMap` of all committed changesets, at every phase;
//!   * C15: every lookup / iterator range of a read transaction = the `BTreeMap` cloned when it was created, however
//!     many commits and syncs happened since; a sync does not take the staged changeset while a read transaction lives;
//!     no page a live read transaction's index refers to changes on disk;
//!   * C10: index after reopen = live index before close (separator → bbn page → leaf pages); standalone `reconstruct`
//!     with the true free-page set = the same; lookups after reopen = before;
//!   * C16: every separator of the index routes (real `search_branch`) to the leaf that holds the key; no written page
//!     was referenced by the index the sync started from.
use crate::util::*;
use nomt::verif_api::beatree_tree as bt;
use std::collections::{BTreeMap, BTreeSet};
use std::path::{Path, PathBuf};

const PAGE: usize = 4096;
type Map = BTreeMap<Key, Vec<u8>>;

fn fnv64(b: &[u8]) -> u64 {
    let mut h: u64 = 0xcbf29ce484222325;
    for x in b {
        h = (h ^ *x as u64).wrapping_mul(0x100000001b3);
    }
    h
}
fn digest(b: &[u8]) -> String {
    format!("{}:{}", b.len(), fnv64(b))
}
fn gen_value(seed: u64, len: usize) -> Vec<u8> {
    let mut s = seed;
    let mut v = Vec::with_capacity(len);
    for _ in 0..len {
        v.push((s >> 33) as u8);
        s = s.wrapping_mul(6364136223846793005).wrapping_add(1442695040888963407);
    }
    v
}
fn list_str(v: &[u32]) -> String {
    if v.is_empty() {
        "-".into()
    } else {
        v.iter().map(|x| x.to_string()).collect::<Vec<_>>().join(".")
    }
}
fn opt_str(v: &Option<Vec<u8>>) -> String {
    match v {
        None => "none".into(),
        Some(v) => format!("some {}", digest(v)),
    }
}

fn value_len(rng: &mut Rng) -> usize {
    match rng.below(40) {
        0 => 0,
        1 => 1,
        2 => rng.range(31, 33),
        3 | 4 => rng.range(1330, 1334),
        5 => rng.range(4090, 4094),
        6 => 15 * 4092 + rng.range(0, 2) - 1,
        7 => 16 * 4092 + rng.range(0, 2) - 1,
        8 => 65536 + rng.below(5000),
        9..=12 => rng.range(1334, 9000),
        13..=20 => rng.range(200, 1300),
        _ => rng.range(1, 64),
    }
}

struct Reader {
    id: usize,
    rtx: bt::RtxSim,
    snap: Map,
    /// leaf pages its index refers to, with their content when it was created
    pages: Vec<(u32, Vec<u8>)>,
}

struct Case<'a> {
    out: &'a mut Sink,
    rng: Rng,
    tag: String,
    dir: PathBuf,
    sim: Option<bt::TreeSim>,
    committed: Map,
    universe: Vec<Key>,
    readers: Vec<Reader>,
    next_id: usize,
    meta: (u32, u32, u32, u32), // ln_freelist_pn, ln_bump, bbn_freelist_pn, bbn_bump
    ln_img: Vec<u8>,
    bbn_img: Vec<u8>,
    seedctr: u64,
}

fn read_file(p: &Path) -> Vec<u8> {
    std::fs::read(p).unwrap_or_default()
}
fn page_of(img: &[u8], pn: u32) -> Vec<u8> {
    let o = pn as usize * PAGE;
    if o + PAGE <= img.len() {
        img[o..o + PAGE].to_vec()
    } else {
        vec![0u8; PAGE]
    }
}
fn changed_pages(old: &[u8], new: &[u8]) -> Vec<u32> {
    let n = new.len() / PAGE;
    let mut v = vec![];
    for pn in 0..n {
        let a = &new[pn * PAGE..(pn + 1) * PAGE];
        let same = if (pn + 1) * PAGE <= old.len() { a == &old[pn * PAGE..(pn + 1) * PAGE] } else { a.iter().all(|x| *x == 0) };
        if !same {
            v.push(pn as u32);
        }
    }
    v
}

fn index_digest(idx: &bt::IndexDump) -> String {
    let mut bytes = vec![];
    let mut leaves = 0;
    for (_, _, seps) in idx {
        for (s, pn) in seps {
            bytes.extend_from_slice(s);
            bytes.extend_from_slice(&pn.to_le_bytes());
            leaves += 1;
        }
    }
    format!("{} {} {}", idx.len(), leaves, fnv64(&bytes))
}
fn branch_digest(idx: &bt::IndexDump) -> String {
    let mut bytes = vec![];
    for (k, pn, seps) in idx {
        bytes.extend_from_slice(k);
        bytes.extend_from_slice(&pn.to_le_bytes());
        bytes.extend_from_slice(&(seps.len() as u32).to_le_bytes());
    }
    format!("{} {}", idx.len(), fnv64(&bytes))
}

impl<'a> Case<'a> {
    fn sim(&self) -> &bt::TreeSim {
        self.sim.as_ref().unwrap()
    }
    fn fail(&mut self, prop: &str, msg: String) {
        self.out.fail(format!("{prop} bttree {}: {msg}", self.tag));
    }

    fn pick_key(&mut self) -> Key {
        if self.universe.is_empty() || self.rng.chance(1, 12) {
            self.rng.bytes32()
        } else if self.rng.chance(1, 6) {
            // a neighbour of a key of the universe
            let k = *self.rng.pick(&self.universe);
            let mut k2 = k;
            let i = 31 - self.rng.below(2);
            k2[i] = if self.rng.chance(1, 2) { k2[i].wrapping_add(1) } else { k2[i].wrapping_sub(1) };
            k2
        } else {
            *self.rng.pick(&self.universe)
        }
    }

    /// a changeset: `(key, Some((seed, len)) | None)` sorted by key (later duplicates dropped)
    fn gen_changes(&mut self, max: usize) -> Vec<(Key, Option<(u64, usize)>)> {
        let n = self.rng.range(if max > 0 { 1 } else { 0 }, max.max(1));
        let mut m: BTreeMap<Key, Option<(u64, usize)>> = BTreeMap::new();
        let live: Vec<Key> = self.committed.keys().cloned().collect();
        for _ in 0..n {
            let del = self.rng.chance(1, 4);
            let k = if del && !live.is_empty() && self.rng.chance(4, 5) { *self.rng.pick(&live) } else { self.pick_key() };
            if del {
                m.insert(k, None);
            } else {
                self.seedctr += 1;
                let len = value_len(&mut self.rng);
                m.insert(k, Some((self.seedctr * 7919 + 13, len)));
            }
        }
        m.into_iter().collect()
    }

    fn materialize(ch: &[(Key, Option<(u64, usize)>)]) -> Vec<(Key, Option<Vec<u8>>)> {
        ch.iter().map(|(k, v)| (*k, v.map(|(s, l)| gen_value(s, l)))).collect()
    }
    fn commit_line(ch: &[(Key, Option<(u64, usize)>)]) -> String {
        let items: Vec<String> = ch
            .iter()
            .map(|(k, v)| match v {
                None => format!("{}=-", hex(k)),
                Some((s, l)) => format!("{}=g:{}:{}", hex(k), s, l),
            })
            .collect();
        format!("commit {}", if items.is_empty() { "-".into() } else { items.join(",") })
    }
    fn apply_oracle(&mut self, ch: &[(Key, Option<(u64, usize)>)]) {
        for (k, v) in ch {
            match v {
                None => {
                    self.committed.remove(k);
                    self.out.count("change_delete");
                }
                Some((s, l)) => {
                    if *l > 1332 {
                        self.out.count("change_insert_overflow");
                    } else {
                        self.out.count("change_insert_inline");
                    }
                    self.committed.insert(*k, gen_value(*s, *l));
                }
            }
        }
    }
    /// the line + oracle side of a commit (the real commit is done by the caller)
    fn note_commit(&mut self, ch: &[(Key, Option<(u64, usize)>)]) {
        self.apply_oracle(ch);
        let n = self.sim().staging().0.len();
        self.out.line(Self::commit_line(ch), format!("ok {n}"));
    }
    /// the commit at the head of a `begin_sync` task that is not blocked: the primary map cannot be observed before it
    /// is taken (its size shows in the answer of `take`)
    fn note_commit_unobserved(&mut self, ch: &[(Key, Option<(u64, usize)>)]) {
        self.apply_oracle(ch);
        self.out.line(Self::commit_line(ch).replacen("commit", "commitq", 1), "ok".into());
    }

    fn get(&mut self, phase: &str) {
        let k = self.pick_key();
        let got = self.sim().lookup(k);
        let want = self.committed.get(&k).cloned();
        let imp = match &got {
            Ok(v) => opt_str(v),
            Err(e) => e.clone(),
        };
        if got.as_ref().ok() != Some(&want) {
            self.fail("C01", format!("Tree::lookup {} ({phase}) = {imp}, BTreeMap says {}", hex(&k), opt_str(&want)));
        }
        self.out.count(&format!("get_{phase}"));
        self.out.line(format!("get {}", hex(&k)), imp);
    }

    fn begin_reader(&mut self, phase: &str) -> usize {
        let rtx = self.sim().read_transaction();
        let id = self.next_id;
        self.next_id += 1;
        let ln = read_file(&self.dir.join("ln"));
        let pages = rtx.index().iter().flat_map(|b| b.2.iter().map(|s| s.1)).map(|pn| (pn, page_of(&ln, pn))).collect();
        self.readers.push(Reader { id, rtx, snap: self.committed.clone(), pages });
        self.out.count(&format!("rtx_begin_{phase}"));
        self.out.line(format!("rtx {id}"), "ok".into());
        id
    }

    fn reader_ops(&mut self, phase: &str, n: usize) {
        for _ in 0..n {
            if self.readers.is_empty() {
                return;
            }
            let i = self.rng.below(self.readers.len());
            if self.rng.chance(3, 4) {
                let k = if self.rng.chance(2, 3) && !self.readers[i].snap.is_empty() {
                    let big: Vec<Key> = self.readers[i].snap.iter().filter(|e| e.1.len() > 1332).map(|e| *e.0).collect();
                    let ks: Vec<Key> = self.readers[i].snap.keys().cloned().collect();
                    if !big.is_empty() && self.rng.chance(1, 2) { *self.rng.pick(&big) } else { *self.rng.pick(&ks) }
                } else {
                    self.pick_key()
                };
                let r = &self.readers[i];
                let got = r.rtx.lookup(k);
                let want = r.snap.get(&k).cloned();
                let imp = match &got {
                    Ok((v, _)) => opt_str(v),
                    Err(e) => e.clone(),
                };
                let id = r.id;
                if let Ok((_, reads)) = &got {
                    self.out.add("rget_page_reads", *reads as u64);
                    if *reads > 1 {
                        self.out.count("rget_overflow_async");
                    }
                }
                if got.as_ref().ok().map(|x| &x.0) != Some(&want) {
                    self.fail("C15", format!("read transaction {id} lookup {} ({phase}) = {imp}, its snapshot says {}", hex(&k), opt_str(&want)));
                }
                self.out.count(&format!("rget_{phase}"));
                self.out.line(format!("rget {id} {}", hex(&k)), imp);
            } else {
                let mut a = self.pick_key();
                let mut b = self.pick_key();
                if b < a {
                    std::mem::swap(&mut a, &mut b);
                }
                if self.rng.chance(1, 3) {
                    a = [0u8; 32];
                }
                let mut end = if self.rng.chance(1, 3) { None } else { Some(b) };
                if end == Some(a) && std::env::var("VH_BTTREE_EMPTY_RANGE").is_err() {
                    // an empty range `[a, a)`: `BeatreeIterator::next` answers `Blocked` while `needed_leaves` is empty
                    // (observation 1 of notes/Q32.md; not reachable from `seek.rs`, whose ranges are non-empty)
                    end = None;
                }
                let r = &self.readers[i];
                let id = r.id;
                let got = r.rtx.iterate(a, end);
                let want: Vec<(Key, Vec<u8>)> = r
                    .snap
                    .range(a..)
                    .filter(|(k, _)| end.map_or(true, |e| **k < e))
                    .map(|(k, v)| (*k, v.clone()))
                    .collect();
                let imp = match &got {
                    Err(e) => e.clone(),
                    Ok((items, provided)) => {
                        let mut bytes = vec![];
                        let mut ok = items.len() == want.len();
                        for (j, (k, v, h)) in items.iter().enumerate() {
                            bytes.extend_from_slice(k);
                            let w = want.get(j);
                            match h {
                                None => {
                                    bytes.push(0);
                                    bytes.extend_from_slice(v);
                                    ok &= w.map_or(false, |w| w.0 == *k && w.1 == *v);
                                }
                                Some(h) => {
                                    bytes.push(1);
                                    let len = if v.len() > 1332 { v.len() as u64 } else { u64::from_le_bytes(v[0..8].try_into().unwrap()) };
                                    bytes.extend_from_slice(&len.to_le_bytes());
                                    ok &= w.map_or(false, |w| w.0 == *k && w.1.len() as u64 == len && <nomt_core::hasher::Blake3Hasher as nomt_core::hasher::ValueHasher>::hash_value(&w.1) == *h);
                                }
                            }
                        }
                        if !ok {
                            self.out.fail(format!(
                                "C15 bttree {}: read transaction {id} iterator [{}, {}) ({phase}) yields {} items, its snapshot holds {} there (or an item differs)",
                                self.tag,
                                hex(&a),
                                end.map_or("-".into(), |e| hex(&e)),
                                items.len(),
                                want.len()
                            ));
                        }
                        self.out.add("riter_items", items.len() as u64);
                        self.out.add("riter_leaves_loaded", provided.len() as u64);
                        format!("{}:{}", items.len(), fnv64(&bytes))
                    }
                };
                self.out.count(&format!("riter_{phase}"));
                self.out.line(format!("riter {id} {} {}", hex(&a), end.map_or("-".into(), |e| hex(&e))), imp);
            }
        }
    }

    fn drop_reader(&mut self, i: usize) {
        let r = self.readers.remove(i);
        // the pages its index referred to must not have changed while it lived
        let ln = read_file(&self.dir.join("ln"));
        for (pn, old) in &r.pages {
            if page_of(&ln, *pn) != *old {
                self.fail("C15", format!("leaf page {pn} referred to by read transaction {} was rewritten while it lived", r.id));
            }
        }
        self.out.line(format!("drop {}", r.id), "ok".into());
        drop(r);
    }
    fn drop_all_readers(&mut self) {
        while !self.readers.is_empty() {
            self.drop_reader(0);
        }
    }

    fn free_phase(&mut self, phase: &str) {
        for _ in 0..self.rng.range(1, 7) {
            match self.rng.below(12) {
                0 | 1 | 10 => {
                    if self.readers.len() < 3 {
                        self.begin_reader(phase);
                    }
                }
                2 => {
                    if !self.readers.is_empty() {
                        let i = self.rng.below(self.readers.len());
                        self.drop_reader(i);
                    }
                }
                3 => {
                    // a commit outside begin_sync (also while a sync is in flight)
                    let ch = self.gen_changes(4);
                    self.sim().commit(Self::materialize(&ch));
                    self.out.count(&format!("commit_{phase}"));
                    self.note_commit(&ch);
                }
                4..=6 => self.get(phase),
                _ => self.reader_ops(phase, 2),
            }
        }
        if !self.readers.is_empty() {
            self.reader_ops(phase, 1);
        }
    }

    /// the page writes of the sync that just passed `wait_pre_meta`: `(position of their lines, ln pages, bbn pages)`;
    /// the lines are spliced in by `splice_writes` once the new index tells leaves from overflow / free-list pages
    fn collect_writes(&mut self, old_index: &bt::IndexDump) -> (usize, Vec<(u32, Vec<u8>)>, Vec<(u32, Vec<u8>)>) {
        let ln = read_file(&self.dir.join("ln"));
        let bbn = read_file(&self.dir.join("bbn"));
        let old_leaves: BTreeSet<u32> = old_index.iter().flat_map(|b| b.2.iter().map(|s| s.1)).collect();
        let old_bbn: BTreeSet<u32> = old_index.iter().map(|b| b.1).collect();
        let mut lnw = vec![];
        let mut bbnw = vec![];
        for pn in changed_pages(&self.ln_img, &ln) {
            if old_leaves.contains(&pn) {
                self.fail("C16", format!("sync rewrote leaf page {pn}, which the index it started from refers to"));
            }
            self.out.count("ln_page_written");
            lnw.push((pn, page_of(&ln, pn)));
        }
        for pn in changed_pages(&self.bbn_img, &bbn) {
            if old_bbn.contains(&pn) {
                self.fail("C16", format!("sync rewrote bbn page {pn}, which holds a node of the index it started from"));
            }
            self.out.count("bbn_page_written");
            bbnw.push((pn, page_of(&bbn, pn)));
        }
        self.ln_img = ln;
        self.bbn_img = bbn;
        (self.out.ops.len(), lnw, bbnw)
    }

    fn splice_writes(&mut self, w: (usize, Vec<(u32, Vec<u8>)>, Vec<(u32, Vec<u8>)>)) {
        let (pos, lnw, bbnw) = w;
        let leaves: BTreeSet<u32> = self.sim().index().iter().flat_map(|b| b.2.iter().map(|s| s.1)).collect();
        let mut lines = vec![];
        for (pn, pg) in lnw {
            let kind = if leaves.contains(&pn) { "L" } else { "O" };
            if kind == "L" {
                self.out.count("ln_leaf_written");
            }
            lines.push(format!("ln {pn} {kind} {}", hex(&pg)));
        }
        for (pn, pg) in bbnw {
            lines.push(format!("bbn {pn} {}", hex(&pg)));
        }
        let n = lines.len();
        self.out.ops.splice(pos..pos, lines);
        self.out.imp.splice(pos..pos, std::iter::repeat("ok".to_string()).take(n));
    }

    fn finish_line(&mut self) {
        let idx = self.sim().index();
        let (ln_free, _) = self.sim().tracked_free_pages();
        let bbns: Vec<u32> = idx.iter().map(|b| b.1).collect();
        self.out.add("index_branches", idx.len() as u64);
        if idx.len() > 1 {
            self.out.count("index_multi_branch");
        }
        self.out.line(
            format!("finish I {} F {} B {}", list_str(&bbns), list_str(&ln_free), self.meta.1),
            format!("ok {}", index_digest(&idx)),
        );
        self.check_routing(&idx);
    }

    /// C16: every key of the oracle is routed by the real `search_branch` over the real index pages to a leaf whose
    /// real `LeafNode::get` finds it (the staging maps are empty after a finished sync only if no commit came in between,
    /// so this checks the tree content against what was committed up to the taken changeset — done only when staging is empty)
    fn check_routing(&mut self, idx: &bt::IndexDump) {
        let (prim, sec) = self.sim().staging();
        if !prim.is_empty() || sec.is_some() {
            return;
        }
        let keys: Vec<Key> = self.committed.keys().cloned().collect();
        for k in keys.iter().take(40) {
            let b = idx.iter().rev().find(|b| b.0 <= *k);
            let Some(b) = b else {
                self.fail("C16", format!("no branch node for key {}", hex(k)));
                continue;
            };
            let page = page_of(&self.bbn_img, b.1);
            let sb = bt::search_branch(&page, *k);
            let want = b.2.iter().rev().find(|s| s.0 <= *k).map(|s| s.1);
            let imp = match &sb {
                Ok(Some((i, pn))) => format!("some {i} {pn}"),
                Ok(None) => "none".into(),
                Err(e) => e.clone(),
            };
            if sb.as_ref().ok().map(|x| x.map(|y| y.1)) != Some(want) {
                self.fail("C16", format!("search_branch on bbn page {} for {} = {imp}, separators say {:?}", b.1, hex(k), want));
            }
            self.out.count("search_branch");
            self.out.line(format!("sb {} {}", b.1, hex(k)), imp);
            if let Some(pn) = want {
                let lp = page_of(&self.ln_img, pn);
                let lg = bt::leaf_get(&lp, *k);
                let imp = match &lg {
                    Ok(Some((cell, ov))) => format!("some {} {}", if *ov { 1 } else { 0 }, digest(cell)),
                    Ok(None) => "none".into(),
                    Err(e) => e.clone(),
                };
                let v = &self.committed[k];
                let ok = match &lg {
                    Ok(Some((cell, false))) => cell == v,
                    Ok(Some((cell, true))) => u64::from_le_bytes(cell[0..8].try_into().unwrap()) as usize == v.len(),
                    _ => false,
                };
                if !ok {
                    self.fail("C16", format!("LeafNode::get on ln page {pn} for {} = {imp}, committed value has {} bytes", hex(k), v.len()));
                }
                self.out.count("leaf_get");
                self.out.line(format!("lg {pn} {}", hex(k)), imp);
            }
        }
    }

    fn sync(&mut self) {
        let mode = self.rng.below(10);
        let big = self.rng.chance(1, 5);
        let ch = self.gen_changes(if big { 60 } else { 12 });
        let old_index = self.sim().index();
        let blocked_mode = mode < 3 && !self.readers.is_empty();
        let racy = mode == 3 || mode == 4;
        if !blocked_mode {
            self.drop_all_readers();
        }
        self.sim.as_mut().unwrap().begin_sync(Self::materialize(&ch));
        if blocked_mode {
            // the task commits, then waits for the read transactions
            let t0 = std::time::Instant::now();
            let mut committed = false;
            let expect = {
                let mut e: BTreeMap<Key, Option<Vec<u8>>> = BTreeMap::new();
                for (k, v) in Self::materialize(&ch) {
                    e.insert(k, v);
                }
                e
            };
            while t0.elapsed() < std::time::Duration::from_millis(400) {
                let (prim, _) = self.sim().staging();
                let pm: BTreeMap<Key, Option<Vec<u8>>> = prim.into_iter().collect();
                if expect.iter().all(|(k, v)| pm.get(k) == Some(v)) {
                    committed = true;
                    break;
                }
                std::thread::yield_now();
            }
            if !committed {
                self.fail("C01", "the begin_sync task did not commit its changeset within 400 ms".into());
            }
            self.note_commit(&ch);
            std::thread::sleep(std::time::Duration::from_millis(8));
            let taken = self.sim().sync_in_flight();
            if taken {
                self.fail("C15", "the sync took the staged changeset while a read transaction was alive".into());
            }
            self.out.count("gate_blocked");
            self.out.line("gate".into(), if taken { "ok".into() } else { "blocked".into() });
            // the blocked phase: the commit is visible to everything begun now, not to the older transactions
            self.free_phase_no_drop("blocked");
            self.drop_all_readers();
        } else {
            self.note_commit_racy(&ch, racy);
        }
        let res = self.sim.as_mut().unwrap().wait_pre_meta();
        match res {
            Ok(m) => self.meta = m,
            Err(e) => {
                self.fail("C01", format!("wait_pre_meta: {e}"));
                return;
            }
        }
        self.out.line("gate".into(), "ok".into());
        let (_, sec) = self.sim().staging();
        self.out.line("take".into(), format!("ok {}", sec.map_or(0, |s| s.len())));
        let writes = self.collect_writes(&old_index);
        // between wait_pre_meta and post_meta: old index, secondary staging, new pages on disk
        self.free_phase("premeta");
        if let Err(e) = self.sim.as_mut().unwrap().post_meta() {
            self.fail("C01", format!("post_meta: {e}"));
            return;
        }
        self.splice_writes(writes);
        self.out.count("sync");
        self.finish_line();
        self.free_phase("after");
    }

    /// like `free_phase` but never drops (the sync must stay blocked)
    fn free_phase_no_drop(&mut self, phase: &str) {
        for _ in 0..self.rng.range(1, 4) {
            match self.rng.below(6) {
                0 | 1 => {
                    if self.readers.len() < 4 {
                        self.begin_reader(phase);
                    }
                }
                2 | 3 => self.get(phase),
                _ => self.reader_ops(phase, 1),
            }
        }
    }

    /// not blocked: the task runs concurrently.  In racy mode the main thread looks up keys while it runs — the answers
    /// do not depend on how far the task is (before / after the commit is not distinguishable for keys outside the
    /// changeset; keys inside it are avoided), so the lines are emitted after the `commit` line.
    fn note_commit_racy(&mut self, ch: &[(Key, Option<(u64, usize)>)], racy: bool) {
        let touched: BTreeSet<Key> = ch.iter().map(|c| c.0).collect();
        let mut observed: Vec<(Key, Result<Option<Vec<u8>>, String>)> = vec![];
        if racy {
            let keys: Vec<Key> = self.committed.keys().filter(|k| !touched.contains(*k)).cloned().collect();
            let mut n = 0;
            while !self.sim().begin_sync_done() && n < 6 && !keys.is_empty() {
                let k = *self.rng.pick(&keys);
                observed.push((k, self.sim().lookup(k)));
                n += 1;
            }
        }
        self.note_commit_unobserved(ch);
        for (k, got) in observed {
            let want = self.committed.get(&k).cloned();
            let imp = match &got {
                Ok(v) => opt_str(v),
                Err(e) => e.clone(),
            };
            if got.as_ref().ok() != Some(&want) {
                self.fail("C01", format!("Tree::lookup {} (racing with the sync task) = {imp}, BTreeMap says {}", hex(&k), opt_str(&want)));
            }
            self.out.count("get_racing");
            self.out.line(format!("get {}", hex(&k)), imp);
        }
    }

    fn reopen(&mut self) {
        self.drop_all_readers();
        let before = self.sim().index();
        let (prim, sec) = self.sim().staging();
        if !prim.is_empty() || sec.is_some() {
            // un-synced commits would be lost by a reopen: sync them first
            return;
        }
        let (_, bbn_free) = self.sim().tracked_free_pages();
        self.sim = None;
        let (lf, lb, bf, bb) = self.meta;
        let workers = self.rng.range(1, 3);
        match bt::TreeSim::open(&self.dir, lf, bf, lb, bb, workers, self.rng.below(2), 2) {
            Err(e) => {
                self.fail("C10", format!("reopen failed: {e}"));
                // keep going on a fresh handle is impossible
                panic!("reopen failed");
            }
            Ok(sim) => self.sim = Some(sim),
        }
        let after = self.sim().index();
        if after != before {
            self.fail("C10", format!("index after reopen ({}) differs from the live index before close ({})", branch_digest(&after), branch_digest(&before)));
        }
        let tracked = bt::tracked_of_file(&self.dir.join("bbn"), bb, bf).unwrap_or_default();
        if tracked != bbn_free {
            self.fail("C10", format!("bbn free pages read at open {:?} differ from the live free list {:?}", tracked, bbn_free));
        }
        self.out.count("reopen");
        let file_pages = read_file(&self.dir.join("bbn")).len() / PAGE;
        self.out.line(format!("reopen T {} B {} N {}", list_str(&tracked), bb, file_pages), format!("ok {}", branch_digest(&after)));
        self.recon_variants(&tracked, bb, &before);
        for _ in 0..4 {
            self.get("reopened");
        }
    }

    /// the real `reconstruct` on the bbn file as it is: with the true free set, and with doctored ones (a freed page that
    /// still holds an old node taken out of the set; a live node put into it; a smaller / larger bump)
    fn recon_variants(&mut self, tracked: &[u32], bump: u32, live: &bt::IndexDump) {
        let path = self.dir.join("bbn");
        let bbn = read_file(&path);
        let file_pages = (bbn.len() / PAGE) as u32;
        let stale: Vec<u32> = tracked.iter().cloned().filter(|pn| page_of(&bbn, *pn).iter().any(|x| *x != 0)).collect();
        self.out.add("bbn_stale_pages", stale.len() as u64);
        let mut variants: Vec<(String, Vec<u32>, u32)> = vec![("true".into(), tracked.to_vec(), bump)];
        if !stale.is_empty() {
            let s = *self.rng.pick(&stale);
            variants.push(("stale-untracked".into(), tracked.iter().cloned().filter(|p| *p != s).collect(), bump));
        }
        if !live.is_empty() && self.rng.chance(1, 2) {
            let l = self.rng.pick(live).1;
            let mut t = tracked.to_vec();
            t.push(l);
            t.sort();
            variants.push(("live-tracked".into(), t, bump));
        }
        if bump > 1 && self.rng.chance(1, 2) {
            variants.push(("bump-smaller".into(), tracked.to_vec(), bump - 1));
        }
        if bump < file_pages && self.rng.chance(1, 2) {
            variants.push(("bump-larger".into(), tracked.to_vec(), (bump + 1 + self.rng.below(3) as u32).min(file_pages)));
        }
        if self.rng.chance(1, 4) {
            variants.push(("bump-beyond-file".into(), tracked.to_vec(), file_pages + 1));
        }
        for (name, t, b) in variants {
            let got = bt::reconstruct(&path, &t, b);
            let imp = match &got {
                Ok(idx) => format!("ok {}", branch_digest(idx)),
                Err(e) => {
                    if e.contains("same separator") {
                        "err dup".into()
                    } else if e.contains("pn mismatch") {
                        "err pn".into()
                    } else if e.contains("bump is out of bounds") {
                        "err bump".into()
                    } else {
                        e.clone()
                    }
                }
            };
            if name == "true" {
                if got.as_ref().ok() != Some(live) {
                    self.fail("C10", format!("reconstruct with the true free-page set gives {imp}, the live index was {}", branch_digest(live)));
                }
            }
            self.out.count(&format!("recon_{name}"));
            self.out.count(&format!("recon_{name}_{}", imp.split(' ').take(2).collect::<Vec<_>>().join("_").replace(|c: char| c.is_ascii_digit(), "")));
            self.out.nontrivial(&format!("recon {name} {imp}"));
            self.out.line(format!("recon T {} B {} N {}", list_str(&t), b, file_pages), imp);
        }
    }
}

fn run_case(out: &mut Sink, seed: u64, case: usize) {
    let mut rng = Rng::new(seed ^ (case as u64).wrapping_mul(0x9e3779b97f4a7c15));
    let dir = PathBuf::from(format!("/dev/shm/nomt-verif-bttree-{}-{}-{}", std::process::id(), seed, case));
    let _ = std::fs::remove_dir_all(&dir);
    std::fs::create_dir_all(&dir).unwrap();
    bt::TreeSim::create(&dir).unwrap();
    let workers = rng.range(1, 3);
    let cache_mb = if rng.chance(1, 2) { 0 } else { 1 };
    let sim = bt::TreeSim::open(&dir, 0, 0, 1, 1, workers, cache_mb, 2).expect("open fresh");
    let tag = format!("seed={seed} case={case}");
    out.mark_case(tag.clone());
    out.line(format!("case {case}"), "case".into());
    let universe = {
        let n = *rng.pick(&[4usize, 12, 40, 120, 300]);
        let mut u = gen_keyset(&mut rng, n);
        if u.is_empty() {
            u.push(rng.bytes32());
        }
        u
    };
    let ln_img = read_file(&dir.join("ln"));
    let bbn_img = read_file(&dir.join("bbn"));
    let mut c = Case {
        out,
        rng,
        tag,
        dir: dir.clone(),
        sim: Some(sim),
        committed: Map::new(),
        universe,
        readers: vec![],
        next_id: 1,
        meta: (0, 1, 0, 1),
        ln_img,
        bbn_img,
        seedctr: seed.wrapping_mul(1000003) % 1000 + case as u64 * 1000,
    };
    let fat = case % 23 == 7;
    let nsync = if fat { 2 } else { c.rng.range(1, 6) };
    let result = std::panic::catch_unwind(std::panic::AssertUnwindSafe(|| {
        c.free_phase("before");
        if fat {
            // a bulk load that needs several bottom-level branch nodes
            let mut m: BTreeMap<Key, Option<(u64, usize)>> = BTreeMap::new();
            // clusters of 40 keys under a common 30-byte prefix: the separators between the leaves of a cluster are ~250 bits
            let mut base = c.rng.bytes32();
            for j in 0..1300u64 {
                if j % 40 == 0 {
                    base = c.rng.bytes32();
                }
                let mut k = base;
                k[30] = c.rng.below(256) as u8;
                k[31] = c.rng.below(256) as u8;
                m.insert(k, Some((j * 31 + 5, 900 + (j as usize % 400))));
            }
            let ch: Vec<(Key, Option<(u64, usize)>)> = m.into_iter().collect();
            c.universe.extend(ch.iter().step_by(9).map(|x| x.0));
            c.sim().commit(Case::materialize(&ch));
            c.out.count("bulk_load");
            c.note_commit(&ch);
        }
        for i in 0..nsync {
            c.sync();
            if c.rng.chance(1, 3) || i + 1 == nsync {
                c.reopen();
            }
        }
        c.drop_all_readers();
    }));
    if result.is_err() {
        c.out.fail(format!("C01 bttree {}: the harness or the code under test panicked", c.tag));
    }
    let sig = format!("{} {} {}", c.committed.len(), c.meta.1, c.meta.3);
    c.out.nontrivial(&format!("case {} {sig}", c.tag));
    c.readers.clear();
    c.sim = None;
    let _ = std::fs::remove_dir_all(&dir);
}

/// The counter protocol on the REAL code: the body of the `begin_sync` task run with a read-transaction counter that is
/// not the tree's (so `block_until_zero` passes although a read transaction lives).  A transaction begun while sync n is
/// in flight survives sync n+1; a page freed by sync n is reused by sync n+1; the transaction then reads a later state.
fn ungated_demo(out: &mut Sink) {
    let dir = PathBuf::from(format!("/dev/shm/nomt-verif-bttree-{}-ungated", std::process::id()));
    let _ = std::fs::remove_dir_all(&dir);
    std::fs::create_dir_all(&dir).unwrap();
    bt::TreeSim::create(&dir).unwrap();
    let mut sim = bt::TreeSim::open(&dir, 0, 0, 1, 1, 1, 1, 2).expect("open fresh");
    let mut k_b = [0u8; 32];
    k_b[0] = 0x40;
    let mut k_c = [0u8; 32];
    k_c[0] = 0x80;
    sim.begin_sync(vec![(k_b, Some(vec![1])), (k_c, Some(vec![3]))]);
    sim.wait_pre_meta().unwrap();
    sim.post_meta().unwrap();
    // sync 2 rewrites the leaf; a transaction is begun between wait_pre_meta and post_meta (old index)
    sim.begin_sync(vec![(k_b, Some(vec![2]))]);
    sim.wait_pre_meta().unwrap();
    let rtx = sim.read_transaction();
    let before = rtx.lookup(k_c).map(|x| x.0);
    sim.post_meta().unwrap();
    let old_leaf: Vec<u32> = rtx.index().iter().flat_map(|b| b.2.iter().map(|s| s.1)).collect();
    // sync 3 through the real prepare_sync with a foreign counter
    let r = sim.prepare_sync_ungated(vec![(k_c, Some(vec![4]))]);
    let reused: Vec<u32> = {
        // the new index is visible after finish
        if r.is_ok() {
            sim.finish_ungated();
        }
        sim.index().iter().flat_map(|b| b.2.iter().map(|s| s.1)).collect()
    };
    let after = rtx.lookup(k_c).map(|x| x.0);
    let imp = format!(
        "before={} after={} old_leaf={} new_leaf={}",
        before.as_ref().map(opt_str).unwrap_or_else(|e| e.clone()),
        after.as_ref().map(opt_str).unwrap_or_else(|e| e.clone()),
        list_str(&old_leaf),
        list_str(&reused)
    );
    out.samples.push(format!("ungated demo on the real code: {imp}"));
    if old_leaf == reused && before == Ok(Some(vec![3])) && after == Ok(Some(vec![4])) {
        out.count("ungated_demo_reads_later_state");
    } else {
        out.count("ungated_demo_other");
    }
    out.line("ungated".into(), "ok".into());
    drop(rtx);
    drop(sim);
    let _ = std::fs::remove_dir_all(&dir);
}


/// `find_key_pos` / `search_branch` on hand-built bottom-level branch nodes (the real `BranchNodeBuilder`): `pc` separators
/// that share a prefix of `pl` bits followed by separators that do not (`prefix_compressed < n`), probed with every
/// separator, its neighbours, keys whose prefix is below / above the node's, and `low` overrides.
fn node_unit(out: &mut Sink, rng: &mut Rng, tag: &str) {
    use nomt::verif_api::{bit_ops, branch_node};
    let pl = match rng.below(4) {
        0 => 0,
        1 => rng.range(1, 16),
        2 => interesting_depth(rng).min(200),
        _ => rng.range(1, 250),
    };
    let base = rng.bytes32();
    let pc = rng.range(1, 7);
    let mut comp: Vec<Key> = (0..pc).map(|_| with_prefix(rng, &base, pl)).collect();
    if rng.chance(1, 3) {
        // the shortest member: the prefix followed by zeros
        let mut k = [0u8; 32];
        for i in 0..pl {
            set_bit(&mut k, i, bit(&base, i));
        }
        comp.push(k);
    }
    comp.sort();
    comp.dedup();
    let pc = comp.len();
    // separators above the group that do not share the prefix: raise a zero bit inside the prefix
    let mut extra: Vec<Key> = vec![];
    let zero_bits: Vec<usize> = (0..pl).filter(|i| !bit(&base, *i)).collect();
    if !zero_bits.is_empty() {
        for _ in 0..rng.below(5) {
            let d = *rng.pick(&zero_bits);
            let mut k = with_prefix(rng, &base, d);
            set_bit(&mut k, d, true);
            extra.push(k);
        }
    }
    extra.sort();
    extra.dedup();
    let keys: Vec<Key> = comp.iter().chain(extra.iter()).cloned().collect();
    let n = keys.len();
    let steps: Vec<branch_node::Step> =
        keys.iter().enumerate().map(|(i, k)| branch_node::Step::Push(*k, bit_ops::separator_len(k), 100 + i as u32)).collect();
    let page = std::panic::catch_unwind(|| branch_node::build(&[0u8; PAGE], n, pc, pl, None, &steps));
    let Ok(mut page) = page else {
        out.count("node_unit_builder_refused");
        return;
    };
    page[0..4].copy_from_slice(&5u32.to_le_bytes());
    out.count("node_unit");
    if pc < n {
        out.count("node_unit_pc_lt_n");
    }
    out.nontrivial(&format!("node {pl} {pc} {n} {}", hex(&keys[0])));
    out.line(format!("node {}", hex(&page)), "ok".into());
    let mut probes: Vec<Key> = vec![];
    for k in &keys {
        probes.push(*k);
        let mut a = *k;
        let mut b = *k;
        for i in (0..32).rev() {
            a[i] = a[i].wrapping_add(1);
            if a[i] != 0 {
                break;
            }
        }
        for i in (0..32).rev() {
            b[i] = b[i].wrapping_sub(1);
            if b[i] != 0xff {
                break;
            }
        }
        probes.push(a);
        probes.push(b);
    }
    for _ in 0..4 {
        probes.push(rng.bytes32());
        let d = rng.below(pl + 1);
        probes.push(diverge_at(rng, &base, d.min(255)));
    }
    probes.push([0u8; 32]);
    probes.push([0xffu8; 32]);
    for k in probes {
        let want = keys.iter().rposition(|s| *s <= k);
        let sb = bt::search_branch(&page, k);
        let imp = match &sb {
            Ok(Some((i, pn))) => format!("some {i} {pn}"),
            Ok(None) => "none".into(),
            Err(e) => e.clone(),
        };
        let ok = match (&sb, want) {
            (Ok(None), None) => true,
            (Ok(Some((i, pn))), Some(w)) => *i == w && *pn == 100 + w as u32,
            _ => false,
        };
        if !ok {
            out.fail(format!("C16 bttree {tag}: search_branch on a node with prefix_len {pl}, prefix_compressed {pc}, n {n} for {} = {imp}, the separators say {:?}", hex(&k), want));
        }
        out.count("node_unit_search_branch");
        out.line(format!("sbn {}", hex(&k)), imp);
        let low = if rng.chance(1, 3) { Some(rng.below(want.map_or(0, |w| w + 1) + 1).min(n)) } else { None };
        let fk = bt::find_key_pos(&page, k, low);
        let imp = match &fk {
            Ok((f, p)) => format!("{} {p}", if *f { 1 } else { 0 }),
            Err(e) => e.clone(),
        };
        out.line(format!("fkn {} {}", hex(&k), low.map_or("-".into(), |l| l.to_string())), imp);
    }
}


/// `reconstruct` at a point its theorem excludes: a node whose first separator is NOT prefix-compressed although the
/// prefix is not empty (`prefix_compressed = 0`, never built by the branch stage).  `reconstruct` files the node under
/// `prefix ++ separator(0)`, `get_key(node, 0)` — what `find_key_pos` and the live index use — is `separator(0)` alone.
fn pc0_demo(out: &mut Sink) {
    use nomt::verif_api::{bit_ops, branch_node};
    let dir = PathBuf::from(format!("/dev/shm/nomt-verif-bttree-{}-pc0", std::process::id()));
    let _ = std::fs::remove_dir_all(&dir);
    std::fs::create_dir_all(&dir).unwrap();
    let mut k0 = [0u8; 32];
    k0[0] = 0x40;
    let mut k1 = [0u8; 32];
    k1[0] = 0xc0;
    let steps = vec![
        branch_node::Step::Push(k0, bit_ops::separator_len(&k0), 7),
        branch_node::Step::Push(k1, bit_ops::separator_len(&k1), 8),
    ];
    let Ok(mut page) = std::panic::catch_unwind(|| branch_node::build(&[0u8; PAGE], 2, 0, 12, None, &steps)) else {
        out.count("pc0_demo_builder_refused");
        return;
    };
    page[0..4].copy_from_slice(&1u32.to_le_bytes());
    let mut file = vec![0u8; PAGE];
    file.extend_from_slice(&page);
    std::fs::write(dir.join("bbn"), &file).unwrap();
    let got = bt::reconstruct(&dir.join("bbn"), &[], 2);
    out.line("case 100000".into(), "case".into());
    out.line(format!("bbn 1 {}", hex(&page)), "ok".into());
    let imp = match &got {
        Ok(idx) => format!("ok {}", branch_digest(idx)),
        Err(e) => e.clone(),
    };
    out.line("recon T - B 2 N 2".into(), imp);
    if let Ok(idx) = &got {
        if idx.len() == 1 && idx[0].0 != idx[0].2[0].0 {
            out.count("pc0_demo_index_key_differs_from_get_key");
            out.samples.push(format!("pc0 demo: reconstruct files the node under {} while get_key(node, 0) = {}", hex(&idx[0].0), hex(&idx[0].2[0].0)));
        } else {
            out.count("pc0_demo_same_key");
        }
    }
    let _ = std::fs::remove_dir_all(&dir);
}

/// a case that does not end within two minutes is a hang of the code under test (e.g. a sync task that died while the
/// controller waits for it): remove the scratch directories and leave with a non-zero exit code
fn watchdog() -> std::sync::Arc<std::sync::atomic::AtomicU64> {
    let beat = std::sync::Arc::new(std::sync::atomic::AtomicU64::new(0));
    let b = beat.clone();
    std::thread::spawn(move || {
        let mut last = (0u64, std::time::Instant::now());
        loop {
            std::thread::sleep(std::time::Duration::from_millis(500));
            let now = b.load(std::sync::atomic::Ordering::Relaxed);
            if now != last.0 {
                last = (now, std::time::Instant::now());
            } else if last.1.elapsed() > std::time::Duration::from_secs(120) {
                eprintln!("C15 bttree: case {} did not end within 120 s (hang)", now);
                if let Ok(rd) = std::fs::read_dir("/dev/shm") {
                    let prefix = format!("nomt-verif-bttree-{}-", std::process::id());
                    for e in rd.flatten() {
                        if e.file_name().to_string_lossy().starts_with(&prefix) {
                            let _ = std::fs::remove_dir_all(e.path());
                        }
                    }
                }
                std::process::exit(3);
            }
        }
    });
    beat
}

pub fn run(seed: u64, cases: usize, out: &mut Sink) {
    let beat = watchdog();
    let only: Option<usize> = std::env::var("VH_BTTREE_ONLY").ok().and_then(|s| s.parse().ok());
    if cases == 0 || only.is_none() {
        ungated_demo(out);
        pc0_demo(out);
    }
    for case in 0..cases {
        if only.map_or(false, |o| o != case) {
            continue;
        }
        beat.store(case as u64 + 1, std::sync::atomic::Ordering::Relaxed);
        run_case(out, seed, case);
        let mut rng = Rng::new(seed ^ 0xB7EE ^ (case as u64) << 20);
        for _ in 0..3 {
            node_unit(out, &mut rng, &format!("seed={seed} case={case}"));
        }
    }
}
