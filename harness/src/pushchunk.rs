//! C16 / C01 (unit Q48): directed geometries of `BranchNodeBuilder::push_chunk` (`nomt/src/beatree/branch/node.rs`) through
//! hook H7 `nomt::verif_api::branch_node`.  Command `pushchunk-branch`; it emits the SAME protocol lines as `bitops-node` (`bn …`,
//! `gk …`), so the Lean driver mode is `bitops` (mirror `builderPushChunk`, `Store/BitOpsBuilder.lean`).  This file is a child
//! module of `bitops.rs` (`#[path]`), it reuses its private generators / line printers.
//!
//! What `bitops-node` does not reach and this block does:
//!   * base prefix_len / new prefix_len pinned next to 0 / 8 / 64 / 128 / 248 / 255, difference ∈ {0,1,7,8,9,63,64,65}, in either
//!     direction (the new prefix shorter: separators are extended by bits of the base prefix; longer: separators lose bits);
//!   * chunks of length 0 / 1 / the whole node / the whole compressed range;
//!   * `from = 0` with a first separator SHORTER than the base prefix (finding F22's shape: the all-zero key, or a key cut
//!     inside the prefix, in front of keys with many leading zero bits) under a shrinking, an equal and a growing prefix;
//!   * the kept range cut into segments, every segment either one `push_chunk` or `push(get_key(base,i), …)` one by one: push_chunk
//!     as the first call (runs `set_prefix`) and as a later call (does not), push_chunk / push / push_chunk;
//!   * `updated` page numbers inside the chunk, behind the chunk but overwritten later, and behind the node;
//!   * requests the code answers with a panic: a chunk crossing the new node's `prefix_compressed` boundary (the `assert!`),
//!     `to < from`, `to` behind the base node, an empty chunk at `from = n` as first call, an EMPTY chunk under an equal prefix at
//!     index 0 or from 0 (the fast path reads `cell(to - 1)`; under a different prefix the same call is a no-op); and one it does
//!     not reject: a chunk reaching into the base's uncompressed separators.
//!
//! Oracles independent of the model (all `C16 pushchunk: …`): on a well-formed request the builder does not panic; the real
//! `get_key(new, index + k)` is the real `get_key(base, from + k)` and the node pointer is the base's or the updated one, for
//! every k; the node decodes (every key through the real `get_key`, every node pointer) exactly as the node a second real builder
//! makes from `push(key, separator_len, pn)` one by one under the same header; a chunk crossing `prefix_compressed` panics.
//! Whether the two nodes are also byte-equal is COUNTED (`pc_bytes_equal` / `pc_bytes_differ`, `pc_cells_differ`): F22's shape
//! stores a non-canonical cell for the short first separator, bytes differ there by construction.
use super::*;

const ANCHORS: [usize; 6] = [0, 8, 64, 128, 248, 255];
const DIFFS: [usize; 8] = [0, 1, 7, 8, 9, 63, 64, 65];

fn item(r: &mut Rng, k: Key) -> Item {
    Item { key: k, sep_len: naive_separator_len(&k), pn: r.next() as u32 }
}

/// (base prefix_len, new prefix_len, relation, difference, anchor)
fn geometry(r: &mut Rng) -> (usize, usize, &'static str, usize, usize) {
    let anchor = *r.pick(&ANCHORS);
    let t = (anchor as isize + r.below(5) as isize - 2).clamp(0, 255) as usize;
    let mut diff = *r.pick(&DIFFS);
    if diff == 0 {
        return (t, t, "same", 0, anchor);
    }
    // the anchored length is the lower or the higher of the two
    let (lo, hi) = if r.chance(1, 2) && t + diff <= 255 {
        (t, t + diff)
    } else if t >= diff {
        (t - diff, t)
    } else if t + diff <= 255 {
        (t, t + diff)
    } else {
        diff = t;
        (0, t)
    };
    if diff == 0 {
        return (t, t, "same", 0, anchor);
    }
    if r.chance(1, 2) {
        (hi, lo, "shrink", diff, anchor)
    } else {
        (lo, hi, "grow", diff, anchor)
    }
}

fn node_pointer_at(page: &[u8], n: usize, i: usize) -> u32 {
    let off = PAGE - (n - i) * 4;
    u32::from_le_bytes(page[off..off + 4].try_into().unwrap())
}

fn case(r: &mut Rng, out: &mut Sink) {
    let (pb, pl_new, rel, diff, anchor) = geometry(r);
    let s = pb.max(pl_new);
    // ---- the base node
    let first_short = s >= 2 && r.chance(if rel == "shrink" { 3 } else { 2 }, 5);
    let mut stem = r.bytes32();
    let mut keys: Vec<Key> = Vec::new();
    if first_short {
        // key 0 = the first c bits of the stem, c < pb-ish, and the stem is zero from c to s: finding F22's shape
        let c = match r.below(3) {
            0 => 0,
            1 => r.below(s.min(pb.max(1))),
            _ => s.min(pb.max(1)) - 1,
        };
        for i in c..s {
            sbit(&mut stem, i, false);
        }
        keys.push(prefix_padded(&stem, c));
    }
    let n_chunkable = match r.below(6) {
        0 => 1,
        1 => 2,
        2 => r.range(20, 60),
        _ => r.range(3, 12),
    };
    let mut guard = 0;
    while keys.len() < n_chunkable + first_short as usize && guard < 200 {
        guard += 1;
        let k = with_prefix(r, &stem, s);
        let cut = match r.below(5) {
            0 => 256,
            1 => (s + 1).min(256),
            _ => (s + 1 + r.below(70)).min(256),
        };
        let k = prefix_padded(&k, cut);
        if !keys.contains(&k) && (!first_short || k > keys[0]) {
            keys.push(k);
        }
    }
    // base keys sharing the base prefix but not the longer new one (only when the prefix grows)
    if s > pb && r.chance(1, 2) {
        for _ in 0..r.range(1, 3) {
            let d = r.range(pb, s - 1);
            let k = diverge_at(r, &stem, d);
            let k = prefix_padded(&k, (d + 1 + r.below(30)).min(256));
            if !keys.contains(&k) && (!first_short || k > keys[0]) {
                keys.push(k);
            }
        }
    }
    keys.sort();
    let pc_base = keys.len();
    let mut items: Vec<Item> = keys.into_iter().map(|k| item(r, k)).collect();
    if pb > common_prefix(&items) {
        // cannot happen by construction; keep the run honest
        out.count("pc_skipped_generator");
        return;
    }
    // an uncompressed tail
    if r.chance(2, 5) {
        let sh = r.below(8);
        let nt = r.range(1, 3);
        let mut tail = gen_items(r, nt, sh);
        tail.retain(|o| o.key > items.last().unwrap().key);
        items.extend(tail);
    }
    let n_base = items.len();
    let initial = fill(r, PAGE);
    let base_steps: Vec<realnode::Step> = items.iter().map(|it| realnode::Step::Push(it.key, it.sep_len, it.pn)).collect();
    let line = node_line(&initial, n_base, pc_base, pb, None, &base_steps);
    let Some(base_page) = build_real(&initial, n_base, pc_base, pb, None, &base_steps) else {
        out.line(line.clone(), "panic".into());
        out.fail(format!("C16 pushchunk: BranchNodeBuilder::push panicked on a well-formed base node: {}", &line[line.len().saturating_sub(300)..]));
        return;
    };
    out.line(line.clone(), hx(&base_page));
    check_keys(out, "pushed base node", &base_page, &items, &line[line.len().saturating_sub(300)..]);

    // ---- the range that may be kept under the new prefix
    let lo = (0..pc_base).find(|&i| naive_prefix_len(&items[i].key, &stem) >= s || (first_short && i == 0)).unwrap_or(0);
    let mut hi = lo;
    while hi < pc_base && (naive_prefix_len(&items[hi].key, &stem) >= s || (first_short && hi == 0)) {
        hi += 1;
    }
    if hi == lo {
        out.count("pc_skipped_generator");
        return;
    }
    let len_kind = if rel == "same" { *r.pick(&["zero", "zero", "one", "all", "sub"]) } else { *r.pick(&["zero", "one", "all", "all", "sub", "sub"]) };
    let (from, to) = match len_kind {
        "zero" => {
            let f = r.range(lo, hi).min(n_base - 1);
            (f, f)
        }
        "one" => {
            let f = if first_short && r.chance(2, 3) { lo } else { r.range(lo, hi - 1) };
            (f, f + 1)
        }
        "all" => (lo, hi),
        _ => {
            let f = if first_short && r.chance(2, 3) { lo } else { r.range(lo, hi - 1) };
            (f, r.range(f + 1, hi))
        }
    };
    let whole_node = from == 0 && to == n_base;

    // ---- malformed requests
    let malformed = if r.chance(1, 5) { *r.pick(&["cross-pc", "cross-pc", "to<from", "to>n", "base-uncompressed", "base-uncompressed", "base-uncompressed", "empty-at-n"]) } else { "" };

    // ---- steps: pushes in front, the kept range in segments, pushes behind
    let mut expected: Vec<Item> = Vec::new();
    let mut steps: Vec<realnode::Step> = Vec::new();
    let mut sig = String::new();
    if from < pc_base && (r.chance(1, 3) || (from == to && r.chance(1, 2))) && !(first_short && from == 0) {
        for _ in 0..r.range(1, 2) {
            let sh = (pl_new + r.below(20)).min(255);
            let k = with_prefix(r, &items[from].key, sh);
            let k = prefix_padded(&k, (sh + 1 + r.below(40)).min(256));
            if k < items[from].key && !expected.iter().any(|b: &Item| b.key == k) && naive_prefix_len(&k, &items[from].key) >= pl_new {
                expected.push(item(r, k));
            }
        }
        expected.sort_by(|a, b| a.key.cmp(&b.key));
        for b in &expected {
            steps.push(realnode::Step::Push(b.key, b.sep_len, b.pn));
        }
        if !expected.is_empty() {
            sig.push('P');
        }
    }
    // segments of [from, to)
    let mut cuts = vec![from, to];
    if to - from >= 2 {
        for _ in 0..r.below(3) {
            cuts.push(r.range(from + 1, to - 1));
        }
    }
    cuts.sort();
    cuts.dedup();
    if cuts.len() == 1 {
        cuts.push(to);
    }
    let n_seg = cuts.len() - 1;
    let forced_chunk = r.below(n_seg);
    let mut upd_kind = "none";
    let mut first_call = false;
    let mut not_first_call = false;
    let mut chunk_indices: Vec<(usize, usize, usize)> = Vec::new(); // (step index, index in the new node, items)
    for sgm in 0..n_seg {
        let (a, b) = (cuts[sgm], cuts[sgm + 1]);
        if sgm == forced_chunk || r.chance(1, 2) {
            let index = expected.len();
            if steps.is_empty() {
                first_call = true;
            } else {
                not_first_call = true;
            }
            let mut updated: Vec<(usize, u32)> = Vec::new();
            for i in 0..(b - a) {
                let mut it = items[a + i].clone();
                if r.chance(1, 4) {
                    it.pn = r.next() as u32;
                    updated.push((i, it.pn));
                    upd_kind = "inside";
                }
                expected.push(it);
            }
            chunk_indices.push((steps.len(), index, b - a));
            steps.push(realnode::Step::Chunk { from: a, to: b, updated });
            sig.push('C');
        } else {
            for i in a..b {
                let it = items[i].clone();
                steps.push(realnode::Step::Push(it.key, it.sep_len, it.pn));
                expected.push(it);
            }
            if !sig.ends_with('P') {
                sig.push('P');
            }
        }
    }
    // pushes behind: compressed ones sharing the new prefix, then uncompressed ones
    if !expected.is_empty() && (r.chance(1, 3) || from == to) {
        let mut more: Vec<Item> = Vec::new();
        for _ in 0..r.range(1, 2) {
            let sh = (pl_new + r.below(10)).min(255);
            let k = with_prefix(r, &expected[0].key, sh);
            let k = prefix_padded(&k, (sh + 1 + r.below(40)).min(256));
            if k > expected.last().unwrap().key && !more.iter().any(|b: &Item| b.key == k) {
                more.push(item(r, k));
            }
        }
        more.sort_by(|a, b| a.key.cmp(&b.key));
        for m in more {
            steps.push(realnode::Step::Push(m.key, m.sep_len, m.pn));
            expected.push(m);
            if !sig.ends_with('P') {
                sig.push('P');
            }
        }
    }
    let pc_new = expected.len();
    if (!expected.is_empty() && r.chance(1, 3)) || (from == to && r.chance(2, 3)) {
        let sh = r.below(8);
        let na = r.range(1, 3);
        let mut after = gen_items(r, na, sh);
        after.retain(|o| expected.last().map(|e| o.key > e.key).unwrap_or(true));
        for a in after {
            steps.push(realnode::Step::Push(a.key, a.sep_len, a.pn));
            expected.push(a);
            if !sig.ends_with('U') {
                sig.push('U');
            }
        }
    }
    let n_new = expected.len();
    let (mut n_hdr, mut pc_hdr) = (n_new, pc_new);
    let mut kind = "valid";
    // `updated` entries behind the chunk
    if malformed.is_empty() && r.chance(1, 4) {
        let (si, index, n_items) = *r.pick(&chunk_indices);
        let later = n_new - (index + n_items);
        let (i, what) = if later > 0 && r.chance(3, 4) { (n_items + r.below(later), "outside_overwritten") } else { (n_new - index + r.below(3), "outside_behind_node") };
        if let realnode::Step::Chunk { updated, .. } = &mut steps[si] {
            updated.push((i, r.next() as u32));
        }
        upd_kind = what;
        if what == "outside_behind_node" {
            kind = "upd-behind-node";
        }
    }
    match malformed {
        "cross-pc" => {
            // the header announces fewer compressed separators than the chunk brings
            let (_, index, n_items) = *r.pick(&chunk_indices);
            if n_items > 0 {
                pc_hdr = index + r.below(n_items);
                kind = "cross-pc";
            }
        }
        "to<from" => {
            let (si, _, n_items) = *r.pick(&chunk_indices);
            if n_items > 0 {
                if let realnode::Step::Chunk { from, to, .. } = &mut steps[si] {
                    std::mem::swap(from, to);
                }
                kind = "to<from";
            }
        }
        "to>n" => {
            let (si, _, _) = *chunk_indices.last().unwrap();
            if let realnode::Step::Chunk { to, .. } = &mut steps[si] {
                *to = n_base + r.range(1, 3);
            }
            n_hdr = n_new + 70;
            pc_hdr = pc_new + 70;
            kind = "to>n";
        }
        "base-uncompressed" => {
            if n_base > pc_base {
                let (si, _, _) = *chunk_indices.last().unwrap();
                let extra;
                if let realnode::Step::Chunk { to, .. } = &mut steps[si] {
                    extra = n_base - *to;
                    *to = n_base;
                } else {
                    extra = 0;
                }
                n_hdr = n_new + extra;
                pc_hdr = pc_new + extra;
                kind = "base-uncompressed";
            }
        }
        "empty-at-n" => {
            steps = vec![realnode::Step::Chunk { from: n_base, to: n_base, updated: vec![] }];
            for e in &expected {
                steps.push(realnode::Step::Push(e.key, e.sep_len, e.pn));
            }
            kind = "empty-at-n";
        }
        _ => {}
    }
    if n_hdr == 0 {
        // a node of no separators (only an empty chunk): still a request the builder takes
        kind = if kind == "valid" { "valid-empty-node" } else { kind };
    }
    // an EMPTY chunk is not a no-op on the fast path (equal prefix lengths): `raw_separators_mut(index, index)` and
    // `raw_separators(from, from)` read `cell(to - 1)`, which underflows for index = 0 resp. from = 0 (the slow path returns early)
    if kind == "valid" && rel == "same" {
        let hit = chunk_indices.iter().any(|(si, index, n_items)| {
            *n_items == 0 && (*index == 0 || matches!(&steps[*si], realnode::Step::Chunk { from: 0, .. }))
        });
        if hit {
            kind = "empty-chunk-fast-path-underflow";
        }
    }
    if kind == "valid" && pc_new > 0 && pl_new > common_prefix(&expected[..pc_new]) {
        kind = "prefix-too-long";
    }
    let initial = fill(r, PAGE);
    let line = node_line(&initial, n_hdr, pc_hdr, pl_new, Some(&base_page), &steps);
    let tail = line[line.len().saturating_sub(400)..].to_string();
    out.nontrivial(&line);
    out.count(&format!("pc_kind_{kind}"));
    let got = build_real(&initial, n_hdr, pc_hdr, pl_new, Some(&base_page), &steps);
    out.line(line.clone(), got.as_ref().map(|p| hx(p)).unwrap_or("panic".into()));
    if got.is_none() {
        out.count(&format!("pc_panic_{kind}"));
    }
    if kind == "cross-pc" && got.is_some() {
        out.fail(format!("C16 pushchunk: a chunk crossing prefix_compressed = {pc_hdr} did not panic: {tail}"));
    }
    // the four points of an EMPTY chunk: equal prefix with from = 0 / with index = 0 / with both positive, different prefix
    if kind == "valid" || kind == "empty-chunk-fast-path-underflow" {
        for (si, index, n_items) in &chunk_indices {
            if *n_items != 0 {
                continue;
            }
            let realnode::Step::Chunk { from, .. } = &steps[*si] else { continue };
            let point = if rel != "same" {
                "different_prefix"
            } else if *from == 0 && *index == 0 {
                "equal_prefix_from0_index0"
            } else if *from == 0 {
                "equal_prefix_from0"
            } else if *index == 0 {
                "equal_prefix_index0"
            } else {
                "equal_prefix_from_and_index_positive"
            };
            out.count(&format!("pc_empty_chunk_{point}_{}", if got.is_some() { "noop" } else { "panic" }));
        }
    }
    // a chunk reaching past the BASE's prefix_compressed (only a comment in the Rust): what comes out
    if kind == "base-uncompressed" {
        if let Some(page) = &got {
            let (si, index, _) = *chunk_indices.last().unwrap();
            if let realnode::Step::Chunk { from, to, .. } = &steps[si] {
                let mut garbage = 0;
                for k in 0..(to - from) {
                    if from + k < pc_base {
                        continue;
                    }
                    let a = catch_unwind(AssertUnwindSafe(|| realnode::get_key(page, index + k))).ok();
                    if a != Some(items[from + k].key) {
                        garbage += 1;
                    }
                }
                out.count(if garbage > 0 { "pc_base_uncompressed_no_panic_garbage_keys" } else { "pc_base_uncompressed_no_panic_keys_right" });
                out.add("pc_base_uncompressed_garbage_keys", garbage);
            }
        }
    }
    if kind == "empty-chunk-fast-path-underflow" && got.is_some() {
        out.fail(format!("C16 pushchunk: an empty chunk at index 0 / from 0 under an equal prefix was expected to panic (cell(to - 1)) and did not: {tail}"));
    }
    if kind != "valid" {
        return;
    }
    // ---- counters of the geometry
    out.count(&format!("pc_prefix_{rel}"));
    out.count(&format!("pc_diff_{diff}"));
    out.count(&format!("pc_anchor_{anchor}"));
    out.count(&format!("pc_len_{len_kind}"));
    if whole_node {
        out.count("pc_len_whole_node");
    }
    out.count(&format!("pc_updated_{upd_kind}"));
    out.count(&format!("pc_interleave_{sig}"));
    if first_call {
        out.count("pc_chunk_is_first_call");
    }
    if not_first_call {
        out.count("pc_chunk_is_later_call");
    }
    let short_kept = steps.iter().any(|s| matches!(s, realnode::Step::Chunk { from: 0, to, .. } if *to > 0)) && items[0].sep_len < pb;
    if short_kept {
        out.count(&format!("pc_first_separator_shorter_than_prefix_{rel}"));
        if items[0].key == [0u8; 32] {
            out.count("pc_first_separator_zero_key");
        }
    }
    let Some(page) = got else {
        out.fail(format!("C16 pushchunk: BranchNodeBuilder::push_chunk panicked on a well-formed request ({rel} by {diff}, base prefix {pb}): {tail}"));
        return;
    };
    // ---- oracle 1: key by key against the base node (real get_key on both) and the node pointers
    check_keys(out, "node built with push_chunk", &page, &expected, &tail);
    for (si, index, n_items) in &chunk_indices {
        let realnode::Step::Chunk { from, updated, .. } = &steps[*si] else { continue };
        for k in 0..*n_items {
            let a = catch_unwind(AssertUnwindSafe(|| realnode::get_key(&page, index + k))).ok();
            let b = catch_unwind(AssertUnwindSafe(|| realnode::get_key(&base_page, from + k))).ok();
            if a.is_none() || a != b {
                out.fail(format!(
                    "C16 pushchunk: get_key(new, {}) = {} but get_key(base, {}) = {} ({rel} by {diff}, base prefix {pb}): {tail}",
                    index + k,
                    a.map(|k| hex(&k)).unwrap_or("panic".into()),
                    from + k,
                    b.map(|k| hex(&k)).unwrap_or("panic".into())
                ));
            }
            let want = updated.iter().rev().find(|(i, _)| *i == k).map(|(_, pn)| *pn).unwrap_or(node_pointer_at(&base_page, n_base, from + k));
            let have = node_pointer_at(&page, n_new, index + k);
            if want != have {
                out.fail(format!("C16 pushchunk: node pointer {} of the new node is {have}, the base's / updated one is {want}: {tail}", index + k));
            }
            out.count("pc_kept_separators_checked");
        }
    }
    // ---- oracle 2: the same node from a second real builder fed one by one
    let ref_steps: Vec<realnode::Step> = expected.iter().map(|it| realnode::Step::Push(it.key, it.sep_len, it.pn)).collect();
    let Some(ref_page) = build_real(&initial, n_hdr, pc_hdr, pl_new, None, &ref_steps) else {
        out.fail(format!("C16 pushchunk: the one-by-one builder panicked where push_chunk did not: {tail}"));
        return;
    };
    let mut decoded_equal = true;
    for i in 0..n_new {
        let a = catch_unwind(AssertUnwindSafe(|| realnode::get_key(&page, i))).ok();
        let b = catch_unwind(AssertUnwindSafe(|| realnode::get_key(&ref_page, i))).ok();
        if a.is_none() || a != b || node_pointer_at(&page, n_new, i) != node_pointer_at(&ref_page, n_new, i) {
            decoded_equal = false;
            out.fail(format!(
                "C16 pushchunk: separator {i} decodes to {} / pn {} after push_chunk but to {} / pn {} after one-by-one pushes ({rel} by {diff}, base prefix {pb}): {tail}",
                a.map(|k| hex(&k)).unwrap_or("panic".into()),
                node_pointer_at(&page, n_new, i),
                b.map(|k| hex(&k)).unwrap_or("panic".into()),
                node_pointer_at(&ref_page, n_new, i)
            ));
            break;
        }
    }
    if page[..10] != ref_page[..10] {
        decoded_equal = false;
        out.fail(format!("C16 pushchunk: the headers differ between push_chunk and one-by-one pushes: {tail}"));
    }
    if decoded_equal {
        out.count("pc_decoded_equal");
    }
    // the separator bits the node holds = its last cell: a short first separator kept under a shrinking prefix takes `diff` bits
    // where a push takes none (F22: the caller's gauge counts the push's length)
    if n_new > 0 {
        let cell = |p: &[u8]| u16::from_le_bytes([p[10 + 2 * (n_new - 1)], p[11 + 2 * (n_new - 1)]]) as u64;
        let (a, b) = (cell(&page), cell(&ref_page));
        if a > b {
            out.count("pc_more_separator_bits_than_one_by_one");
            out.add("pc_extra_separator_bits", a - b);
        } else if a < b {
            out.fail(format!("C16 pushchunk: the node built with push_chunk holds FEWER separator bits ({a}) than the one-by-one node ({b}): {tail}"));
        }
    }
    if page == ref_page {
        out.count("pc_bytes_equal");
    } else {
        out.count("pc_bytes_differ");
        if short_kept {
            out.count("pc_bytes_differ_first_separator_short");
        } else {
            let fd = (0..PAGE).find(|&i| page[i] != ref_page[i]).unwrap();
            out.count(&format!("pc_bytes_differ_other_{rel}"));
            out.samples.push(format!("bytes differ (not the short first separator): {rel} by {diff}, base prefix {pb}, first_short {first_short}, first differing byte {fd}, n {n_new}, pc {pc_new}, steps {}", &tail[tail.len().saturating_sub(160)..]));
        }
        if page[10..10 + 2 * n_new] != ref_page[10..10 + 2 * n_new] {
            out.count("pc_cells_differ");
        }
    }
}

pub fn run(seed: u64, cases: usize, out: &mut Sink) {
    let mut rng = Rng::new(seed ^ 0x9C48);
    for c in 0..cases {
        let mut r = rng.fork();
        out.mark_case(format!("case {c}"));
        case(&mut r, out);
    }
}
