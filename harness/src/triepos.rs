//! C02 / C05 / C16 (+ C13): the addressing glue between "bit path in the trie" and "(page id, node index)":
//! the real `TriePosition`, `PageId`, `PageIdsIterator`, `ChildPageIndex`, `ChildNodeIndices` (public in `nomt_core`) and
//! the real `PageRegion`, `shard_regions` / `shard_index_for`, `PageMut` / `Page` node + elided-children layout,
//! `ElidedChildren` (through `nomt::verif_api::page_addr`, cfg nomt_verif).
//! Every step is one protocol line for the Lean driver's `triepos` mode (the mirrors of `Core/TriePos.lean`,
//! `Api/PageRegionModel.lean`, `Store/PageLayout.lean`) and is checked against harness-side oracles that do not
//! depend on the model:
//!   * C02 slot oracle: node index = 2^r - 2 + value(last r bits), page id = sextets of the first 6*floor((d-1)/6) bits,
//!     computed from the path bits alone; `< 126`; no two different paths of the run share a (page id, node index) slot;
//!   * C02 move oracle: `down` then `up(1)` gives the same position back, `sibling` twice is the identity and flips
//!     exactly the last bit, the children named by `child_node_indices` are the indices `down` reaches;
//!   * C05 path oracle: `PageIdsIterator` yields the page ids of the positions along the key, root first; `min/max_key_path`
//!     bracket a key iff the page lies on its path; `is_descendant_of` / `Ord` agree with prefix order;
//!   * C13 region oracle: `contains_exclusive` of a region = descendant test; shard regions are pairwise exclusive and
//!     `shard_index_for` names the owner;
//!   * C16 layout oracle: `set_node(i)` changes exactly bytes `[32i, 32i+32)`, `node(i)` reads them back, label and
//!     elided-children bytes are disjoint from every node slot.
use crate::util::*;
use bitvec::prelude::*;
use nomt::verif_api::page_addr::{elided_get, elided_set, shard_index_for, shard_regions, PageSim, RegionSim};
use nomt_core::page_id::{ChildPageIdError, ChildPageIndex, PageId, PageIdsIterator, ROOT_PAGE_ID};
use nomt_core::trie_pos::{ChildNodeIndices, TriePosition};
use std::collections::HashMap;
use std::panic::{catch_unwind, AssertUnwindSafe};

fn guard<T>(f: impl FnOnce() -> T) -> Option<T> {
    catch_unwind(AssertUnwindSafe(f)).ok()
}

fn path_str(p: &[u8]) -> String {
    if p.is_empty() {
        "-".into()
    } else {
        p.iter().map(|x| x.to_string()).collect::<Vec<_>>().join(".")
    }
}
fn pid_str(p: &PageId) -> String {
    path_str(p.length_dependent_encoding())
}
/// the real page id of a path of child indices (each < 64, at most 42 of them)
fn mk_pid(path: &[u8]) -> PageId {
    let mut p = ROOT_PAGE_ID;
    for &c in path {
        p = p.child_page_id(ChildPageIndex::new(c).unwrap()).unwrap();
    }
    p
}

fn state_str(p: &TriePosition) -> String {
    format!("{}/{}/{}", hex(&p.raw_path()), p.depth(), p.node_index())
}

fn bits_of(k: &Key, n: usize) -> Vec<bool> {
    (0..n).map(|i| bit(k, i)).collect()
}
fn bits_string(b: &[bool]) -> String {
    if b.is_empty() {
        "-".into()
    } else {
        b.iter().map(|&x| if x { '1' } else { '0' }).collect()
    }
}

// ------------------------------------------------------------------------------------------------------------------
// harness-side specification (independent of the Lean model)

fn spec_index(bits: &[bool]) -> usize {
    let d = bits.len();
    if d == 0 {
        return 0;
    }
    let r = (d - 1) % 6 + 1;
    let mut v = 0usize;
    for &b in &bits[d - r..] {
        v = v * 2 + b as usize;
    }
    (1usize << r) - 2 + v
}
fn spec_page(bits: &[bool]) -> Vec<u8> {
    let d = bits.len();
    if d == 0 {
        return vec![];
    }
    let n = (d - 1) / 6;
    (0..n).map(|i| bits[6 * i..6 * i + 6].iter().fold(0u8, |a, &b| a * 2 + b as u8)).collect()
}

struct Ctx<'a> {
    out: &'a mut Sink,
    slots: HashMap<(Vec<u8>, usize), Vec<bool>>,
}

impl<'a> Ctx<'a> {
    fn check_pos(&mut self, p: &TriePosition, what: &str) {
        let d = p.depth() as usize;
        let raw = p.raw_path();
        let bits = bits_of(&raw, d);
        let ni = p.node_index();
        if ni != spec_index(&bits) {
            self.out.fail(format!("C02 node_index {} of position {} ({what}) is not 2^r-2+value = {}", ni, bits_string(&bits), spec_index(&bits)));
        }
        if d > 0 && ni >= 126 {
            self.out.fail(format!("C02 node_index {} out of the page ({what}) at {}", ni, bits_string(&bits)));
        }
        if d > 0 && p.sibling_index() >= 126 {
            self.out.fail(format!("C02 sibling_index {} out of the page ({what})", p.sibling_index()));
        }
        match guard(|| p.page_id()) {
            None => self.out.fail(format!("C02 page_id panicked at {} ({what})", bits_string(&bits))),
            Some(None) => {
                if d != 0 {
                    self.out.fail(format!("C02 page_id is None at depth {d} ({what})"));
                }
            }
            Some(Some(pid)) => {
                let want = spec_page(&bits);
                if d == 0 || pid.length_dependent_encoding() != &want[..] {
                    self.out.fail(format!("C02 page_id {} of position {} ({what}) is not the sextets of its first bits {}", pid_str(&pid), bits_string(&bits), path_str(&want)));
                }
                let key = (want, ni);
                match self.slots.get(&key) {
                    Some(other) if other != &bits => {
                        self.out.fail(format!("C02 two positions share a page slot: {} and {} both at page {} index {}", bits_string(other), bits_string(&bits), path_str(&key.0), ni));
                    }
                    Some(_) => {}
                    None => {
                        self.slots.insert(key, bits.clone());
                    }
                }
            }
        }
        if p.path().len() != d || p.path().iter().by_vals().collect::<Vec<bool>>() != bits {
            self.out.fail(format!("C02 path() is not the first depth bits of raw_path ({what})"));
        }
    }

    fn query(&mut self, p: &TriePosition) {
        let d = p.depth() as usize;
        let last = match guard(|| p.peek_last_bit()) {
            Some(b) => (b as u8).to_string(),
            None => "panic".into(),
        };
        let pid = match guard(|| p.page_id()) {
            Some(Some(x)) => pid_str(&x),
            Some(None) => "none".into(),
            None => "panic".into(),
        };
        let cpi = match guard(|| p.child_page_index().to_u8()) {
            Some(c) => c.to_string(),
            None => "panic".into(),
        };
        let scpi = match guard(|| p.sibling_child_page_index().to_u8()) {
            Some(c) => c.to_string(),
            None => "panic".into(),
        };
        let cni = match guard(|| p.child_node_indices()) {
            Some(c) => format!("{},{},{}", c.left(), c.right(), c.in_next_page() as u8),
            None => "panic".into(),
        };
        let ans = format!(
            "root={} depth={} path={} last={} pid={} cpi={} scpi={} cni={} sib={} ni={} dip={} first={}",
            p.is_root() as u8,
            d,
            bits_string(&bits_of(&p.raw_path(), d)),
            last,
            pid,
            cpi,
            scpi,
            cni,
            p.sibling_index(),
            p.node_index(),
            p.depth_in_page(),
            p.is_first_layer_in_page() as u8
        );
        self.out.line("q".into(), ans);
        self.out.count(&format!("pos_depth_mod6_{}", d % 6));
        self.out.count(match d {
            0 => "pos_depth_0",
            1..=6 => "pos_depth_1_6",
            7..=42 => "pos_depth_7_42",
            43..=246 => "pos_depth_43_246",
            247..=255 => "pos_depth_247_255",
            _ => "pos_depth_256",
        });
        // oracles that relate the answers to each other
        if d > 0 {
            let r = (d - 1) % 6 + 1;
            if p.depth_in_page() != r {
                self.out.fail(format!("C02 depth_in_page {} at depth {d}", p.depth_in_page()));
            }
            if p.is_first_layer_in_page() != (r == 1) {
                self.out.fail(format!("C02 is_first_layer_in_page wrong at depth {d}"));
            }
            if cpi != "panic" && r != 6 {
                self.out.fail(format!("C02 child_page_index answered {cpi} above the bottom layer (depth {d})"));
            }
            if r == 6 {
                let want = bits_of(&p.raw_path(), d)[d - 6..].iter().fold(0u8, |a, &b| a * 2 + b as u8);
                if cpi != want.to_string() {
                    self.out.fail(format!("C02 child_page_index {cpi} is not the last sextet {want} (depth {d})"));
                }
                if scpi != (want ^ 1).to_string() {
                    self.out.fail(format!("C02 sibling_child_page_index {scpi} is not the sibling's sextet {} (depth {d})", want ^ 1));
                }
            }
        }
    }
}

fn interesting_pos_depth(r: &mut Rng) -> usize {
    match r.below(9) {
        0 => 6 * r.range(1, 42),                 // d ≡ 0: bottom layer of a page
        1 => 6 * r.range(0, 42) + 1,             // d ≡ 1: first layer
        2 => 6 * r.range(0, 41) + 5,             // d ≡ 5
        3 => *r.pick(&[1usize, 2, 5, 6, 7, 12, 13, 246, 247, 251, 252, 253, 254, 255, 256]),
        4 => r.range(250, 256),
        5 => r.range(1, 13),
        _ => r.range(1, 256),
    }
}
fn flavoured_key(r: &mut Rng) -> Key {
    match r.below(6) {
        0 => [0u8; 32],
        1 => [0xffu8; 32],
        2 => {
            let mut k = if r.chance(1, 2) { [0u8; 32] } else { [0xffu8; 32] };
            let i = r.below(256);
            set_bit(&mut k, i, r.chance(1, 2));
            k
        }
        3 => {
            // sextets all 0 or all 63 with one odd group
            let mut k = [0u8; 32];
            for g in 0..42 {
                let v = *r.pick(&[0u8, 63, 63, 0, 1, 62, 32, 31]);
                for j in 0..6 {
                    set_bit(&mut k, 6 * g + j, (v >> (5 - j)) & 1 == 1);
                }
            }
            k
        }
        _ => r.bytes32(),
    }
}

fn run_positions(r: &mut Rng, case: usize, cx: &mut Ctx) {
    // ---- start
    let mut pos: TriePosition;
    let start_kind = r.below(10);
    let key = flavoured_key(r);
    match start_kind {
        0 => {
            pos = TriePosition::new();
            cx.out.line("new".into(), format!("ok {}", state_str(&pos)));
            cx.out.count("start_new");
        }
        1 | 2 => {
            let d = interesting_pos_depth(r);
            let bits = bits_of(&key, d);
            let bv: BitVec<u8, Msb0> = bits.iter().collect();
            match guard(|| TriePosition::from_bitslice(&bv)) {
                Some(p) => {
                    cx.out.line(format!("fbs {}", bits_string(&bits)), format!("ok {}", state_str(&p)));
                    pos = p;
                }
                None => {
                    cx.out.line(format!("fbs {}", bits_string(&bits)), "panic".into());
                    cx.out.fail(format!("C02 from_bitslice panicked on a slice of length {d}"));
                    return;
                }
            }
            cx.out.count("start_from_bitslice");
        }
        _ => {
            let d = interesting_pos_depth(r);
            match guard(|| TriePosition::from_path_and_depth(key, d as u16)) {
                Some(p) => {
                    cx.out.line(format!("fpd {} {}", hex(&key), d), format!("ok {}", state_str(&p)));
                    pos = p;
                }
                None => {
                    cx.out.line(format!("fpd {} {}", hex(&key), d), "panic".into());
                    cx.out.fail(format!("C02 from_path_and_depth panicked at depth {d}"));
                    return;
                }
            }
            cx.out.count("start_from_path_and_depth");
        }
    }
    cx.check_pos(&pos, "start");
    cx.query(&pos);
    // malformed constructors, now and then
    if r.chance(1, 6) {
        let d = *r.pick(&[0usize, 257, 258, 300, 1000, 65535]);
        let res = guard(|| TriePosition::from_path_and_depth(key, d as u16));
        cx.out.line(format!("fpdx {} {}", hex(&key), d), if res.is_some() { "ok".into() } else { "panic".into() });
        if res.is_some() {
            cx.out.fail(format!("C02 from_path_and_depth accepted depth {d}"));
        }
        cx.out.count("malformed_fpd");
    }
    if r.chance(1, 8) {
        let n = *r.pick(&[0usize, 257, 258, 300]);
        let bv: BitVec<u8, Msb0> = (0..n).map(|_| r.chance(1, 2)).collect();
        let res = guard(|| TriePosition::from_bitslice(&bv));
        let bits: Vec<bool> = bv.iter().by_vals().collect();
        cx.out.line(format!("fbsx {}", bits_string(&bits)), if res.is_some() { "ok".into() } else { "panic".into() });
        cx.out.count("malformed_fbs");
    }
    // ---- moves
    let nmoves = r.range(8, 40);
    let style = r.below(5); // 0: random; 1: descend to the bottom; 2: zig-zag around page boundaries; 3: climb; 4: siblings
    let mut sig = format!("{start_kind}/{}/", pos.depth());
    for _ in 0..nmoves {
        let d = pos.depth() as usize;
        let mv = match style {
            1 => *r.pick(&[0usize, 0, 0, 0, 0, 1, 2]),
            2 => {
                if d % 6 == 0 || d % 6 == 1 {
                    r.below(3)
                } else {
                    *r.pick(&[0usize, 0, 1])
                }
            }
            3 => *r.pick(&[1usize, 1, 1, 0, 2]),
            4 => *r.pick(&[2usize, 2, 0, 1]),
            _ => r.below(3),
        };
        let before = pos.clone();
        let before_bits = bits_of(&before.raw_path(), d);
        match mv {
            0 => {
                // down
                let b = match r.below(4) {
                    0 => false,
                    1 => true,
                    _ => bit(&key, d.min(255)),
                };
                // what child_node_indices promises (inside a page)
                let promised = guard(|| before.child_node_indices()).map(|c| if b { c.right() } else { c.left() });
                let ok = guard(|| pos.down(b)).is_some();
                if ok {
                    cx.out.line(format!("down {}", b as u8), format!("ok {}", state_str(&pos)));
                    cx.check_pos(&pos, "down");
                    let mut want = before_bits.clone();
                    want.push(b);
                    if bits_of(&pos.raw_path(), d + 1) != want {
                        cx.out.fail(format!("C02 down({}) from {} did not append the bit", b as u8, bits_string(&before_bits)));
                    }
                    match promised {
                        Some(i) if i != pos.node_index() => cx.out.fail(format!("C02 child_node_indices names {} but down reached {} (from {})", i, pos.node_index(), bits_string(&before_bits))),
                        Some(i) if i < 2 => cx.out.fail(format!("C02 child_node_indices left index {i} inside a page")),
                        None if d % 6 != 0 => cx.out.fail(format!("C02 child_node_indices panicked inside a page at depth {d}")),
                        None => {
                            // children in the next page: indices 0 / 1 = ChildNodeIndices::from_left(0)
                            let c = ChildNodeIndices::from_left(0);
                            if !(c.in_next_page() && pos.node_index() == if b { c.right() } else { c.left() }) {
                                cx.out.fail(format!("C02 first layer of the next page is not index 0/1 (depth {d})"));
                            }
                        }
                        _ => {}
                    }
                    // down then up(1)
                    let mut back = pos.clone();
                    if guard(|| back.up(1)).is_none() || back.depth() != before.depth() || back.node_index() != before.node_index() || back != before {
                        cx.out.fail(format!("C02 down then up(1) is not the identity at {}", bits_string(&before_bits)));
                    }
                    sig.push(if b { 'R' } else { 'L' });
                } else {
                    pos = before.clone();
                    cx.out.line(format!("down {}", b as u8), "panic".into());
                    if d != 256 {
                        cx.out.fail(format!("C02 down panicked at depth {d}"));
                    }
                    cx.out.count("panic_down_256");
                    sig.push('!');
                }
            }
            1 => {
                // up
                let dd = match r.below(10) {
                    0 => 0,
                    1 | 2 | 3 => 1,
                    4 => *r.pick(&[2usize, 5, 6, 7, 12]),
                    5 => d,
                    6 => d + 1,
                    7 => d.saturating_sub(1),
                    8 => *r.pick(&[257usize, 300, 65535]),
                    _ => r.below(d + 1),
                };
                let ok = guard(|| pos.up(dd as u16)).is_some();
                if ok {
                    cx.out.line(format!("up {dd}"), format!("ok {}", state_str(&pos)));
                    cx.check_pos(&pos, "up");
                    if dd > d || bits_of(&pos.raw_path(), d - dd) != before_bits[..d - dd] {
                        cx.out.fail(format!("C02 up({dd}) from {} is not the prefix", bits_string(&before_bits)));
                    }
                    // up(1) then down(last bit)
                    if dd == 1 {
                        let mut again = pos.clone();
                        let lb = before_bits[d - 1];
                        if guard(|| again.down(lb)).is_none() || again != before || again.node_index() != before.node_index() {
                            cx.out.fail(format!("C02 up(1) then down(last bit) is not the identity at {}", bits_string(&before_bits)));
                        }
                    }
                    sig.push_str(&format!("U{dd}"));
                    cx.out.count(if dd == 0 { "up_0" } else if (d + 5) / 6 == (d - dd + 5) / 6 { "up_same_page" } else if d == dd { "up_to_root" } else { "up_cross_page" });
                } else {
                    pos = before.clone();
                    cx.out.line(format!("up {dd}"), "panic".into());
                    if dd <= d {
                        cx.out.fail(format!("C02 up({dd}) panicked at depth {d}"));
                    }
                    cx.out.count("panic_up_too_far");
                    sig.push('!');
                }
            }
            _ => {
                let ok = guard(|| pos.sibling()).is_some();
                if ok {
                    cx.out.line("sibling".into(), format!("ok {}", state_str(&pos)));
                    cx.check_pos(&pos, "sibling");
                    let mut want = before_bits.clone();
                    want[d - 1] = !want[d - 1];
                    if bits_of(&pos.raw_path(), d) != want {
                        cx.out.fail(format!("C02 sibling of {} does not flip exactly the last bit", bits_string(&before_bits)));
                    }
                    if pos.node_index() != before.sibling_index() || pos.sibling_index() != before.node_index() {
                        cx.out.fail(format!("C02 sibling_index disagrees with sibling() at {}", bits_string(&before_bits)));
                    }
                    let mut twice = pos.clone();
                    if guard(|| twice.sibling()).is_none() || twice != before || twice.node_index() != before.node_index() {
                        cx.out.fail(format!("C02 sibling is not an involution at {}", bits_string(&before_bits)));
                    }
                    sig.push('S');
                } else {
                    pos = before.clone();
                    cx.out.line("sibling".into(), "panic".into());
                    if d != 0 {
                        cx.out.fail(format!("C02 sibling panicked at depth {d}"));
                    }
                    cx.out.count("panic_sibling_root");
                    sig.push('!');
                }
            }
        }
        cx.query(&pos);
        // relations to a key and to another position
        if r.chance(1, 4) {
            let nd = pos.depth() as usize;
            let k2 = match r.below(4) {
                0 => pos.raw_path(),
                1 if nd > 0 => flip_bit(&pos.raw_path(), r.below(nd)),
                2 if nd < 256 => flip_bit(&pos.raw_path(), nd + r.below(256 - nd)),
                _ => {
                    let pl = r.below(nd + 2).min(256);
                    with_prefix(r, &pos.raw_path(), pl)
                }
            };
            let ans = pos.subtrie_contains(&k2);
            cx.out.line(format!("contains {}", hex(&k2)), format!("{}", ans as u8));
            let want = (0..nd).all(|i| bit(&k2, i) == bit(&pos.raw_path(), i));
            if ans != want {
                cx.out.fail(format!("C02 subtrie_contains wrong at depth {nd}"));
            }
            // the page of the position lies on the key's page path
            if ans && nd > 0 {
                let on_path = PageIdsIterator::new(k2).nth((nd - 1) / 6);
                if on_path != pos.page_id() {
                    cx.out.fail(format!("C05 the page of a position containing a key is not the key's page at level {}", (nd - 1) / 6));
                }
            }
            cx.out.count("contains");
        }
        if r.chance(1, 5) {
            let od = r.below(257);
            let pl = interesting_depth(r);
            let ok2 = with_prefix(r, &pos.raw_path(), pl);
            let other = if od == 0 { TriePosition::new() } else { TriePosition::from_path_and_depth(ok2, od as u16) };
            let sd = pos.shared_depth(&other);
            cx.out.line(format!("shared {} {}", hex(&ok2), od), format!("{} eq={}", sd, (pos == other) as u8));
            let nd = pos.depth() as usize;
            let mut want = 0;
            while want < nd.min(od) && bit(&ok2, want) == bit(&pos.raw_path(), want) {
                want += 1;
            }
            if sd != want {
                cx.out.fail(format!("C02 shared_depth {sd} is not the common prefix length {want}"));
            }
            cx.out.count("shared");
        }
    }
    cx.out.nontrivial(&format!("pos:{sig}:{}", hex(&key[..8])));
    let _ = case;
}

// ------------------------------------------------------------------------------------------------------------------
// page ids

fn gen_pid_path(r: &mut Rng) -> Vec<u8> {
    let len = match r.below(8) {
        0 => 0,
        1 => 1,
        2 => *r.pick(&[9usize, 10, 11]), // the u64 / 256-bit switch of `encode`
        3 => *r.pick(&[40usize, 41, 42]),
        4 => 42,
        _ => r.below(43),
    };
    let style = r.below(5);
    (0..len)
        .map(|i| match style {
            0 => 0u8,
            1 => 63,
            2 => *r.pick(&[0u8, 63, 1, 62, 15, 16, 31, 32, 47]),
            3 if i == 0 => *r.pick(&[15u8, 31, 47, 63, 14, 16]), // (c+1) % 16 == 0: the depth-42 overflow shape
            _ => r.below(64) as u8,
        })
        .collect()
}

fn cmp_str(o: std::cmp::Ordering) -> &'static str {
    match o {
        std::cmp::Ordering::Less => "lt",
        std::cmp::Ordering::Equal => "eq",
        std::cmp::Ordering::Greater => "gt",
    }
}

fn run_pageids(r: &mut Rng, out: &mut Sink) {
    let path = gen_pid_path(r);
    let pid = mk_pid(&path);
    let minp = pid.min_key_path();
    let maxp = pid.max_key_path();
    out.line(
        format!("pid {}", path_str(&path)),
        format!(
            "depth={} enc={} parent={} min={} max={} maxdesc={}",
            pid.depth(),
            hex(&pid.encode()),
            pid_str(&pid.parent_page_id()),
            hex(&minp),
            hex(&maxp),
            pid_str(&pid.max_descendant())
        ),
    );
    out.count(&format!("pid_depth_{}", match path.len() { 0 => "0", 1..=9 => "1_9", 10..=41 => "10_41", _ => "42" }));
    out.nontrivial(&format!("pid:{}", path_str(&path)));
    // C05: min/max key paths bracket exactly the keys whose page path goes through this page
    for _ in 0..3 {
        let k = match r.below(4) {
            0 => minp,
            1 => maxp,
            2 => {
                let mut k = r.bytes32();
                for (i, &c) in path.iter().enumerate() {
                    for j in 0..6 {
                        set_bit(&mut k, 6 * i + j, (c >> (5 - j)) & 1 == 1);
                    }
                }
                if !path.is_empty() && r.chance(1, 2) {
                    let i = r.below(6 * path.len());
                    k = flip_bit(&k, i);
                }
                k
            }
            _ => r.bytes32(),
        };
        let inside = minp <= k && k <= maxp;
        let on_path = PageIdsIterator::new(k).nth(path.len()).map(|q| q == pid).unwrap_or(false);
        if inside != on_path {
            out.fail(format!("C05 min/max_key_path of page {} bracket key {} = {inside} but the page is on its path = {on_path}", path_str(&path), hex(&k)));
        }
    }
    if pid.parent_page_id().depth() + 1 != pid.depth().max(1) {
        out.fail(format!("C02 parent_page_id depth wrong for {}", path_str(&path)));
    }
    // child / parent round trip, incl. bad indices and the depth-42 overflow
    let c = match r.below(6) {
        0 => 64usize,
        1 => *r.pick(&[65usize, 128, 200, 255]),
        2 => 63,
        3 => 0,
        _ => r.below(64),
    };
    let ans = match ChildPageIndex::new(c as u8) {
        None => {
            out.count("malformed_child_index");
            "badindex".to_string()
        }
        Some(ci) => match pid.child_page_id(ci) {
            Ok(ch) => {
                if ch.parent_page_id() != pid || !ch.is_descendant_of(&pid) || ch.depth() != pid.depth() + 1 || ch.child_index_at_level(pid.depth()).to_u8() as usize != c {
                    out.fail(format!("C02 child_page_id / parent_page_id round trip broken at {} child {c}", path_str(&path)));
                }
                if !(ch > pid) {
                    out.fail(format!("C02 child page id not greater than its parent at {}", path_str(&path)));
                }
                format!("ok {}", pid_str(&ch))
            }
            Err(ChildPageIdError::PageIdOverflow) => {
                out.count("malformed_child_of_depth_42");
                if path.len() != 42 {
                    out.fail(format!("C02 child_page_id overflow at depth {}", path.len()));
                }
                "err overflow".to_string()
            }
        },
    };
    out.line(format!("pidchild {} {c}", path_str(&path)), ans);
    // child_index_at_level
    let rl = r.below(43);
    let lvl = *r.pick(&[0usize, path.len().saturating_sub(1), path.len(), path.len() + 1, rl]);
    let ans = match guard(|| pid.child_index_at_level(lvl).to_u8()) {
        Some(c) => c.to_string(),
        None => {
            out.count("malformed_level");
            "panic".into()
        }
    };
    out.line(format!("pidlevel {} {lvl}", path_str(&path)), ans);
    // relations
    let other = match r.below(6) {
        0 => path.clone(),
        1 => path[..r.below(path.len() + 1)].to_vec(),
        2 if path.len() < 42 => {
            let mut p = path.clone();
            let extra = r.range(1, 42 - path.len());
            for _ in 0..extra {
                let rc = r.below(64) as u8;
                p.push(*r.pick(&[0u8, 63, rc]));
            }
            p
        }
        3 if !path.is_empty() => {
            let mut p = path.clone();
            let i = r.below(p.len());
            p[i] = if r.chance(1, 2) { p[i].saturating_sub(1) } else { (p[i] + 1).min(63) };
            p
        }
        _ => gen_pid_path(r),
    };
    let opid = mk_pid(&other);
    let desc = pid.is_descendant_of(&opid);
    out.line(format!("pidrel {} {}", path_str(&path), path_str(&other)), format!("desc={} cmp={}", desc as u8, cmp_str(pid.cmp(&opid))));
    if desc != path.starts_with(&other) {
        out.fail(format!("C05 is_descendant_of disagrees with prefix order: {} vs {}", path_str(&path), path_str(&other)));
    }
    if pid.cmp(&opid) != path.cmp(&other) {
        out.fail(format!("C05 Ord of page ids is not the lexicographic order of child indices: {} vs {}", path_str(&path), path_str(&other)));
    }
    // descendant <=> within [p, max_descendant(p)]
    let within = opid <= pid && pid <= opid.max_descendant();
    if within != desc {
        out.fail(format!("C05 {} in [{}, max_descendant] = {within} but descendant = {desc}", path_str(&path), path_str(&other)));
    }
    // decode (known: not the inverse of encode)
    let bytes: [u8; 32] = match r.below(5) {
        0 => pid.encode(),
        1 => {
            // the documented representation: parent * 64 + child + 1
            let mut w = [0u8; 32];
            for &c in &path {
                // w = w * 64 + c + 1 on 256 bits
                let mut carry = (c as u32) + 1;
                for b in w.iter_mut().rev() {
                    let v = (*b as u32) * 64 + carry;
                    *b = (v & 0xff) as u8;
                    carry = v >> 8;
                }
            }
            w
        }
        2 => {
            let mut w = [0u8; 32];
            w[31 - r.below(4)] = r.below(256) as u8;
            w
        }
        3 => {
            let mut w = r.bytes32();
            w[0] = *r.pick(&[0u8, 0, 1, 15, 16, 17, 128]);
            w
        }
        _ => {
            let mut w = [16u8, 65, 4, 16, 65, 4, 16, 65, 4, 16, 65, 4, 16, 65, 4, 16, 65, 4, 16, 65, 4, 16, 65, 4, 16, 65, 4, 16, 65, 4, 16, 64];
            match r.below(3) {
                0 => {}
                1 => w[31] = 65,
                _ => w[31] = 63,
            }
            w
        }
    };
    let ans = match guard(|| PageId::decode(bytes)) {
        None => {
            out.fail(format!("C18 PageId::decode panicked on {}", hex(&bytes)));
            "panic".to_string()
        }
        Some(Err(_)) => "err".to_string(),
        Some(Ok(p)) => format!("ok {}", pid_str(&p)),
    };
    out.line(format!("piddecode {}", hex(&bytes)), ans);
    out.count("piddecode");
}

fn run_iter(r: &mut Rng, out: &mut Sink) {
    let key = flavoured_key(r);
    let n = *r.pick(&[1usize, 2, 7, 42, 43, 44, 50]);
    let items: Vec<PageId> = PageIdsIterator::new(key).take(n).collect();
    let total = PageIdsIterator::new(key).count();
    out.line(format!("pidsiter {} {n}", hex(&key)), format!("total={} {}", total, items.iter().map(pid_str).collect::<Vec<_>>().join(",")));
    out.nontrivial(&format!("iter:{}:{n}", hex(&key)));
    out.count("pidsiter");
    if total != 43 {
        out.fail(format!("C05 PageIdsIterator yields {total} page ids"));
    }
    // C05: exactly the pages of the positions along the key, root first
    let all: Vec<PageId> = PageIdsIterator::new(key).collect();
    for d in [1usize, 6, 7, 12, 13, 251, 252, 253, 256, r.range(1, 256), r.range(1, 256)] {
        let p = TriePosition::from_path_and_depth(key, d as u16);
        let want = p.page_id().unwrap();
        if all.get((d - 1) / 6) != Some(&want) {
            out.fail(format!("C05 PageIdsIterator item {} is not the page of the depth-{d} position of key {}", (d - 1) / 6, hex(&key)));
        }
    }
    for (i, p) in all.iter().enumerate() {
        if p.depth() != i || (i > 0 && p.parent_page_id() != all[i - 1]) {
            out.fail(format!("C05 PageIdsIterator item {i} is not the child of item {}", i.saturating_sub(1)));
        }
    }
    // ChildNodeIndices helper
    let rl = r.below(126);
    let left = *r.pick(&[0usize, 2, 4, 60, 124, rl]);
    let c = ChildNodeIndices::from_left(left);
    out.line(format!("cni {left}"), format!("{},{},{}", c.left(), c.right(), c.in_next_page() as u8));
}

// ------------------------------------------------------------------------------------------------------------------
// regions

#[derive(Clone)]
enum RegDesc {
    Universe,
    Page(Vec<u8>),
    Desc(Vec<u8>, u8, u8),
}
impl RegDesc {
    fn show(&self) -> String {
        match self {
            RegDesc::Universe => "U".into(),
            RegDesc::Page(p) => format!("P:{}", path_str(p)),
            RegDesc::Desc(p, lo, hi) => format!("D:{}:{}:{}", path_str(p), lo, hi),
        }
    }
    fn build(&self) -> Option<RegionSim> {
        let d = self.clone();
        guard(move || match d {
            RegDesc::Universe => RegionSim::universe(),
            RegDesc::Page(p) => RegionSim::from_page_id(mk_pid(&p)),
            RegDesc::Desc(p, lo, hi) => RegionSim::from_page_id_descendants(mk_pid(&p), ChildPageIndex::new(lo).unwrap(), ChildPageIndex::new(hi).unwrap()),
        })
    }
    /// harness-side meaning: the page ids owned exclusively
    fn owns(&self, q: &[u8]) -> bool {
        match self {
            RegDesc::Universe => true,
            RegDesc::Page(p) => q.starts_with(p),
            RegDesc::Desc(p, lo, hi) => q.len() > p.len() && q.starts_with(p) && *lo <= q[p.len()] && q[p.len()] <= *hi,
        }
    }
}

fn gen_region(r: &mut Rng, near: &[u8]) -> RegDesc {
    let base: Vec<u8> = match r.below(4) {
        0 => near[..r.below(near.len() + 1)].to_vec(),
        1 => vec![],
        _ => {
            let mut p = gen_pid_path(r);
            p.truncate(r.below(6));
            p
        }
    };
    match r.below(8) {
        0 => RegDesc::Universe,
        1 | 2 => RegDesc::Page(base),
        3 => RegDesc::Page(gen_pid_path(r)),
        _ => {
            let lo = r.below(64) as u8;
            let hi = match r.below(5) {
                0 => lo,
                1 => 63,
                2 if lo > 0 => lo - 1, // min > max: assert
                _ => (lo as usize + r.below(64 - lo as usize)) as u8,
            };
            let b = if r.chance(1, 12) { (0..42).map(|_| r.below(64) as u8).collect() } else { base };
            RegDesc::Desc(b, lo, hi)
        }
    }
}

fn near_pid(r: &mut Rng, d: &RegDesc) -> Vec<u8> {
    let (base, lo, hi) = match d {
        RegDesc::Universe => (vec![], 0u8, 63u8),
        RegDesc::Page(p) => (p.clone(), 0, 63),
        RegDesc::Desc(p, lo, hi) => (p.clone(), *lo, *hi),
    };
    let mut q = base.clone();
    match r.below(8) {
        0 => {}
        1 => {
            q.truncate(r.below(q.len() + 1));
        }
        2 if q.len() < 42 => q.push(lo),
        3 if q.len() < 42 => q.push(hi),
        4 if q.len() < 42 => q.push(lo.saturating_sub(1)),
        5 if q.len() < 42 => q.push((hi + 1).min(63)),
        6 if !q.is_empty() => {
            let i = r.below(q.len());
            q[i] = if r.chance(1, 2) { q[i].saturating_sub(1) } else { (q[i] + 1).min(63) };
        }
        _ => {
            if q.len() < 42 {
                q.push(r.below(64) as u8);
            }
        }
    }
    // extend downwards
    if r.chance(1, 2) && q.len() < 42 {
        let extra = r.range(0, 42 - q.len());
        for _ in 0..extra {
            let rc = r.below(64) as u8;
            q.push(*r.pick(&[0u8, 63, rc]));
        }
    }
    q
}

fn run_regions(r: &mut Rng, out: &mut Sink) {
    let a = gen_region(r, &[]);
    let ra = a.build();
    match &ra {
        None => {
            out.line(format!("reg {}", a.show()), "panic".into());
            out.count("malformed_region");
            let legit = match &a {
                RegDesc::Desc(p, lo, hi) => lo > hi || p.len() >= 42,
                _ => false,
            };
            if !legit {
                out.fail(format!("C13 PageRegion constructor panicked on {}", a.show()));
            }
            return;
        }
        Some(reg) => {
            out.line(format!("reg {}", a.show()), format!("min={} max={}", pid_str(&reg.exclusive_min()), pid_str(&reg.exclusive_max())));
        }
    }
    let ra = ra.unwrap();
    out.nontrivial(&format!("reg:{}", a.show()));
    out.count("regions");
    for _ in 0..4 {
        let q = near_pid(r, &a);
        let qp = mk_pid(&q);
        let ex = ra.contains_exclusive(&qp);
        let nonex = ra.contains_non_exclusive(&qp);
        out.line(format!("regq {} {}", a.show(), path_str(&q)), format!("ex={} nonex={} any={}", ex as u8, nonex as u8, ra.contains(&qp) as u8));
        if ex != a.owns(&q) {
            out.fail(format!("C13 region {} contains_exclusive({}) = {ex}, descendant test says {}", a.show(), path_str(&q), a.owns(&q)));
        }
        if ex && nonex {
            out.fail(format!("C13 region {} holds {} both exclusively and non-exclusively", a.show(), path_str(&q)));
        }
        out.count("region_queries");
    }
    // a second region: relation
    let near = match &a {
        RegDesc::Universe => vec![],
        RegDesc::Page(p) | RegDesc::Desc(p, _, _) => p.clone(),
    };
    let b = match r.below(4) {
        0 => match &a {
            // sibling range right after `a`
            RegDesc::Desc(p, _, hi) if *hi < 63 => RegDesc::Desc(p.clone(), hi + 1, (hi + 1 + r.below(63 - *hi as usize) as u8).min(63)),
            RegDesc::Page(p) if !p.is_empty() => {
                let mut q = p.clone();
                let l = q.len() - 1;
                q[l] = if q[l] < 63 { q[l] + 1 } else { q[l] - 1 };
                RegDesc::Page(q)
            }
            _ => gen_region(r, &near),
        },
        _ => gen_region(r, &near),
    };
    if let Some(rb) = b.build() {
        let (e1, e2, x1, x2) = (ra.encompasses(&rb), rb.encompasses(&ra), ra.excludes_unique(&rb), rb.excludes_unique(&ra));
        out.line(format!("regrel {} {}", a.show(), b.show()), format!("enc={} cne={} excl={} lcxe={}", e1 as u8, e2 as u8, x1 as u8, x2 as u8));
        if x1 != x2 {
            out.fail(format!("C13 excludes_unique is not symmetric on {} / {}", a.show(), b.show()));
        }
        // sampled page ids: exclusion means nobody owns a page of the other; encompassing means owning all of them
        for _ in 0..6 {
            let q = if r.chance(1, 2) { near_pid(r, &a) } else { near_pid(r, &b) };
            if x1 && a.owns(&q) && b.owns(&q) {
                out.fail(format!("C13 regions {} and {} claim to exclude each other but both own {}", a.show(), b.show(), path_str(&q)));
            }
            if e1 && b.owns(&q) && !a.owns(&q) {
                out.fail(format!("C13 region {} encompasses {} but does not own {}", a.show(), b.show(), path_str(&q)));
            }
        }
        out.count("region_relations");
    }
}

fn run_shards(r: &mut Rng, out: &mut Sink) {
    let n = match r.below(6) {
        0 => 0usize,
        1 => *r.pick(&[65usize, 66, 100, 128]),
        2 => *r.pick(&[1usize, 2, 3, 63, 64]),
        _ => r.range(1, 64),
    };
    match guard(|| shard_regions(n)) {
        None => {
            out.line(format!("shards {n}"), "panic".into());
            out.count("malformed_shard_count");
            if (1..=64).contains(&n) {
                out.fail(format!("C13 shard_regions({n}) panicked"));
            }
        }
        Some(regs) => {
            let s = regs.iter().map(|(reg, c)| format!("{}..{}#{}", pid_str(&reg.exclusive_min()), pid_str(&reg.exclusive_max()), c)).collect::<Vec<_>>().join(",");
            out.line(format!("shards {n}"), s);
            out.nontrivial(&format!("shards:{n}"));
            for i in 0..regs.len() {
                for j in 0..regs.len() {
                    if i != j && !regs[i].0.excludes_unique(&regs[j].0) {
                        out.fail(format!("C13 shard regions {i} and {j} of {n} overlap"));
                    }
                }
            }
            for a in 0..64usize {
                let idx = shard_index_for(n, a);
                let mut q = vec![a as u8];
                for _ in 0..r.below(4) {
                    q.push(r.below(64) as u8);
                }
                let owners: Vec<usize> = (0..regs.len()).filter(|&i| regs[i].0.contains_exclusive(&mk_pid(&q))).collect();
                if owners != vec![idx] {
                    out.fail(format!("C13 page {} is owned by shards {:?} of {n}, shard_index_for says {idx}", path_str(&q), owners));
                }
            }
        }
    }
    let a = r.below(64);
    if n > 0 {
        match guard(|| shard_index_for(n, a)) {
            Some(i) => out.line(format!("shardidx {n} {a}"), i.to_string()),
            None => out.line(format!("shardidx {n} {a}"), "panic".into()),
        }
    }
    out.count("shards");
}

// ------------------------------------------------------------------------------------------------------------------
// page layout

fn page_bytes(a: usize, b: usize, c: usize) -> Vec<u8> {
    (0..4096).map(|j| ((a * j + b * (j / 32) + c) % 256) as u8).collect()
}

fn diff_str(before: &[u8], after: &[u8]) -> String {
    let mut runs: Vec<String> = vec![];
    let mut i = 0;
    while i < before.len() {
        if before[i] != after[i] {
            let s = i;
            while i < before.len() && before[i] != after[i] {
                i += 1;
            }
            runs.push(format!("{}:{}", s, hex(&after[s..i])));
        } else {
            i += 1;
        }
    }
    if runs.is_empty() {
        "diff -".into()
    } else {
        format!("diff {}", runs.join(","))
    }
}

fn run_layout(r: &mut Rng, out: &mut Sink) {
    let (a, b, c) = (r.below(256), r.below(256), r.below(256));
    let init = page_bytes(a, b, c);
    let idx = match r.below(8) {
        0 => 0usize,
        1 => 125,
        2 => 126,
        3 => *r.pick(&[127usize, 128, 200, 4095, 1 << 20]),
        4 => *r.pick(&[1usize, 2, 61, 62, 63, 124]),
        _ => r.below(126),
    };
    // node
    let mut page = PageSim::from_bytes(&init);
    match guard(|| page.node(idx)) {
        Some(n) => {
            out.line(format!("pgnode {a} {b} {c} {idx}"), hex(&n));
            if idx >= 126 || n[..] != init[32 * idx..32 * idx + 32] {
                out.fail(format!("C16 node({idx}) does not read bytes [32i, 32i+32)"));
            }
            let (bytes, fnode, _) = page.freeze_and_read(idx);
            if fnode != n || bytes != init {
                out.fail(format!("C16 frozen page reads another node({idx}) / other bytes"));
            }
        }
        None => {
            out.line(format!("pgnode {a} {b} {c} {idx}"), "panic".into());
            out.count("malformed_node_index");
            if idx < 126 {
                out.fail(format!("C16 node({idx}) panicked"));
            }
        }
    }
    // set_node
    let mut node = r.bytes32();
    if r.chance(1, 4) {
        // partly equal to the old content
        for j in 0..32 {
            if idx < 126 && r.chance(1, 2) {
                node[j] = init[32 * idx + j];
            }
        }
    }
    let mut page = PageSim::from_bytes(&init);
    match guard(|| page.set_node(idx, node)) {
        Some(()) => {
            let after = page.bytes();
            out.line(format!("pgset {a} {b} {c} {idx} {}", hex(&node)), diff_str(&init, &after));
            for j in 0..4096 {
                let inside = idx < 126 && j >= 32 * idx && j < 32 * idx + 32;
                if inside && after[j] != node[j - 32 * idx] {
                    out.fail(format!("C16 set_node({idx}) did not store byte {j}"));
                    break;
                }
                if !inside && after[j] != init[j] {
                    out.fail(format!("C16 set_node({idx}) changed byte {j} outside its slot"));
                    break;
                }
            }
            if idx >= 126 {
                out.fail(format!("C16 set_node({idx}) accepted an index outside the page"));
            }
            if guard(|| page.node(idx)) != Some(node) {
                out.fail(format!("C16 node({idx}) after set_node({idx}) reads something else"));
            }
            let other = r.below(126);
            if other != idx && page.node(other)[..] != init[32 * other..32 * other + 32] {
                out.fail(format!("C16 set_node({idx}) changed node {other}"));
            }
            if page.elided_children() != u64::from_le_bytes(init[4056..4064].try_into().unwrap()) {
                out.fail(format!("C16 set_node({idx}) changed the elided-children bitfield"));
            }
            out.nontrivial(&format!("pgset:{a}:{b}:{c}:{idx}"));
        }
        None => {
            out.line(format!("pgset {a} {b} {c} {idx} {}", hex(&node)), "panic".into());
            if idx < 126 {
                out.fail(format!("C16 set_node({idx}) panicked"));
            }
        }
    }
    // elided children
    let mut page = PageSim::from_bytes(&init);
    let e = page.elided_children();
    out.line(format!("pgel {a} {b} {c}"), e.to_string());
    if e != u64::from_le_bytes(init[4056..4064].try_into().unwrap()) {
        out.fail("C16 elided_children does not read the u64 (LE) at 4096-40".into());
    }
    let ne = match r.below(4) {
        0 => 0u64,
        1 => u64::MAX,
        2 => 1u64 << r.below(64),
        _ => r.next(),
    };
    page.set_elided_children(ne);
    let after = page.bytes();
    out.line(format!("pgsetel {a} {b} {c} {ne}"), diff_str(&init, &after));
    for j in 0..4096 {
        if !(4056..4064).contains(&j) && after[j] != init[j] {
            out.fail(format!("C16 set_elided_children changed byte {j}"));
            break;
        }
    }
    if page.elided_children() != ne {
        out.fail("C16 elided_children after set_elided_children reads something else".into());
    }
    // pristine_empty: label + cleared bitfield
    let path = gen_pid_path(r);
    let pid = mk_pid(&path);
    let mut page = PageSim::pristine_empty(&pid);
    let bytes = page.bytes();
    out.line(format!("pgpristine {}", path_str(&path)), format!("tail={}", hex(&bytes[4056..])));
    if bytes[4064..] != pid.encode() || page.elided_children() != 0 {
        out.fail(format!("C16 pristine_empty({}) does not carry the label / a cleared bitfield", path_str(&path)));
    }
    // ElidedChildren bit operations
    let bits = match r.below(3) {
        0 => 0u64,
        1 => u64::MAX,
        _ => r.next(),
    };
    let child = r.below(64) as u8;
    let on = r.chance(1, 2);
    let ci = ChildPageIndex::new(child).unwrap();
    let nb = elided_set(bits, ci.clone(), on);
    out.line(format!("elset {bits} {child} {}", on as u8), nb.to_string());
    out.line(format!("elget {bits} {child}"), (elided_get(bits, ci.clone()) as u8).to_string());
    if elided_get(nb, ci) != on || (nb ^ bits) & !(1u64 << child) != 0 {
        out.fail(format!("C16 set_elide({child}, {on}) touched another child's bit or did not stick"));
    }
    out.count("layout");
}

pub fn run(seed: u64, cases: usize, out: &mut Sink) {
    let mut rng = Rng::new(seed ^ 0x7219_05);
    let mut slots: HashMap<(Vec<u8>, usize), Vec<bool>> = HashMap::new();
    for case in 0..cases {
        let mut r = rng.fork();
        out.mark_case(format!("case {case}"));
        {
            let mut cx = Ctx { out, slots: std::mem::take(&mut slots) };
            run_positions(&mut r, case, &mut cx);
            slots = cx.slots;
        }
        run_pageids(&mut r, out);
        if case % 2 == 0 {
            run_iter(&mut r, out);
        }
        run_regions(&mut r, out);
        if case % 4 == 0 {
            run_shards(&mut r, out);
        }
        if case % 2 == 1 {
            run_layout(&mut r, out);
        }
    }
    out.add("distinct_slots_seen", slots.len() as u64);
}
