//! `hasher` (C13, C02, C05, C06): the same generated history on `Nomt<Blake3Hasher>` and `Nomt<Sha2Hasher>`.
//!
//! The store, the proofs, the witnesses and the verifiers are generic over `HashAlgorithm`; the Lean model and its
//! theorems are generic over `Hasher` (under `Hasher.Sound`).  This run instantiates both sides at BOTH production
//! hashers: per case one history (session commits with witnesses, overlay chains, rollback, reopen under another
//! configuration, proofs of present / absent keys) is executed once per hasher on a fresh directory.
//!
//! Protocol lines (driver mode `hasher`, `<h>` ∈ {b3, sha2}):
//!   hvalue <h> <hex bytes|->            -> value hash (SHA-256 / BLAKE3 of arbitrary length, in Lean)
//!   hset <h> <key:vh,…|->               -> ok                 (the committed / session view, sorted)
//!   hroot <h>                           -> root of the set    (`nodeAt` over the hasher instance)
//!   hprove <h> <key>                    -> terminal + siblings (`proveSpec`)
//! Oracles independent of Lean (tagged): a reference trie generic over `NodeHasher`, the real verifier
//! (`PathProof::verify::<H>`, `verify_update::<H>` replaying the witness), a BTreeMap per state, and the
//! cross-hasher comparison: values read, `Ok` / `Err` of every call and the number of witness paths must not depend on
//! the hasher.

use crate::core_pp::term_str;
use crate::util::*;
use bitvec::prelude::*;
use nomt::hasher::{Blake3Hasher, NodeHasher, Sha2Hasher, ValueHasher};
use nomt::trie::{InternalData, LeafData, Node, TERMINATOR};
use nomt::{HashAlgorithm, KeyReadWrite, Nomt, Options, Overlay, SessionParams, WitnessMode};
use std::collections::BTreeMap;
use std::panic::{catch_unwind, AssertUnwindSafe};

type Map = BTreeMap<Key, Vec<u8>>;

fn gnode<H: NodeHasher>(kvs: &[(Key, [u8; 32])], d: usize) -> Node {
    match kvs.len() {
        0 => TERMINATOR,
        1 => H::hash_leaf(&LeafData { key_path: kvs[0].0, value_hash: kvs[0].1 }),
        _ => {
            let mid = kvs.partition_point(|(k, _)| !bit(k, d));
            let l = gnode::<H>(&kvs[..mid], d + 1);
            let r = gnode::<H>(&kvs[mid..], d + 1);
            H::hash_internal(&InternalData { left: l, right: r })
        }
    }
}

fn hashes<H: ValueHasher>(m: &Map) -> Vec<(Key, [u8; 32])> {
    m.iter().map(|(k, v)| (*k, H::hash_value(v))).collect()
}

#[derive(Clone, Debug)]
enum Op {
    /// session commit: reads (key), writes (key, value)
    Commit(Vec<Key>, Vec<(Key, Option<Vec<u8>>)>),
    /// a chain of two overlays committed in order
    OverlayChain(Vec<(Key, Option<Vec<u8>>)>, Vec<(Key, Option<Vec<u8>>)>),
    Rollback(usize),
    Reopen(usize),
    Prove(Vec<Key>),
}

/// what must not depend on the hasher
#[derive(Default, PartialEq, Debug)]
struct Trace(Vec<String>);

fn options(dir: &str, workers: usize, rng_cfg: (usize, usize, bool, usize)) -> Options {
    let mut o = Options::new();
    o.path(dir);
    o.commit_concurrency(workers);
    o.hashtable_buckets(4096);
    o.rollback(true);
    o.max_rollback_log_len(8);
    o.page_cache_size(rng_cfg.0);
    o.leaf_cache_size(rng_cfg.1);
    o.warm_up(rng_cfg.2);
    o.page_cache_upper_levels(rng_cfg.3);
    o.preallocate_ht(false);
    o
}

fn run_one<H: HashAlgorithm + 'static>(tag: &str, dir: &str, ops: &[Op], cfgs: &[(usize, (usize, usize, bool, usize))], out: &mut Sink) -> Trace {
    let mut tr = Trace::default();
    let _ = std::fs::remove_dir_all(dir);
    let mut cfg_i = 0usize;
    let mut db: Option<Nomt<H>> = match Nomt::open(options(dir, cfgs[0].0, cfgs[0].1)) {
        Ok(d) => Some(d),
        Err(e) => {
            out.fail(format!("C10 [{tag}] open failed: {e:#}"));
            return tr;
        }
    };
    let mut cur: Map = Map::new();
    let mut stack: Vec<Map> = vec![];
    let set_line = |out: &mut Sink, m: &Map| {
        out.line(format!("hset {} {}", tag, kv_line(&hashes::<H>(m))), "ok".into());
    };
    let check_root = |out: &mut Sink, what: &str, m: &Map, root: [u8; 32]| {
        let exp = gnode::<H>(&hashes::<H>(m), 0);
        if exp != root {
            out.fail(format!("C02 [{tag}] {what}: root {} != reference root {} of the {} expected pairs", hex(&root), hex(&exp), m.len()));
        }
        out.line(format!("hroot {tag}"), hex(&root));
    };
    for (opi, op) in ops.iter().enumerate() {
        let d = db.as_ref().unwrap();
        match op {
            Op::Commit(reads, writes) => {
                let s = d.begin_session(SessionParams::default().witness_mode(WitnessMode::read_write()));
                let prev_root = s.prev_root().into_inner();
                let mut actuals: BTreeMap<Key, KeyReadWrite> = BTreeMap::new();
                for k in reads {
                    match s.read(*k) {
                        Ok(v) => {
                            if v.as_ref() != cur.get(k) {
                                out.fail(format!("C01 [{tag}] session read of {} differs from the committed map", hex(k)));
                            }
                            tr.0.push(format!("read {} {:?}", hex(k), v.as_ref().map(|v| v.len())));
                            actuals.insert(*k, KeyReadWrite::Read(v));
                        }
                        Err(e) => out.fail(format!("C01 [{tag}] session read error {e:#}")),
                    }
                }
                let mut next = cur.clone();
                for (k, v) in writes {
                    s.warm_up(*k);
                    let rw = match actuals.remove(k) {
                        Some(KeyReadWrite::Read(r)) => KeyReadWrite::ReadThenWrite(r, v.clone()),
                        _ => KeyReadWrite::Write(v.clone()),
                    };
                    actuals.insert(*k, rw);
                    match v {
                        Some(v) => next.insert(*k, v.clone()),
                        None => next.remove(k),
                    };
                }
                let acts: Vec<(Key, KeyReadWrite)> = actuals.into_iter().collect();
                let mut fin = match catch_unwind(AssertUnwindSafe(move || s.finish(acts))) {
                    Ok(Ok(f)) => f,
                    Ok(Err(e)) => {
                        out.fail(format!("C01 [{tag}] finish failed: {e:#}"));
                        continue;
                    }
                    Err(_) => {
                        out.fail(format!("C01 [{tag}] finish PANIC (op {opi})"));
                        continue;
                    }
                };
                let root = fin.root().into_inner();
                set_line(out, &next);
                check_root(out, "finished session", &next, root);
                // witness (C06): verifies against the base root, replays to the new root
                let w = fin.take_witness().expect("witness mode is on");
                let mut ups = Vec::new();
                let mut ok = true;
                let mut paths: Vec<_> = w.path_proofs.iter().enumerate().collect();
                paths.sort_by(|a, b| a.1.path.path().cmp(b.1.path.path()));
                for (i, wp) in paths.iter() {
                    match wp.inner.verify::<H>(wp.path.path(), prev_root) {
                        Ok(v) => {
                            let mut wr: Vec<(Key, Option<[u8; 32]>)> =
                                w.operations.writes.iter().filter(|x| x.path_index == *i).map(|x| (x.key, x.value)).collect();
                            wr.sort();
                            ups.push(nomt::proof::PathUpdate { inner: v, ops: wr });
                        }
                        Err(e) => {
                            ok = false;
                            out.fail(format!("C06 [{tag}] witness path {i} does not verify against the base root: {e:?}"));
                        }
                    }
                }
                for r in w.operations.reads.iter() {
                    let expv = cur.get(&r.key).map(|v| H::hash_value(v));
                    if r.value != expv {
                        out.fail(format!("C06 [{tag}] witnessed read of {} is not the value the session saw", hex(&r.key)));
                    }
                }
                let ups: Vec<_> = ups.into_iter().filter(|u| !u.ops.is_empty()).collect();
                if ok && !ups.is_empty() {
                    match catch_unwind(AssertUnwindSafe(|| nomt::proof::verify_update::<H>(prev_root, &ups))) {
                        Ok(Ok(r)) => {
                            if r != root {
                                out.fail(format!("C06 [{tag}] replaying the witnessed writes gives {} but the store reports {}", hex(&r), hex(&root)));
                            }
                        }
                        Ok(Err(e)) => out.fail(format!("C06 [{tag}] verify_update over the witness fails: {e:?}")),
                        Err(_) => out.fail(format!("C18 [{tag}] verify_update over the witness PANICS")),
                    }
                    out.count("witness_replays");
                }
                tr.0.push(format!("witness paths={} reads={} writes={}", w.path_proofs.len(), w.operations.reads.len(), w.operations.writes.len()));
                match fin.commit(d) {
                    Ok(_) => {
                        stack.push(cur.clone());
                        cur = next;
                        tr.0.push("commit ok".into());
                        out.count("commits");
                    }
                    Err(e) => {
                        out.fail(format!("C01 [{tag}] commit failed: {e:#}"));
                        tr.0.push("commit err".into());
                    }
                }
                check_root(out, "Nomt::root after commit", &cur, d.root().into_inner());
            }
            Op::OverlayChain(w1, w2) => {
                let mut views = vec![cur.clone()];
                let mut ovs: Vec<Overlay> = vec![];
                for ws in [w1, w2] {
                    let params = SessionParams::default().overlay(ovs.iter().rev());
                    let s = match params {
                        Ok(p) => d.begin_session(p),
                        Err(e) => {
                            out.fail(format!("C11 [{tag}] overlay chain refused: {e:?}"));
                            break;
                        }
                    };
                    let mut next = views.last().unwrap().clone();
                    let mut acts: BTreeMap<Key, KeyReadWrite> = BTreeMap::new();
                    for (k, v) in ws {
                        acts.insert(*k, KeyReadWrite::Write(v.clone()));
                        match v {
                            Some(v) => next.insert(*k, v.clone()),
                            None => next.remove(k),
                        };
                    }
                    // a proof through the overlay session for the first written key
                    if let Some((k, _)) = ws.first() {
                        let base = views.last().unwrap();
                        match s.prove(*k) {
                            Ok(p) => {
                                set_line(out, base);
                                out.line(format!("hprove {} {}", tag, hex(k)), format!("{} {}", term_str(&p.terminal), nodes_line(&p.siblings)));
                                let root = s.prev_root().into_inner();
                                match p.verify::<H>(k.view_bits::<Msb0>(), root) {
                                    Ok(v) => {
                                        let lk = LeafData { key_path: *k, value_hash: base.get(k).map(|v| H::hash_value(v)).unwrap_or([0; 32]) };
                                        let okv = if base.contains_key(k) { v.confirm_value(&lk) } else { v.confirm_nonexistence(k) };
                                        if !matches!(okv, Ok(true)) {
                                            out.fail(format!("C05 [{tag}] overlay-session proof of {} does not confirm the view", hex(k)));
                                        }
                                    }
                                    Err(e) => out.fail(format!("C05 [{tag}] overlay-session proof of {} does not verify: {e:?}", hex(k))),
                                }
                                out.count("overlay_proofs");
                            }
                            Err(e) => out.fail(format!("C05 [{tag}] prove error {e:#}")),
                        }
                    }
                    let acts: Vec<_> = acts.into_iter().collect();
                    match catch_unwind(AssertUnwindSafe(move || s.finish(acts))) {
                        Ok(Ok(fin)) => {
                            let ov = fin.into_overlay();
                            set_line(out, &next);
                            check_root(out, "overlay", &next, ov.root().into_inner());
                            ovs.push(ov);
                            views.push(next);
                        }
                        _ => {
                            out.fail(format!("C11 [{tag}] finish on an overlay chain failed"));
                            break;
                        }
                    }
                }
                for (i, ov) in ovs.into_iter().enumerate() {
                    match ov.commit(d) {
                        Ok(_) => {
                            stack.push(cur.clone());
                            cur = views[i + 1].clone();
                            tr.0.push("ocommit ok".into());
                            out.count("overlay_commits");
                        }
                        Err(e) => {
                            out.fail(format!("C11 [{tag}] overlay commit failed: {e:#}"));
                            tr.0.push("ocommit err".into());
                        }
                    }
                }
                set_line(out, &cur);
                check_root(out, "Nomt::root after the overlay chain", &cur, d.root().into_inner());
            }
            Op::Rollback(n) => {
                let can = *n <= stack.len() && *n <= 8 && *n > 0;
                match catch_unwind(AssertUnwindSafe(|| d.rollback(*n))) {
                    Ok(Ok(())) => {
                        if !can {
                            out.fail(format!("C09 [{tag}] rollback({n}) succeeded with only {} logged commits", stack.len()));
                        } else {
                            for _ in 0..*n {
                                cur = stack.pop().unwrap();
                            }
                            // a rollback is itself not logged; the log shrinks
                        }
                        tr.0.push(format!("rollback {n} ok"));
                        out.count("rollbacks");
                    }
                    Ok(Err(_)) => {
                        if can {
                            out.fail(format!("C09 [{tag}] rollback({n}) refused with {} logged commits", stack.len()));
                        }
                        tr.0.push(format!("rollback {n} err"));
                    }
                    Err(_) => out.fail(format!("C09 [{tag}] rollback({n}) PANIC")),
                }
                set_line(out, &cur);
                check_root(out, "Nomt::root after rollback", &cur, d.root().into_inner());
            }
            Op::Reopen(ci) => {
                drop(db.take());
                cfg_i = *ci % cfgs.len();
                let mut tries = 0;
                loop {
                    match Nomt::<H>::open(options(dir, cfgs[cfg_i].0, cfgs[cfg_i].1)) {
                        Ok(dn) => {
                            db = Some(dn);
                            break;
                        }
                        Err(e) => {
                            tries += 1;
                            if tries > 200 {
                                out.fail(format!("C10 [{tag}] reopen failed: {e:#}"));
                                return tr;
                            }
                            std::thread::sleep(std::time::Duration::from_millis(5));
                        }
                    }
                }
                let d = db.as_ref().unwrap();
                set_line(out, &cur);
                check_root(out, "Nomt::root after reopen", &cur, d.root().into_inner());
                if stack.len() > 8 {
                    let cut = stack.len() - 8;
                    stack.drain(..cut);
                }
                out.count("reopens");
                tr.0.push("reopen".into());
            }
            Op::Prove(keys) => {
                let s = d.begin_session(SessionParams::default());
                let root = s.prev_root().into_inner();
                set_line(out, &cur);
                for k in keys {
                    match s.read(*k) {
                        Ok(v) => {
                            if v.as_ref() != cur.get(k) {
                                out.fail(format!("C01 [{tag}] read of {} differs from the committed map", hex(k)));
                            }
                            if let Some(v) = &v {
                                if v.len() <= 300 {
                                    out.line(format!("hvalue {} {}", tag, if v.is_empty() { "-".to_string() } else { hex(v) }), hex(&H::hash_value(v)));
                                }
                            }
                        }
                        Err(e) => out.fail(format!("C01 [{tag}] read error {e:#}")),
                    }
                    match s.prove(*k) {
                        Ok(p) => {
                            out.line(format!("hprove {} {}", tag, hex(k)), format!("{} {}", term_str(&p.terminal), nodes_line(&p.siblings)));
                            match p.verify::<H>(k.view_bits::<Msb0>(), root) {
                                Ok(v) => {
                                    let okv = match cur.get(k) {
                                        Some(val) => v.confirm_value(&LeafData { key_path: *k, value_hash: H::hash_value(val) }),
                                        None => v.confirm_nonexistence(k),
                                    };
                                    if !matches!(okv, Ok(true)) {
                                        out.fail(format!("C05 [{tag}] proof of {} does not confirm the committed state", hex(k)));
                                    }
                                }
                                Err(e) => out.fail(format!("C05 [{tag}] proof of {} does not verify against the session root: {e:?}", hex(k))),
                            }
                            out.count("proofs");
                        }
                        Err(e) => out.fail(format!("C05 [{tag}] prove error {e:#}")),
                    }
                }
            }
        }
    }
    if stack.len() > 8 {
        // only what the log retains matters
    }
    drop(db);
    let _ = std::fs::remove_dir_all(dir);
    tr
}

fn gen_val(rng: &mut Rng) -> Vec<u8> {
    let n = match rng.below(10) {
        0 => 0,
        1 => 1,
        2 => rng.range(31, 33),
        3 => rng.range(55, 65), // around the SHA-256 padding boundary (55 / 56 / 63 / 64)
        4 => rng.range(119, 129),
        5 => rng.range(1330, 1334), // in-leaf / overflow boundary
        6 => rng.range(1020, 1030), // BLAKE3 chunk boundary
        7 => rng.range(4090, 4100),
        _ => rng.range(1, 64),
    };
    (0..n).map(|_| rng.next() as u8).collect()
}

pub fn run(seed: u64, cases: usize, out: &mut Sink) {
    let mut rng = Rng::new(seed ^ 0x4a53_4852);
    let pid = std::process::id();
    // hash_value alone, lengths 0..300 around every block boundary (both hashers)
    for n in [0usize, 1, 31, 32, 33, 54, 55, 56, 57, 63, 64, 65, 111, 119, 120, 127, 128, 129, 183, 184, 255, 256, 257, 300] {
        let v: Vec<u8> = (0..n).map(|_| rng.next() as u8).collect();
        let h = if v.is_empty() { "-".to_string() } else { hex(&v) };
        out.line(format!("hvalue b3 {h}"), hex(&<Blake3Hasher as ValueHasher>::hash_value(&v)));
        out.line(format!("hvalue sha2 {h}"), hex(&<Sha2Hasher as ValueHasher>::hash_value(&v)));
    }
    for case in 0..cases {
        let mut r = rng.fork();
        let mut pool = gen_keyset(&mut r, 40);
        if pool.len() < 6 {
            pool.extend((0..6).map(|_| r.bytes32()));
        }
        let cfgs: Vec<(usize, (usize, usize, bool, usize))> = (0..3)
            .map(|_| (*r.pick(&[1usize, 2, 3, 4, 8]), (*r.pick(&[1usize, 4, 64]), *r.pick(&[1usize, 4, 64]), r.chance(1, 2), r.below(4))))
            .collect();
        let nops = r.range(6, 12);
        let mut ops = Vec::new();
        let mut gen_writes = |r: &mut Rng, n: usize| -> Vec<(Key, Option<Vec<u8>>)> {
            let mut m: BTreeMap<Key, Option<Vec<u8>>> = BTreeMap::new();
            for _ in 0..n {
                let k = *r.pick(&pool);
                m.insert(k, if r.chance(1, 4) { None } else { Some(gen_val(r)) });
            }
            m.into_iter().collect()
        };
        for i in 0..nops {
            let op = match if i == 0 { 0 } else { r.below(10) } {
                0..=3 => {
                    let nr = r.below(4);
                    let reads: Vec<Key> = (0..nr).map(|_| *r.pick(&pool)).collect::<std::collections::BTreeSet<_>>().into_iter().collect();
                    let nw = r.range(1, 12);
                    Op::Commit(reads, gen_writes(&mut r, nw))
                }
                4 | 5 => {
                    let a = r.range(1, 6);
                    let b = r.range(1, 6);
                    Op::OverlayChain(gen_writes(&mut r, a), gen_writes(&mut r, b))
                }
                6 => Op::Rollback(r.range(1, 2)),
                7 => Op::Reopen(r.below(3)),
                _ => {
                    let mut ks: Vec<Key> = (0..r.range(2, 5)).map(|_| *r.pick(&pool)).collect();
                    let base = *r.pick(&pool);
                    let d = interesting_depth(&mut r);
                    ks.push(diverge_at(&mut r, &base, d));
                    ks.push(r.bytes32());
                    Op::Prove(ks)
                }
            };
            ops.push(op);
        }
        ops.push(Op::Prove(pool.iter().take(4).cloned().collect()));
        out.mark_case(format!("case {case} hasher: {} ops, workers {:?}", ops.len(), cfgs.iter().map(|c| c.0).collect::<Vec<_>>()));
        let t1 = run_one::<Blake3Hasher>("b3", &format!("/dev/shm/nomt-verif-hasher-{pid}-{seed}-{case}-b3"), &ops, &cfgs, out);
        let t2 = run_one::<Sha2Hasher>("sha2", &format!("/dev/shm/nomt-verif-hasher-{pid}-{seed}-{case}-sha2"), &ops, &cfgs, out);
        if t1 != t2 {
            let i = t1.0.iter().zip(t2.0.iter()).position(|(a, b)| a != b).unwrap_or(t1.0.len().min(t2.0.len()));
            out.fail(format!(
                "C13 the history behaves differently under blake3 and sha2 at step {i}: {:?} vs {:?}",
                t1.0.get(i), t2.0.get(i)
            ));
        }
        out.nontrivial(&format!("{:?}", ops));
        out.count("histories");
    }
}
