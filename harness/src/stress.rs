//! C15: sessions see one committed state; readers and the writer exclude each other.
//! Threaded stress on the real `Nomt`: reader threads (sessions with reads and proofs checked against a
//! per-commit version stamp), writer threads (blocking / non-blocking session commits, overlay commits),
//! random session lifetimes, under a watchdog (the whole run is a child process with a time limit).
//!
//! Every commit writes the same fresh stamp to ALL stamp keys; a session must therefore read the same stamp
//! from every stamp key (one committed state), each proof must verify against the session's own base root,
//! and the winners must form a chain: each successful commit's base stamp (read inside its own session) is
//! the stamp written by the previous successful commit — no committed batch is lost, exactly the
//! changesets whose base is current win.
use crate::db::{vhash, DbCfg};
use crate::util::*;
use bitvec::prelude::*;
use nomt::hasher::Blake3Hasher;
use nomt::trie::LeafData;
use nomt::{KeyReadWrite, Nomt, SessionParams};
use std::process::Command;
use std::sync::atomic::{AtomicBool, AtomicU64, Ordering};
use std::sync::{Arc, Mutex};

type Db = Nomt<Blake3Hasher>;

fn arg(args: &[String], name: &str) -> Option<String> {
    args.iter().position(|a| a == name).and_then(|i| args.get(i + 1).cloned())
}

fn stamp_keys() -> Vec<Key> {
    // spread over several root children (several commit workers / cache shards) and a deep cluster
    let mut ks = vec![];
    for i in 0..6u8 {
        let mut k = [i.wrapping_mul(41); 32];
        k[0] = i << 5;
        ks.push(k);
    }
    for i in 0..3u8 {
        let mut k = [0xEE; 32];
        k[31] = i;
        ks.push(k);
    }
    ks.sort();
    ks
}

fn stamp_value(id: u64) -> Vec<u8> {
    let mut v = id.to_le_bytes().to_vec();
    // some stamps are overflow values so that the value path differs
    if id % 5 == 0 {
        v.extend(std::iter::repeat((id % 251) as u8).take(2000));
    }
    v
}

fn stamp_of(v: &Option<Vec<u8>>) -> u64 {
    match v {
        Some(b) if b.len() >= 8 => u64::from_le_bytes(b[..8].try_into().unwrap()),
        _ => 0,
    }
}

/// `stress-child`: one stress run; prints a report to `--report`.
pub fn child(args: &[String]) -> i32 {
    let dir = arg(args, "--dir").unwrap();
    let report = arg(args, "--report").unwrap();
    let seed: u64 = arg(args, "--seed").and_then(|s| s.parse().ok()).unwrap_or(1);
    let readers: usize = arg(args, "--readers").and_then(|s| s.parse().ok()).unwrap_or(4);
    let writers: usize = arg(args, "--writers").and_then(|s| s.parse().ok()).unwrap_or(3);
    let millis: u64 = arg(args, "--millis").and_then(|s| s.parse().ok()).unwrap_or(800);
    let _ = std::fs::remove_dir_all(&dir);
    let mut rng = Rng::new(seed);
    let mut cfg = DbCfg::gen(&mut rng);
    cfg.buckets = 4096;
    cfg.rollback = true;
    cfg.maxlog = 3;
    let db: Arc<Db> = match Db::open(cfg.options(&dir)) {
        Ok(d) => Arc::new(d),
        Err(e) => {
            let _ = std::fs::write(&report, format!("FAIL open: {e:#}\n"));
            return 3;
        }
    };
    let keys = Arc::new(stamp_keys());
    let problems: Arc<Mutex<Vec<String>>> = Default::default();
    // winners: (base stamp read in the session, own stamp)
    let wins: Arc<Mutex<Vec<(u64, u64)>>> = Default::default();
    let next_id = Arc::new(AtomicU64::new(1));
    let stop = Arc::new(AtomicBool::new(false));
    let stats = Arc::new(Mutex::new(std::collections::BTreeMap::<String, u64>::new()));
    let bump = |stats: &Arc<Mutex<std::collections::BTreeMap<String, u64>>>, k: &str| {
        *stats.lock().unwrap().entry(k.to_string()).or_insert(0) += 1;
    };
    let mut handles = vec![];
    for r in 0..readers {
        let (db, keys, problems, stop, stats) = (db.clone(), keys.clone(), problems.clone(), stop.clone(), stats.clone());
        let mut rng = Rng::new(seed * 1000 + r as u64);
        handles.push(std::thread::spawn(move || {
            while !stop.load(Ordering::Relaxed) {
                let s = db.begin_session(SessionParams::default());
                let root = s.prev_root().into_inner();
                let mut seen: Option<u64> = None;
                let rounds = rng.range(1, 4);
                for _ in 0..rounds {
                    for k in keys.iter() {
                        match s.read(*k) {
                            Ok(v) => {
                                let st = stamp_of(&v);
                                match seen {
                                    None => seen = Some(st),
                                    Some(x) if x != st => {
                                        problems.lock().unwrap().push(format!("C15 torn snapshot: one session read stamp {x} and stamp {st}"));
                                    }
                                    _ => {}
                                }
                                if rng.chance(1, 3) {
                                    match s.prove(*k) {
                                        Ok(p) => match p.verify::<Blake3Hasher>(k.view_bits::<Msb0>(), root) {
                                            Ok(vp) => {
                                                let ok = match &v {
                                                    Some(val) => vp.confirm_value(&LeafData { key_path: *k, value_hash: vhash(val) }).ok() == Some(true),
                                                    None => vp.confirm_nonexistence(k).ok() == Some(true),
                                                };
                                                if !ok {
                                                    problems.lock().unwrap().push("C15 proof inside a session does not confirm the value the session read".into());
                                                }
                                            }
                                            Err(e) => problems.lock().unwrap().push(format!("C15 proof inside a session does not verify against the session's base root: {e:?}")),
                                        },
                                        Err(e) => problems.lock().unwrap().push(format!("C15 prove error {e:#}")),
                                    }
                                }
                            }
                            Err(e) => problems.lock().unwrap().push(format!("C15 read error {e:#}")),
                        }
                    }
                    if rng.chance(1, 2) {
                        std::thread::sleep(std::time::Duration::from_micros(rng.below(300) as u64));
                    }
                }
                bump(&stats, "reader_sessions");
                drop(s);
            }
        }));
    }
    for w in 0..writers {
        let (db, keys, problems, stop, stats, wins, next_id) =
            (db.clone(), keys.clone(), problems.clone(), stop.clone(), stats.clone(), wins.clone(), next_id.clone());
        let mut rng = Rng::new(seed * 7777 + w as u64);
        handles.push(std::thread::spawn(move || {
            while !stop.load(Ordering::Relaxed) {
                let id = next_id.fetch_add(1, Ordering::SeqCst);
                let s = db.begin_session(SessionParams::default());
                let base = match s.read(keys[0]) {
                    Ok(v) => stamp_of(&v),
                    Err(_) => continue,
                };
                if rng.chance(1, 2) {
                    std::thread::sleep(std::time::Duration::from_micros(rng.below(400) as u64));
                }
                let val = stamp_value(id);
                let mut actuals: Vec<(Key, KeyReadWrite)> = keys.iter().map(|k| (*k, KeyReadWrite::Write(Some(val.clone())))).collect();
                // plus some private churn so that pages and leaves move
                for _ in 0..rng.range(0, 6) {
                    actuals.push((rng.bytes32(), KeyReadWrite::Write(if rng.chance(1, 4) { None } else { Some(vec![w as u8; 30]) })));
                }
                actuals.sort_by(|a, b| a.0.cmp(&b.0));
                actuals.dedup_by(|a, b| a.0 == b.0);
                let fin = match s.finish(actuals) {
                    Ok(f) => f,
                    Err(e) => {
                        problems.lock().unwrap().push(format!("C15 finish error {e:#}"));
                        continue;
                    }
                };
                let flavour = rng.below(3);
                let won = match flavour {
                    0 => fin.commit(&db).is_ok(),
                    1 => {
                        // non-blocking: retry a few times while busy
                        let mut f = Some(fin);
                        let mut won = false;
                        for _ in 0..50 {
                            match f.take().unwrap().try_commit_nonblocking(&db) {
                                Ok(None) => {
                                    won = true;
                                    break;
                                }
                                Ok(Some(back)) => {
                                    bump(&stats, "nonblocking_deferred");
                                    f = Some(back);
                                    std::thread::sleep(std::time::Duration::from_micros(50));
                                }
                                Err(_) => break,
                            }
                        }
                        won
                    }
                    _ => {
                        let ov = fin.into_overlay();
                        ov.commit(&db).is_ok()
                    }
                };
                if won {
                    wins.lock().unwrap().push((base, id));
                    bump(&stats, "commits_won");
                } else {
                    bump(&stats, "commits_lost");
                }
            }
        }));
    }
    std::thread::sleep(std::time::Duration::from_millis(millis));
    stop.store(true, Ordering::Relaxed);
    for h in handles {
        if h.join().is_err() {
            problems.lock().unwrap().push("C15 a stress thread panicked".into());
        }
    }
    // final state vs. the winners
    let mut rep = String::new();
    let final_stamp = stamp_of(&db.read(keys[0]).unwrap_or(None));
    let wins = wins.lock().unwrap().clone();
    // chain: follow bases from the final stamp down to 0; every winner must be on it exactly once
    let by_id: std::collections::HashMap<u64, u64> = wins.iter().map(|(b, i)| (*i, *b)).collect();
    let mut cur = final_stamp;
    let mut visited = 0usize;
    let mut guard = 0;
    while cur != 0 && guard < 1_000_000 {
        guard += 1;
        match by_id.get(&cur) {
            Some(b) => {
                visited += 1;
                cur = *b;
            }
            None => {
                problems.lock().unwrap().push(format!("C15 the committed state carries stamp {cur} which no successful commit wrote"));
                break;
            }
        }
    }
    if visited != wins.len() {
        problems.lock().unwrap().push(format!(
            "C15 {} commits reported success but only {visited} of them lie on the chain of states leading to the final state (a committed batch was lost, or a stale changeset was accepted)",
            wins.len()
        ));
    }
    for k in keys.iter() {
        let st = stamp_of(&db.read(*k).unwrap_or(None));
        if st != final_stamp {
            problems.lock().unwrap().push(format!("C15 final state is torn: stamps {final_stamp} and {st}"));
        }
    }
    for p in problems.lock().unwrap().iter().take(20) {
        rep.push_str(&format!("FAIL {p}\n"));
    }
    for (k, v) in stats.lock().unwrap().iter() {
        rep.push_str(&format!("STAT {k} {v}\n"));
    }
    rep.push_str(&format!("STAT winners {}\nDONE\n", wins.len()));
    let _ = std::fs::write(&report, rep);
    drop(db);
    let _ = std::fs::remove_dir_all(&dir);
    0
}

pub fn run(args: &[String], out: &mut Sink) {
    let seed: u64 = arg(args, "--seed").and_then(|s| s.parse().ok()).unwrap_or(1);
    let cases: usize = arg(args, "--cases").and_then(|s| s.parse().ok()).unwrap_or(4);
    let millis: u64 = arg(args, "--millis").and_then(|s| s.parse().ok()).unwrap_or(600);
    let exe = std::env::current_exe().unwrap();
    let pid = std::process::id();
    for case in 0..cases {
        let dir = format!("/dev/shm/nomt-verif-db-{pid}-stress-{seed}-{case}");
        let report = format!("{dir}.report");
        let (r, w) = [(4usize, 3usize), (2, 4), (6, 2), (1, 5)][case % 4];
        let mut cmd = Command::new(&exe);
        cmd.arg("stress-child")
            .args(["--dir", &dir, "--report", &report, "--seed", &(seed * 100 + case as u64).to_string()])
            .args(["--readers", &r.to_string(), "--writers", &w.to_string(), "--millis", &millis.to_string()]);
        cmd.stdout(std::process::Stdio::null()).stderr(std::process::Stdio::null());
        let t0 = std::time::Instant::now();
        let mut ch = match cmd.spawn() {
            Ok(c) => c,
            Err(e) => {
                out.fail(format!("cannot spawn stress child: {e}"));
                continue;
            }
        };
        let limit = std::time::Duration::from_millis(millis + 30_000);
        let rc = loop {
            match ch.try_wait() {
                Ok(Some(st)) => break st.code(),
                Ok(None) => {
                    if t0.elapsed() > limit {
                        let _ = ch.kill();
                        let _ = ch.wait();
                        break None;
                    }
                    std::thread::sleep(std::time::Duration::from_millis(5));
                }
                Err(_) => break Some(-2),
            }
        };
        out.mark_case(format!("stress case {case}: {r} readers, {w} writers, {millis} ms"));
        out.count("stress_runs");
        let rep = std::fs::read_to_string(&report).unwrap_or_default();
        match rc {
            None => out.fail(format!("C15 DEADLOCK / HANG: stress run with {r} readers and {w} writers did not finish within {} s", limit.as_secs())),
            Some(0) if rep.contains("DONE") => {
                for l in rep.lines() {
                    if let Some(p) = l.strip_prefix("FAIL ") {
                        out.fail(p.to_string());
                    }
                    if let Some(s) = l.strip_prefix("STAT ") {
                        let f: Vec<&str> = s.split(' ').collect();
                        if f.len() == 2 {
                            out.add(f[0], f[1].parse().unwrap_or(0));
                        }
                    }
                }
                out.nontrivial(&format!("stress {seed} {case} a"));
                out.nontrivial(&format!("stress {seed} {case} b {}", rep.len()));
            }
            Some(c) => out.fail(format!("C15 stress child failed (exit {c}): {}", rep.lines().next().unwrap_or(""))),
        }
        let _ = std::fs::remove_file(&report);
        let _ = std::fs::remove_dir_all(&dir);
    }
    let ev = out.stats.get("reader_sessions").cloned().unwrap_or(0) + out.stats.get("commits_won").cloned().unwrap_or(0) + out.stats.get("commits_lost").cloned().unwrap_or(0);
    out.add("evaluations", ev);
    out.samples.push(format!("stress: {cases} runs; reader sessions {:?}, commits won {:?}, lost {:?}, deferred {:?}",
        out.stats.get("reader_sessions"), out.stats.get("commits_won"), out.stats.get("commits_lost"), out.stats.get("nonblocking_deferred")));
}
