//! `iopool` (C14 / C04): the I/O pool — every submitted page command completes exactly once with the right verdict.
//!
//! Through hook `verif_api::io_pool`:
//! * `gr`  — the REAL `IoKind::get_result` on (kind, syscall result, errno);
//! * `ux`  — the REAL `unix.rs::execute` with scripted `pread` / `pwrite` answers, and on real files (RLIMIT_FSIZE inside / at
//!           a page boundary, short files, `/dev/full`, wrong open mode): the kernel's logged answers become the script line;
//! * `w`   — the REAL `linux.rs::run_worker` on a thread of its own over a scripted kernel, in lock-step: at every call of the
//!           worker into the ring the harness decides what happens next (sends on several handles, shutdown, which in-flight
//!           entries complete, with which result and which stale `errno`, what `submit_and_wait` returns);
//! * `rp`  — the REAL pool (`start_io_pool`, io_uring) on real files under the same limits (expected kernel answers as `ux` line);
//! * `ht`  — the REAL `bitbox::writeout::write_ht` on the real pool with injected write failures;
//! * `f…`  — the REAL `Fsyncer` with injected fsync results.
//! Every line is answered by the Lean mirror (`nomt_model iopool`); the oracles below are independent of it.
use crate::util::{Rng, Sink};
use nomt::verif_api::io_pool::{
    self as hook, Done, FsyncerSim, IoRes, RealPool, Resume, ScriptedWorker, WorkerEvent,
};
use nomt::verif_hook;
use std::collections::{BTreeMap, VecDeque};
use std::os::fd::AsRawFd;
use std::sync::{Arc, Mutex};

const PAGE: i64 = 4096;
const MAXA: usize = 16;
const EINTR: i32 = 4;

fn show(r: &IoRes) -> String {
    match r {
        IoRes::Ok => "ok".into(),
        IoRes::Os(e) => format!("os{e}"),
        IoRes::Short => "short".into(),
        IoRes::Other(s) => format!("other({s})"),
    }
}

/// the oracle's own verdict table: 0 ok, 1 err, 2 retry
fn verdict(read: bool, res: i64, errno: i32) -> u8 {
    if res == PAGE || (read && res == 0) {
        0
    } else if res == -1 {
        if errno == EINTR {
            2
        } else {
            1
        }
    } else {
        2
    }
}

// ------------------------------------------------------------------------------------------------
// injection (write_ht / Fsyncer)

#[derive(Default)]
struct Inject {
    /// (fd, page number) -> errno of the injected failure of that page write
    writes: BTreeMap<(i32, u64), i32>,
    /// fd -> results of the next fsyncs of the `Fsyncer` on it
    fsyncs: BTreeMap<i32, VecDeque<Option<i32>>>,
}
static INJECT: Mutex<Option<Inject>> = Mutex::new(None);

fn install() {
    *INJECT.lock().unwrap() = Some(Inject::default());
    verif_hook::set_handler(Some(Arc::new(|ev: &verif_hook::Event<'_>| {
        if ev.phase != verif_hook::Phase::Begin {
            return Ok(());
        }
        let mut g = INJECT.lock().unwrap();
        let Some(inj) = g.as_mut() else { return Ok(()) };
        let Some(fd) = ev.fd else { return Ok(()) };
        match (ev.kind, ev.site) {
            (verif_hook::Kind::Write, "io.send") => {
                if let Some(e) = inj.writes.get(&(fd, ev.offset / 4096)) {
                    return Err(std::io::Error::from_raw_os_error(*e));
                }
            }
            (verif_hook::Kind::Fsync, "fsyncer") => {
                if let Some(q) = inj.fsyncs.get_mut(&fd) {
                    if let Some(Some(e)) = q.pop_front() {
                        return Err(std::io::Error::from_raw_os_error(e));
                    }
                }
            }
            _ => {}
        }
        Ok(())
    })));
}

fn uninstall() {
    verif_hook::set_handler(None);
    *INJECT.lock().unwrap() = None;
}

// ------------------------------------------------------------------------------------------------

fn scratch() -> String {
    let d = format!("/dev/shm/nomt-verif-q44-{}", std::process::id());
    std::fs::create_dir_all(&d).unwrap();
    d
}

fn set_fsize(limit: Option<u64>) -> u64 {
    unsafe {
        let mut cur = libc::rlimit { rlim_cur: 0, rlim_max: 0 };
        libc::getrlimit(libc::RLIMIT_FSIZE, &mut cur);
        let old = cur.rlim_cur;
        cur.rlim_cur = limit.unwrap_or(cur.rlim_max);
        libc::setrlimit(libc::RLIMIT_FSIZE, &cur);
        old
    }
}

pub fn run(seed: u64, cases: usize, out: &mut Sink) {
    unsafe { libc::signal(libc::SIGXFSZ, libc::SIG_IGN) };
    let only: Option<usize> = std::env::var("VH_IOPOOL_ONLY").ok().and_then(|s| s.parse().ok());
    let mut rng = Rng::new(seed ^ 0x10_9001);
    table(&mut rng.fork(), out);
    install();
    let dir = scratch();
    for case in 0..cases {
        let mut r = rng.fork();
        if only.map_or(false, |o| o != case) {
            continue;
        }
        out.mark_case(format!("case {case} seed {seed}"));
        let tag = format!("seed {seed} case {case}");
        match case % 8 {
            0 | 1 | 2 | 3 => worker_case(&mut r, out, &tag),
            4 => execute_case(&mut r, out, &tag, &dir),
            5 => pool_case(&mut r, out, &tag, &dir),
            6 => write_ht_case(&mut r, out, &tag, &dir),
            _ => fsyncer_case(&mut r, out, &tag, &dir),
        }
    }
    uninstall();
    let _ = std::fs::remove_dir_all(&dir);
}

// ------------------------------------------------------------------------------------------------
// get_result

fn table(rng: &mut Rng, out: &mut Sink) {
    let mut ress: Vec<i64> = vec![-4096, -28, -5, -4, -2, -1, 0, 1, 511, 512, 1000, 4095, 4096, 4097, 8192, i32::MAX as i64];
    for _ in 0..6 {
        ress.push(rng.below(9000) as i64 - 100);
    }
    for read in [true, false] {
        for &res in &ress {
            for errno in [0, 4, 5, 9, 11, 27, 28] {
                let real = hook::get_result(read, res as isize, errno);
                let k = if read { "r" } else { "w" };
                out.line(format!("gr {k} {res} {errno}"), ["ok", "err", "retry"][real as usize].to_string());
                if real != verdict(read, res, errno) {
                    out.fail(format!("C14 get_result({k}, {res}, errno {errno}) = {real}, table says {}", verdict(read, res, errno)));
                }
                out.count(&format!("gr_{}", ["ok", "err", "retry"][real as usize]));
            }
        }
    }
}

// ------------------------------------------------------------------------------------------------
// unix.rs::execute

fn gen_answer(rng: &mut Rng, read: bool) -> (i64, i32) {
    match rng.below(12) {
        0 | 1 | 2 => (PAGE, 0),
        3 => (-1, EINTR),
        4 => (-1, *rng.pick(&[5, 9, 27, 28, 122])),
        5 => (0, 0),
        6 => (rng.range(1, 4095) as i64, 0),
        7 => (*rng.pick(&[1, 512, 4095, 4097, 8192]), 0),
        8 if read => (0, 0),
        _ => (rng.range(1, 4095) as i64, rng.below(2) as i32 * EINTR),
    }
}

fn expected_execute(read: bool, answers: &[(i64, i32)]) -> (IoRes, usize) {
    for (i, (res, errno)) in answers.iter().enumerate() {
        match verdict(read, *res, *errno) {
            0 => return (IoRes::Ok, i + 1),
            1 => return (IoRes::Os(*errno), i + 1),
            _ => {
                if i + 1 >= MAXA {
                    return (IoRes::Short, i + 1);
                }
            }
        }
    }
    (IoRes::Other("script too short".into()), answers.len())
}

fn run_execute_guarded(kind: u8, fd: i32, pn: u64, fill: u8, script: Option<Vec<(isize, i32)>>) -> Option<(Done, Vec<hook::Call>)> {
    let (tx, rx) = std::sync::mpsc::channel();
    std::thread::spawn(move || {
        let r = hook::unix_execute(kind, fd, pn, pn, fill, script);
        let _ = tx.send(r);
    });
    rx.recv_timeout(std::time::Duration::from_secs(10)).ok()
}

fn emit_execute(out: &mut Sink, tag: &str, what: &str, read: bool, pn: u64, answers: &[(i64, i32)], done: &Done, calls: &[hook::Call]) {
    let k = if read { "r" } else { "w" };
    let mut padded: Vec<(i64, i32)> = answers.to_vec();
    while padded.len() < MAXA {
        padded.push((PAGE, 0));
    }
    let line = padded.iter().map(|(r, e)| format!("{r}:{e}")).collect::<Vec<_>>().join(",");
    out.line(format!("ux {k} {line}"), format!("{} n={}", show(&done.result), calls.len()));
    let (er, en) = expected_execute(read, &padded);
    if done.result != er || calls.len() != en {
        out.fail(format!("C14 execute {what} ({tag}): result {} after {} syscalls, table says {} after {en}", show(&done.result), calls.len(), show(&er)));
    }
    if calls.len() > MAXA {
        out.fail(format!("C14 execute {what} ({tag}): {} syscalls > MAX_IO_ATTEMPTS", calls.len()));
    }
    for c in calls {
        if c.len != 4096 || c.off != pn as i64 * 4096 || c.write == read {
            out.fail(format!("C14 execute {what} ({tag}): syscall {c:?} is not the command's page"));
        }
    }
    out.count(&format!("ux_{}", show(&done.result).trim_end_matches(char::is_numeric)));
    out.add("ux_syscalls", calls.len() as u64);
    out.nontrivial(&format!("ux {k} {line}"));
}

fn execute_case(rng: &mut Rng, out: &mut Sink, tag: &str, dir: &str) {
    // scripted
    for _ in 0..6 {
        let read = rng.chance(1, 2);
        let mut answers = Vec::new();
        let mode = rng.below(4);
        for i in 0..MAXA {
            answers.push(match mode {
                0 => gen_answer(rng, read),
                1 => (rng.range(1, 4095) as i64, 0), // stays short
                2 => if i < rng.range(0, 17) { (-1, EINTR) } else { gen_answer(rng, read) },
                _ => if i + 1 < MAXA && rng.chance(5, 6) { (rng.range(1, 4095) as i64, 0) } else { gen_answer(rng, read) },
            });
        }
        let pn = rng.below(1000) as u64;
        let kind = if read { 0 } else { rng.range(1, 3) as u8 };
        let script = answers.iter().map(|(r, e)| (*r as isize, *e)).collect();
        match run_execute_guarded(kind, -1, pn, 7, Some(script)) {
            Some((done, calls)) => {
                let used: Vec<(i64, i32)> = calls.iter().map(|c| (c.res as i64, c.errno)).collect();
                if used.iter().zip(answers.iter()).any(|(a, b)| a.0 != b.0 || (a.0 == -1 && a.1 != b.1)) {
                    out.fail(format!("C14 execute scripted ({tag}): the syscalls did not get the scripted answers"));
                }
                emit_execute(out, tag, "scripted", read, pn, &answers, &done, &calls)
            }
            None => out.fail(format!("C14 execute scripted ({tag}): no result after 10 s (hang)")),
        }
    }
    // real files
    let path = format!("{dir}/ux.bin");
    for _ in 0..4 {
        let scenario = rng.below(8);
        let pn = rng.range(0, 6) as u64;
        let fill = rng.range(1, 250) as u8;
        let base = pn * 4096;
        let (read, what) = match scenario {
            0 => (false, "write within the limit"),
            1 => (false, "write straddling RLIMIT_FSIZE"),
            2 => (false, "write at RLIMIT_FSIZE"),
            3 => (false, "write to /dev/full"),
            4 => (false, "write on a read-only descriptor"),
            5 => (true, "read of a whole page"),
            6 => (true, "read of a partial last page"),
            _ => (true, "read at the end of the file"),
        };
        let _ = std::fs::remove_file(&path);
        let file = match scenario {
            3 => std::fs::OpenOptions::new().write(true).open("/dev/full").unwrap(),
            4 => {
                std::fs::write(&path, vec![1u8; 8 * 4096]).unwrap();
                std::fs::File::open(&path).unwrap()
            }
            5 => {
                std::fs::write(&path, vec![fill; base as usize + 4096 + rng.below(3) * 100]).unwrap();
                std::fs::File::open(&path).unwrap()
            }
            6 => {
                std::fs::write(&path, vec![fill; base as usize + rng.range(1, 4095)]).unwrap();
                std::fs::File::open(&path).unwrap()
            }
            7 => {
                std::fs::write(&path, vec![fill; base as usize - rng.below(2).min(base as usize)]).unwrap();
                std::fs::File::open(&path).unwrap()
            }
            _ => std::fs::OpenOptions::new().read(true).write(true).create(true).open(&path).unwrap(),
        };
        let limit = match scenario {
            0 => Some(base + 4096 + rng.below(2) as u64 * 4096),
            1 => Some(base + rng.range(1, 4095) as u64),
            2 => Some(base - rng.below(2).min(pn as usize) as u64 * 4096),
            _ => None,
        };
        let old = set_fsize(limit);
        let r = run_execute_guarded(if read { 0 } else { 1 }, file.as_raw_fd(), pn, fill, None);
        set_fsize(Some(old));
        match r {
            Some((done, calls)) => {
                let answers: Vec<(i64, i32)> = calls.iter().map(|c| (c.res as i64, c.errno)).collect();
                emit_execute(out, tag, what, read, pn, &answers, &done, &calls);
                let want = match scenario {
                    0 | 5 | 7 => IoRes::Ok,
                    1 | 6 => IoRes::Short,
                    2 => IoRes::Os(27),
                    3 => IoRes::Os(28),
                    _ => IoRes::Os(9),
                };
                if done.result != want {
                    out.fail(format!("C14 execute {what} ({tag}): result {}, expected {}", show(&done.result), show(&want)));
                }
                if scenario == 0 {
                    let data = std::fs::read(&path).unwrap();
                    if data.len() < base as usize + 4096 || data[base as usize + 8..base as usize + 4096].iter().any(|b| *b != fill) {
                        out.fail(format!("C14 execute {what} ({tag}): Ok but the page is not in the file"));
                    }
                }
                if scenario == 5 && done.head != Some([fill; 8]) {
                    out.fail(format!("C14 execute {what} ({tag}): Ok but the buffer does not hold the page"));
                }
                out.count(&format!("ux_real_{scenario}"));
            }
            None => out.fail(format!("C14 execute {what} ({tag}): no result after 10 s (hang)")),
        }
    }
}

// ------------------------------------------------------------------------------------------------
// run_worker over the scripted kernel

struct Cmd {
    chan: usize,
    read: bool,
    hist: Vec<(i64, i32)>,
    pushes: usize,
    delivered: Option<IoRes>,
}

fn expected_worker(read: bool, hist: &[(i64, i32)]) -> Option<IoRes> {
    // the result the worker owes after these completed attempts (None: still in progress)
    for (i, (res, errno)) in hist.iter().enumerate() {
        let sys = if *res >= 0 { *res } else { -1 };
        match verdict(read, sys, *errno) {
            0 => return Some(IoRes::Ok),
            1 => return Some(IoRes::Os(res.unsigned_abs() as i32)),
            _ => {
                if i + 1 >= MAXA {
                    return Some(IoRes::Short);
                }
            }
        }
    }
    None
}

fn gen_cqe_result(rng: &mut Rng, read: bool, persistent_short: bool) -> (i64, i32) {
    if persistent_short {
        return (1000, 0);
    }
    let stale = *rng.pick(&[0, 0, 0, 11, EINTR, EINTR, 2]);
    match rng.below(14) {
        0..=5 => (PAGE, stale),
        6 => (rng.range(1, 4095) as i64, stale),
        7 => (0, stale),
        8 => (-(EINTR as i64), stale),
        9 => (-*rng.pick(&[5i64, 9, 27, 28, 122, 1]), stale),
        10 => (-*rng.pick(&[5i64, 28]), EINTR),
        11 if read => (0, stale),
        12 => (*rng.pick(&[1i64, 4095, 4097, 8192]), stale),
        _ => (PAGE, stale),
    }
}

fn worker_case(rng: &mut Rng, out: &mut Sink, tag: &str) {
    let cap = match rng.below(6) {
        0 => rng.range(1, 3),
        1 => rng.range(4, 40),
        _ => hook::REAL_RING_CAPACITY,
    };
    let big = rng.chance(1, 12); // more than MAX_IN_FLIGHT commands outstanding
    let persistent = rng.chance(1, 5); // some commands stay short for ever
    let spurious_on = rng.chance(1, 6);
    let budget = if big { 60 } else { rng.range(5, 120) };
    let mut w = ScriptedWorker::start(cap);
    // handles: index -> completion channel (a clone shares its origin's)
    let mut chan_of: Vec<usize> = vec![];
    w.new_handle(None).unwrap();
    chan_of.push(0);
    for _ in 0..rng.below(4) {
        let from = rng.below(chan_of.len());
        let sibling = rng.chance(2, 3);
        let h = w.new_handle(Some((from, sibling))).unwrap();
        chan_of.push(if sibling { h } else { chan_of[from] });
    }
    out.line(format!("wnew {cap}"), "ok".into());

    let mut cmds: Vec<Cmd> = vec![];
    let mut stay_short: Vec<bool> = vec![];
    let mut chan_len = 0usize; // commands in the command channel
    let mut closed = false;
    let mut slab: BTreeMap<u64, usize> = BTreeMap::new(); // key -> id, as the pushes tell
    let mut sq: Vec<u64> = vec![];
    let mut inflight: Vec<u64> = vec![];
    let mut cqp: Vec<(u64, i64, i32)> = vec![]; // completed by the kernel, not yet shown to the worker
    let mut retries = 0usize;
    let mut park: Option<WorkerEvent> = None; // None: the worker has not been released yet (blocked in recv)
    let mut steps = 0usize;
    let mut sig = String::new();

    loop {
        steps += 1;
        let winding_down = steps > budget;
        let mut acts: Vec<String> = vec![];
        // --- environment actions at this park
        if !closed {
            let nsend = if big && steps < 4 { rng.range(400, 700) } else if winding_down { 0 } else { *rng.pick(&[0, 0, 1, 1, 2, 5]) };
            for _ in 0..nsend {
                let h = rng.below(chan_of.len());
                let read = rng.chance(1, 2);
                let id = cmds.len();
                let kind = if read { 0 } else { rng.range(1, 3) as u8 };
                if !w.send(h, kind, 1000 + chan_of[h] as i32, id as u64, id as u64) {
                    out.fail(format!("C14 iopool ({tag}): send on an open pool failed"));
                }
                cmds.push(Cmd { chan: chan_of[h], read, hist: vec![], pushes: 0, delivered: None });
                stay_short.push(persistent && rng.chance(1, 4));
                chan_len += 1;
                acts.push(format!("s:{}:{}", chan_of[h], if read { "r" } else { "w" }));
            }
            if winding_down || rng.chance(1, 40) {
                w.close();
                closed = true;
                acts.push("x".into());
                if w.send(0, 1, 1000, 0, 0) {
                    out.fail(format!("C14 iopool ({tag}): send after shutdown succeeded"));
                }
                if w.new_handle(None).is_some() {
                    out.fail(format!("C14 iopool ({tag}): make_handle after shutdown"));
                }
            }
        }
        // the kernel completes some in-flight entries
        let ncomp = if winding_down { inflight.len() } else { rng.below(inflight.len() + 1).min(if big { 600 } else { 6 }) };
        for _ in 0..ncomp {
            let j = rng.below(inflight.len());
            let key = inflight.remove(j);
            let id = slab[&key];
            let (res, errno) = gen_cqe_result(rng, cmds[id].read, stay_short[id]);
            let (res, errno) = if winding_down && !stay_short[id] && rng.chance(3, 4) { (PAGE, 0) } else { (res, errno) };
            cqp.push((key, res, errno));
            acts.push(format!("k:{key}:{res}:{errno}"));
        }
        if spurious_on && matches!(park, Some(WorkerEvent::CqSync)) && rng.chance(1, 3) {
            // a completion for a key the slab does not hold
            let key = (0..40u64).find(|k| !slab.contains_key(k)).unwrap_or(9999) + rng.below(3) as u64 * 50;
            if !slab.contains_key(&key) {
                cqp.push((key, PAGE, 0));
                acts.push(format!("q:{key}:4096:0"));
                out.count("w_spurious");
            }
        }
        // --- answer the park
        let mut sr = "ok";
        let resume = match &park {
            None => None,
            Some(WorkerEvent::CqSync) => {
                let v: Vec<(u64, i32, i32)> = cqp.iter().map(|(k, r, e)| (*k, *r as i32, *e)).collect();
                // what the worker will do with them (the oracle's prediction of its queues)
                for (key, res, errno) in cqp.drain(..) {
                    if let Some(id) = slab.remove(&key) {
                        cmds[id].hist.push((res, errno));
                        if expected_worker(cmds[id].read, &cmds[id].hist).is_none() {
                            retries += 1;
                        }
                    }
                }
                Some(Resume::Cqes(v))
            }
            Some(WorkerEvent::Push { .. }) => Some(Resume::Go),
            Some(WorkerEvent::Submit { wait, .. }) => {
                let pick = rng.below(400);
                if pick == 0 && !big {
                    sr = "err";
                    acts.push("e:err".into());
                    Some(Resume::Submit(Err(16))) // EBUSY
                } else if pick < 30 {
                    sr = "eintr";
                    acts.push("e:eintr".into());
                    Some(Resume::Submit(Err(EINTR)))
                } else {
                    acts.push("e:ok".into());
                    inflight.extend(sq.drain(..));
                    if *wait == 1 && cqp.is_empty() {
                        // submit_and_wait(1) returns only when a completion is there
                        let key = inflight.remove(rng.below(inflight.len()));
                        cqp.push((key, PAGE, 0));
                        acts.push(format!("k:{key}:4096:0"));
                        out.count("w_wait1");
                    }
                    Some(Resume::Submit(Ok(0)))
                }
            }
            Some(_) => None,
        };
        // the worker must not be released into a `recv()` that nobody will ever answer
        let will_block = slab.is_empty() && retries == 0 && chan_len == 0 && !closed;
        let releasing_to_recv = match &park {
            None => true,
            Some(WorkerEvent::CqSync) => true,
            Some(WorkerEvent::Submit { .. }) => sr == "ok",
            _ => false,
        };
        if will_block && releasing_to_recv {
            let id = cmds.len();
            let read = rng.chance(1, 2);
            w.send(0, if read { 0 } else { 1 }, 1000, id as u64, id as u64);
            cmds.push(Cmd { chan: 0, read, hist: vec![], pushes: 0, delivered: None });
            stay_short.push(false);
            chan_len += 1;
            acts.insert(0, format!("s:0:{}", if read { "r" } else { "w" }));
            out.count("w_forced_send");
        }
        if let Some(r) = resume {
            w.resume(r);
        }
        // --- next park
        let ev = match w.event(10_000) {
            Some(ev) => ev,
            None => {
                out.fail(format!("C14 iopool ({tag}): the worker made no call into the ring for 10 s (hang) after {acts:?}"));
                return;
            }
        };
        // deliveries since the last park, by channel
        let mut dl: Vec<String> = vec![];
        let mut chans: Vec<usize> = chan_of.clone();
        chans.sort();
        chans.dedup();
        for c in chans {
            let h = chan_of.iter().position(|x| *x == c).unwrap();
            for d in w.drain(h) {
                let id = d.user_data as usize;
                if id >= cmds.len() {
                    out.fail(format!("C14 iopool ({tag}): completion of an unknown command {d:?}"));
                    continue;
                }
                if cmds[id].chan != c {
                    out.fail(format!("C14 iopool ({tag}): command {id} sent on channel {} completed on channel {c}", cmds[id].chan));
                }
                if cmds[id].delivered.is_some() {
                    out.fail(format!("C14 iopool ({tag}): command {id} completed twice"));
                }
                let want = expected_worker(cmds[id].read, &cmds[id].hist);
                if want.as_ref() != Some(&d.result) {
                    out.fail(format!("C14 iopool ({tag}): command {id} completed {} after attempts {:?}, table says {:?}", show(&d.result), cmds[id].hist, want));
                }
                if (d.kind == 0) != cmds[id].read || d.pn != id as u64 {
                    out.fail(format!("C14 iopool ({tag}): completion {d:?} does not carry command {id}"));
                }
                out.count(&format!("w_done_{}", show(&d.result).trim_end_matches(char::is_numeric)));
                cmds[id].delivered = Some(d.result.clone());
                dl.push(format!("d:{id}:{c}:{}", show(&d.result)));
            }
        }
        let evs = match &ev {
            WorkerEvent::CqSync => "cq".to_string(),
            WorkerEvent::Push { user_data, opcode, fd, off, len } => {
                let id = (*off / 4096) as usize;
                if id >= cmds.len() || *len != 4096 || *off % 4096 != 0 {
                    out.fail(format!("C14 iopool ({tag}): submission entry {ev:?} is no command's page"));
                    return;
                }
                // IORING_OP_READ = 22, IORING_OP_WRITE = 23
                if *opcode != if cmds[id].read { 22 } else { 23 } || *fd != 1000 + cmds[id].chan as i32 {
                    out.fail(format!("C14 iopool ({tag}): submission entry {ev:?} does not match command {id}"));
                }
                if slab.contains_key(user_data) || sq.contains(user_data) || inflight.contains(user_data) || cqp.iter().any(|c| c.0 == *user_data) {
                    out.fail(format!("C14 iopool ({tag}): slab key {user_data} reused while its entry is still in flight"));
                }
                if cmds[id].delivered.is_some() {
                    out.fail(format!("C14 iopool ({tag}): command {id} issued again after its completion"));
                }
                let attempts = cmds[id].hist.len();
                if attempts > 0 {
                    if retries == 0 {
                        out.fail(format!("C14 iopool ({tag}): command {id} reissued after attempts {:?} although its result is decided", cmds[id].hist));
                        return;
                    }
                    retries -= 1;
                    out.count("w_retry_push");
                } else {
                    if chan_len == 0 {
                        out.fail(format!("C14 iopool ({tag}): command {id} accepted twice"));
                        return;
                    }
                    chan_len -= 1;
                }
                cmds[id].pushes += 1;
                if cmds[id].pushes > MAXA {
                    out.fail(format!("C14 iopool ({tag}): command {id} issued {} times > MAX_IO_ATTEMPTS", cmds[id].pushes));
                    return;
                }
                slab.insert(*user_data, id);
                sq.push(*user_data);
                if slab.len() == hook::REAL_MAX_IN_FLIGHT {
                    out.count("w_slab_full");
                }
                format!("push:{user_data}:{id}:{attempts}")
            }
            WorkerEvent::Submit { wait, queued } => {
                if *queued != sq.len() {
                    out.fail(format!("C14 iopool ({tag}): {queued} entries queued, {} pushed", sq.len()));
                }
                if (*wait == 1) != (slab.len() == hook::REAL_MAX_IN_FLIGHT) {
                    out.fail(format!("C14 iopool ({tag}): wait = {wait} with {} commands in the slab", slab.len()));
                }
                format!("submit:{wait}:{queued}")
            }
            WorkerEvent::Exit => "exit".to_string(),
            WorkerEvent::Panicked(_) => "panic".to_string(),
        };
        out.line(format!("w {}", if acts.is_empty() { "-".to_string() } else { acts.join(";") }), format!("{} {evs}", if dl.is_empty() { "-".to_string() } else { dl.join(",") }));
        sig.push_str(&evs[..1]);
        out.count(&format!("w_ev_{}", evs.split(':').next().unwrap()));
        match ev {
            WorkerEvent::Exit => {
                if !closed {
                    out.fail(format!("C14 iopool ({tag}): the worker exited although the pool was not shut down"));
                }
                let undone = cmds.iter().filter(|c| c.delivered.is_none()).count();
                if undone > 0 {
                    out.fail(format!("C14 iopool ({tag}): the worker exited with {undone} commands not completed"));
                }
                break;
            }
            WorkerEvent::Panicked(m) => {
                if sr != "err" {
                    out.fail(format!("C14 iopool ({tag}): the worker panicked: {m}"));
                }
                out.count("w_submit_error_panic");
                out.add("w_stranded_by_panic", cmds.iter().filter(|c| c.delivered.is_none()).count() as u64);
                break;
            }
            _ => {}
        }
        park = Some(ev);
        if steps > budget + 40_000 {
            out.fail(format!("C14 iopool ({tag}): the worker does not wind down"));
            return;
        }
    }
    let delivered = cmds.iter().filter(|c| c.delivered.is_some()).count();
    out.line("wend".into(), format!("sent={} delivered={delivered} outstanding={}", cmds.len(), cmds.len() - delivered));
    out.add("w_commands", cmds.len() as u64);
    out.add("w_attempts", cmds.iter().map(|c| c.pushes as u64).sum());
    if cmds.iter().any(|c| c.pushes == MAXA) {
        out.count("w_case_with_16_attempts");
    }
    out.nontrivial(&format!("{cap} {} {sig}", cmds.len()));
    w.join();
}

// ------------------------------------------------------------------------------------------------
// the real pool (io_uring) on real files

fn pool_case(rng: &mut Rng, out: &mut Sink, tag: &str, dir: &str) {
    let mut pool = RealPool::start(rng.range(1, 3));
    let sibling = pool.sibling();
    let path = format!("{dir}/rp.bin");
    for _ in 0..5 {
        let scenario = rng.below(8);
        let pn = rng.range(0, 6) as u64;
        let fill = rng.range(1, 250) as u8;
        let base = pn * 4096;
        let _ = std::fs::remove_file(&path);
        let (read, what, want, answers): (bool, &str, IoRes, Vec<(i64, i32)>) = match scenario {
            0 => (false, "write within the limit", IoRes::Ok, vec![(PAGE, 0)]),
            1 => (false, "write straddling RLIMIT_FSIZE", IoRes::Short, vec![]),
            2 => (false, "write at RLIMIT_FSIZE", IoRes::Os(27), vec![(-1, 27)]),
            3 => (false, "write to /dev/full", IoRes::Os(28), vec![(-1, 28)]),
            4 => (false, "write on a read-only descriptor", IoRes::Os(9), vec![(-1, 9)]),
            5 => (true, "read of a whole page", IoRes::Ok, vec![(PAGE, 0)]),
            6 => (true, "read of a partial last page", IoRes::Short, vec![]),
            _ => (true, "read at the end of the file", IoRes::Ok, vec![(0, 0)]),
        };
        let part = rng.range(1, 4095);
        let file = match scenario {
            3 => std::fs::OpenOptions::new().write(true).open("/dev/full").unwrap(),
            4 => {
                std::fs::write(&path, vec![1u8; 8 * 4096]).unwrap();
                std::fs::File::open(&path).unwrap()
            }
            5 => {
                std::fs::write(&path, vec![fill; base as usize + 4096 + rng.below(3) * 100]).unwrap();
                std::fs::File::open(&path).unwrap()
            }
            6 => {
                std::fs::write(&path, vec![fill; base as usize + part]).unwrap();
                std::fs::File::open(&path).unwrap()
            }
            7 => {
                std::fs::write(&path, vec![fill; base as usize]).unwrap();
                std::fs::File::open(&path).unwrap()
            }
            _ => std::fs::OpenOptions::new().read(true).write(true).create(true).open(&path).unwrap(),
        };
        let limit = match scenario {
            0 => Some(base + 4096),
            1 => Some(base + part as u64),
            2 => Some(base),
            _ => None,
        };
        let answers = if answers.is_empty() { vec![(part as i64, 0); MAXA] } else { answers };
        let before = hook::PUSHES.load(std::sync::atomic::Ordering::SeqCst);
        let old = set_fsize(limit);
        let ud = rng.next();
        pool.send(if read { 0 } else { rng.range(1, 3) as u8 }, file.as_raw_fd(), pn, ud, fill);
        let got = pool.recv(10_000);
        set_fsize(Some(old));
        let pushes = hook::PUSHES.load(std::sync::atomic::Ordering::SeqCst) - before;
        let Some(done) = got else {
            out.fail(format!("C14 pool {what} ({tag}): no completion after 10 s (hang)"));
            return;
        };
        // the expected answers of the kernel as a script line for the model of the retry loop
        let mut padded = answers.clone();
        while padded.len() < MAXA {
            padded.push((PAGE, 0));
        }
        let line = padded.iter().map(|(r, e)| format!("{r}:{e}")).collect::<Vec<_>>().join(",");
        out.line(format!("ux {} {line}", if read { "r" } else { "w" }), format!("{} n={pushes}", show(&done.result)));
        if done.result != want || done.user_data != ud || done.pn != pn {
            out.fail(format!("C14 pool {what} ({tag}): completion {done:?}, expected {}", show(&want)));
        }
        if pushes as usize > MAXA {
            out.fail(format!("C14 pool {what} ({tag}): {pushes} attempts > MAX_IO_ATTEMPTS"));
        }
        if pool.try_recv().is_some() || sibling.try_recv().is_some() {
            out.fail(format!("C14 pool {what} ({tag}): a second completion"));
        }
        if scenario == 0 {
            let data = std::fs::read(&path).unwrap();
            if data.len() < base as usize + 4096 || data[base as usize + 8..base as usize + 4096].iter().any(|b| *b != fill) {
                out.fail(format!("C14 pool {what} ({tag}): Ok but the page is not in the file"));
            }
        }
        if scenario == 5 && done.head != Some([fill; 8]) {
            out.fail(format!("C14 pool {what} ({tag}): Ok but the buffer does not hold the page"));
        }
        out.count(&format!("rp_{scenario}"));
        out.add("rp_attempts", pushes);
        out.nontrivial(&format!("rp {scenario} {pn} {part}"));
    }
    // commands in flight at shutdown are completed before the workers exit
    let _ = std::fs::remove_file(&path);
    let file = std::fs::OpenOptions::new().read(true).write(true).create(true).open(&path).unwrap();
    let n = rng.range(1, 300);
    for i in 0..n {
        pool.send(1, file.as_raw_fd(), i as u64, i as u64, 9);
    }
    pool.shutdown();
    let mut seen = vec![false; n];
    while let Some(d) = pool.try_recv() {
        if d.result != IoRes::Ok || seen[d.user_data as usize] {
            out.fail(format!("C14 pool shutdown ({tag}): completion {d:?}"));
        }
        seen[d.user_data as usize] = true;
    }
    if seen.iter().any(|s| !s) {
        out.fail(format!("C14 pool shutdown ({tag}): {} of {n} commands sent before shutdown were never completed", seen.iter().filter(|s| !**s).count()));
    }
    if pool.send(1, file.as_raw_fd(), 0, 0, 0) {
        out.fail(format!("C14 pool shutdown ({tag}): send after shutdown succeeded"));
    }
    out.add("rp_shutdown_inflight", n as u64);
}

// ------------------------------------------------------------------------------------------------
// write_ht

fn write_ht_case(rng: &mut Rng, out: &mut Sink, tag: &str, dir: &str) {
    let mut pool = RealPool::start(rng.range(1, 2));
    let path = format!("{dir}/ht.bin");
    for _ in 0..3 {
        let _ = std::fs::remove_file(&path);
        let file = std::fs::OpenOptions::new().read(true).write(true).create(true).open(&path).unwrap();
        let fd = file.as_raw_fd();
        let n = rng.range(0, 40);
        let mut pns: Vec<u64> = (0..64).collect();
        for i in 0..n {
            let j = i + rng.below(64 - i);
            pns.swap(i, j);
        }
        let pages: Vec<(u64, u8)> = pns[..n].iter().map(|pn| (*pn, (*pn as u8) + 1)).collect();
        let nfail = *rng.pick(&[0, 0, 1, 1, 2, 5]);
        let mut failing: BTreeMap<u64, i32> = BTreeMap::new();
        for _ in 0..nfail.min(n) {
            failing.insert(pages[rng.below(n)].0, *rng.pick(&[5, 28, 122, 27]));
        }
        {
            let mut g = INJECT.lock().unwrap();
            let inj = g.as_mut().unwrap();
            inj.writes.clear();
            for (pn, e) in &failing {
                inj.writes.insert((fd, *pn), *e);
            }
        }
        let result = pool.write_ht(&file, &pages);
        let mut left = 0;
        while pool.try_recv().is_some() {
            left += 1;
        }
        INJECT.lock().unwrap().as_mut().unwrap().writes.clear();
        // arrivals: the injected failures complete at `send`, in page order
        let mut arrivals: Vec<String> = failing.values().map(|e| format!("os{e}")).collect();
        arrivals.extend((0..n - failing.len()).map(|_| "ok".to_string()));
        out.line(format!("ht {n} {}", if arrivals.is_empty() { "-".into() } else { arrivals.join(",") }), format!("{} left={left}", show(&result)));
        let want = failing.values().next().map_or(IoRes::Ok, |e| IoRes::Os(*e));
        if result != want {
            out.fail(format!("C14 write_ht ({tag}): result {}, expected {} (failing pages {failing:?})", show(&result), show(&want)));
        }
        if left != 0 {
            out.fail(format!("C14 write_ht ({tag}): returned with {left} completions not received"));
        }
        let data = std::fs::read(&path).unwrap();
        for (pn, fill) in &pages {
            let lo = *pn as usize * 4096;
            let written = data.len() >= lo + 4096 && data[lo..lo + 4096].iter().all(|b| b == fill);
            if written == failing.contains_key(pn) {
                out.fail(format!("C14 write_ht ({tag}): page {pn} written = {written}, injected failure = {}", failing.contains_key(pn)));
            }
        }
        out.count(if failing.is_empty() { "ht_ok" } else { "ht_err" });
        out.nontrivial(&format!("ht {n} {failing:?}"));
    }
    pool.shutdown();
}

// ------------------------------------------------------------------------------------------------
// Fsyncer

fn fsyncer_case(rng: &mut Rng, out: &mut Sink, tag: &str, dir: &str) {
    let path = format!("{dir}/fs.bin");
    let file = std::fs::OpenOptions::new().read(true).write(true).create(true).open(&path).unwrap();
    let fd = file.as_raw_fd();
    INJECT.lock().unwrap().as_mut().unwrap().fsyncs.insert(fd, VecDeque::new());
    let f = FsyncerSim::new(file);
    out.line("fnew".into(), "ok".into());
    // the oracle's own state: 0 idle, 1 requested (result known)
    let mut outstanding: Option<IoRes> = None;
    let nops = rng.range(2, 14);
    let mut gen = 0;
    for i in 0..nops {
        let last = i + 1 == nops;
        let op = rng.below(10);
        if op < 5 || (outstanding.is_none() && !(last && rng.chance(1, 3))) {
            // fsync; results carry the generation so that a stale one is visible
            gen += 1;
            let r = if rng.chance(1, 2) { IoRes::Ok } else { IoRes::Os(100 + gen % 20) };
            if outstanding.is_none() {
                let inj = match &r {
                    IoRes::Os(e) => Some(*e),
                    _ => None,
                };
                INJECT.lock().unwrap().as_mut().unwrap().fsyncs.get_mut(&fd).unwrap().push_back(inj);
            }
            let ok = f.fsync();
            out.line(format!("ffsync {}", show(&r)), if ok { "ok".into() } else { "panic".to_string() });
            if ok != outstanding.is_none() {
                out.fail(format!("C04 fsyncer ({tag}): fsync() accepted = {ok} with an unconsumed request = {}", outstanding.is_some()));
            }
            if ok {
                outstanding = Some(r);
                out.count("fs_fsync");
            } else {
                out.count("fs_fsync_panic");
            }
        } else {
            let got = f.wait(if outstanding.is_some() { 10_000 } else { 150 });
            out.line("fwait".into(), got.as_ref().map_or("blocked".into(), show));
            if got != outstanding {
                out.fail(format!("C04 fsyncer ({tag}): wait() returned {got:?}, the request before it has result {outstanding:?}"));
            }
            if got.is_none() {
                out.count("fs_wait_blocked");
                break; // the blocked waiter would take the next result
            }
            outstanding = None;
            out.count("fs_wait");
        }
    }
    INJECT.lock().unwrap().as_mut().unwrap().fsyncs.remove(&fd);
    out.nontrivial(&format!("fs {nops} {gen}"));
}
