//! C07 / C08 / C18 (multi-proof part): differential of `MultiProof::from_path_proofs`,
//! `verify_multi_proof`, `VerifiedMultiProof::{find_index_for, confirm_*}` and
//! `verify_multi_proof_update` against the Lean mirrors (`lean/NomtModel/Core/MultiProof.lean`), plus
//! oracles that do not involve the model: the key-value set itself (C08), the single-path verifier
//! (C07), the reference root of the updated set (C07) and "no panic on any input" (C18).
use crate::core_pp::{gen_kv, gen_ops_in_scope, gen_query, term_str, terminal_of, KV};
use crate::util::*;
use bitvec::prelude::*;
use nomt_core::hasher::{Blake3Hasher, NodeHasher};
use nomt_core::proof::{
    verify_multi_proof, verify_multi_proof_update, verify_update, MultiPathProof, MultiProof, PathProof,
    PathProofTerminal, PathUpdate, VerifiedMultiProof,
};
use nomt_core::trie::{InternalData, LeafData, Node, TERMINATOR};
use nomt_core::trie_pos::TriePosition;
use std::panic::{catch_unwind, AssertUnwindSafe};

type Ops = Vec<(Key, Option<[u8; 32]>)>;

fn lookup(kv: &KV, k: &Key) -> Option<[u8; 32]> {
    kv.binary_search_by(|(x, _)| x.cmp(k)).ok().map(|i| kv[i].1)
}

fn apply_ops(kv: &KV, ops: &[(Key, Option<[u8; 32]>)]) -> KV {
    let mut m: std::collections::BTreeMap<Key, [u8; 32]> = kv.iter().cloned().collect();
    for (k, v) in ops {
        match v {
            Some(v) => {
                m.insert(*k, *v);
            }
            None => {
                m.remove(k);
            }
        }
    }
    m.into_iter().collect()
}

fn mk_terminator(bits: &BitSlice<u8, Msb0>) -> PathProofTerminal {
    if bits.is_empty() {
        PathProofTerminal::Terminator(TriePosition::new())
    } else {
        PathProofTerminal::Terminator(TriePosition::from_bitslice(bits))
    }
}

/// a 32-byte key starting with the terminal's path (zero padded)
fn path_key(t: &PathProofTerminal) -> Key {
    let mut k = [0u8; 32];
    let p = t.path();
    k.view_bits_mut::<Msb0>()[..p.len()].copy_from_bitslice(p);
    k
}

fn pp_str(p: &PathProof) -> String {
    format!("{};{}", term_str(&p.terminal), nodes_line(&p.siblings))
}

fn paths_str(ps: &[MultiPathProof]) -> String {
    if ps.is_empty() {
        return "-".into();
    }
    ps.iter().map(|p| format!("{}@{}", term_str(&p.terminal), p.depth)).collect::<Vec<_>>().join("|")
}

fn num_after<'a>(s: &'a str, tag: &str) -> Option<(&'a str, &'a str)> {
    let i = s.find(tag)? + tag.len();
    let rest = &s[i..];
    let end = rest.find(|c: char| !c.is_ascii_digit()).unwrap_or(rest.len());
    Some((&rest[..end], &rest[end..]))
}

/// the private fields of `VerifiedMultiProof` (depth / unique sibling range of every path, start depth /
/// common sibling range of every bisection), read off its `Debug` rendering
fn verified_shape(v: &VerifiedMultiProof) -> (String, String) {
    let s = format!("{:?}", v);
    let bis_at = s.find("], bisections: [").unwrap_or(s.len());
    let (inner_s, rest) = s.split_at(bis_at);
    let mut inner = Vec::new();
    for seg in inner_s.split("VerifiedMultiPath {").skip(1) {
        let (d, r) = num_after(seg, ", depth: ").unwrap_or(("?", ""));
        let (a, r) = num_after(r, "unique_siblings: ").unwrap_or(("?", ""));
        let (b, _) = num_after(r, "..").unwrap_or(("?", ""));
        inner.push(format!("{d}:{a}-{b}"));
    }
    let sib_at = rest.find("], siblings: [").unwrap_or(rest.len());
    let mut bis = Vec::new();
    for seg in rest[..sib_at].split("VerifiedBisection {").skip(1) {
        let (d, r) = num_after(seg, "start_depth: ").unwrap_or(("?", ""));
        let (a, r) = num_after(r, "common_siblings: ").unwrap_or(("?", ""));
        let (b, _) = num_after(r, "..").unwrap_or(("?", ""));
        bis.push(format!("{d}:{a}-{b}"));
    }
    let j = |v: Vec<String>| if v.is_empty() { "-".to_string() } else { v.join(",") };
    (j(inner), j(bis))
}

fn mverify_line(out: &mut Sink, reg: usize, mp: &MultiProof, root: Node, shape: &str) -> Option<VerifiedMultiProof> {
    let op = format!("mverify {} {} {} {}", reg, hex(&root), paths_str(&mp.paths), nodes_line(&mp.siblings));
    let r = catch_unwind(AssertUnwindSafe(|| verify_multi_proof::<Blake3Hasher>(mp, root)));
    match r {
        Ok(Ok(v)) => {
            let (inner, bis) = verified_shape(&v);
            // `aligned`: the model's run-time re-check of theorem C07.T7_1 on everything the
            // implementation accepts
            out.line(op, format!("ok {inner} {bis} aligned"));
            out.count("mverify_ok");
            Some(v)
        }
        Ok(Err(e)) => {
            out.line(op, format!("err {:?}", e));
            out.count(&format!("mverify_err_{:?}", e));
            None
        }
        Err(_) => {
            let mut short = op.clone();
            short.truncate(600);
            out.fail(format!("C18 PANIC in verify_multi_proof: {shape} :: {short}"));
            out.line(op, "panic".into());
            out.count("mverify_panic");
            out.count(&format!("mverify_panic_{shape}"));
            None
        }
    }
}

fn scope_str(r: std::thread::Result<Result<bool, nomt_core::proof::KeyOutOfScope>>) -> String {
    match r {
        Ok(Ok(b)) => b.to_string(),
        Ok(Err(_)) => "oos".into(),
        Err(_) => "panic".into(),
    }
}

/// `mfind` / `mcvalue` / `mcnon` / `…_idx` lines for one key; oracles when `truth`
#[allow(clippy::too_many_arguments)]
fn confirm_lines(
    rng: &mut Rng,
    out: &mut Sink,
    reg: usize,
    kv: &KV,
    root: Node,
    truth: bool,
    must_be_in_scope: bool,
    v: &VerifiedMultiProof,
    npaths: usize,
    k: Key,
    vh: [u8; 32],
) {
    let leaf = LeafData { key_path: k, value_hash: vh };
    // find_index_for
    let r = catch_unwind(AssertUnwindSafe(|| v.find_index_for(&k)));
    let (s, found) = match r {
        Ok(Ok(i)) => (format!("ok {i}"), Some(i)),
        Ok(Err(_)) => ("oos".to_string(), None),
        Err(_) => {
            out.fail(format!("C18 PANIC in find_index_for: key {}", hex(&k)));
            ("panic".to_string(), None)
        }
    };
    out.line(format!("mfind {} {}", reg, hex(&k)), s);
    if must_be_in_scope && found.is_none() {
        out.fail(format!("C07 key {} whose terminal is part of the honest multi-proof is out of scope", hex(&k)));
    }
    // the single-path answer for the same key (C07)
    let single = if truth {
        let (t, sibs) = ref_prove(kv, &k);
        let p = PathProof { terminal: terminal_of(&t, &k), siblings: sibs };
        p.verify::<Blake3Hasher>(k.view_bits::<Msb0>(), root).ok()
    } else {
        None
    };
    // confirm_value
    let r = catch_unwind(AssertUnwindSafe(|| v.confirm_value(&leaf)));
    if let Ok(Ok(b)) = &r {
        if truth {
            let is_in = lookup(kv, &k) == Some(vh);
            if *b != is_in {
                out.fail(format!("C08 FALSE STATEMENT multi confirm_value({},{})={} but membership={}", hex(&k), hex(&vh), b, is_in));
            }
            match single.as_ref().map(|s| s.confirm_value(&leaf)) {
                Some(Ok(b2)) if b2 == *b => {}
                other => out.fail(format!("C07 multi confirm_value({},{})={} but single path says {:?}", hex(&k), hex(&vh), b, other)),
            }
            out.count("mconfirm_checked_vs_truth");
        }
    }
    if r.is_err() {
        out.fail(format!("C18 PANIC in confirm_value: key {}", hex(&k)));
    }
    out.line(format!("mcvalue {} {} {}", reg, hex(&k), hex(&vh)), scope_str(r));
    // confirm_nonexistence
    let r = catch_unwind(AssertUnwindSafe(|| v.confirm_nonexistence(&k)));
    if let Ok(Ok(b)) = &r {
        if truth {
            let absent = lookup(kv, &k).is_none();
            if *b != absent {
                out.fail(format!("C08 FALSE STATEMENT multi confirm_nonexistence({})={} but absent={}", hex(&k), b, absent));
            }
            match single.as_ref().map(|s| s.confirm_nonexistence(&k)) {
                Some(Ok(b2)) if b2 == *b => {}
                other => out.fail(format!("C07 multi confirm_nonexistence({})={} but single path says {:?}", hex(&k), b, other)),
            }
            out.count("mconfirm_checked_vs_truth");
        }
    }
    if r.is_err() {
        out.fail(format!("C18 PANIC in confirm_nonexistence: key {}", hex(&k)));
    }
    out.line(format!("mcnon {} {}", reg, hex(&k)), scope_str(r));
    // …_with_index: the found index, or any index (one past the end = the documented panic)
    let idx = match found {
        Some(i) if rng.chance(2, 3) => i,
        _ => rng.below(npaths.max(1) + 1),
    };
    let in_range = idx < npaths.max(1);
    let r = catch_unwind(AssertUnwindSafe(|| v.confirm_value_with_index(&leaf, idx)));
    if let Ok(Ok(b)) = &r {
        if truth && *b != (lookup(kv, &k) == Some(vh)) {
            out.fail(format!("C08 FALSE STATEMENT confirm_value_with_index({},{},{})={}", hex(&k), hex(&vh), idx, b));
        }
    }
    if r.is_err() && in_range {
        out.fail(format!("C18 PANIC in confirm_value_with_index: key {} idx {}", hex(&k), idx));
    }
    out.line(format!("mcvalue_idx {} {} {} {}", reg, idx, hex(&k), hex(&vh)), scope_str(r));
    let r = catch_unwind(AssertUnwindSafe(|| v.confirm_nonexistence_with_index(&k, idx)));
    if let Ok(Ok(b)) = &r {
        if truth && *b != lookup(kv, &k).is_none() {
            out.fail(format!("C08 FALSE STATEMENT confirm_nonexistence_with_index({},{})={}", hex(&k), idx, b));
        }
    }
    if r.is_err() && in_range {
        out.fail(format!("C18 PANIC in confirm_nonexistence_with_index: key {} idx {}", hex(&k), idx));
    }
    out.line(format!("mcnon_idx {} {} {}", reg, idx, hex(&k)), scope_str(r));
    if !in_range {
        out.count("mconfirm_idx_out_of_range");
    }
}

/// keys to ask a verified multi-proof about: the query keys, keys around every terminal, random keys
fn confirm_keys(rng: &mut Rng, kv: &KV, mp: &MultiProof, queries: &[Key]) -> Vec<(Key, [u8; 32])> {
    let mut ks: Vec<(Key, [u8; 32])> = Vec::new();
    for q in queries.iter().take(4) {
        ks.push((*q, lookup(kv, q).unwrap_or_else(|| rng.bytes32())));
    }
    if !mp.paths.is_empty() {
        for _ in 0..2 {
            let p = rng.pick(&mp.paths).clone();
            let base = path_key(&p.terminal);
            let plen = p.depth.min(p.terminal.path().len());
            match rng.below(4) {
                0 => {
                    if let PathProofTerminal::Leaf(l) = &p.terminal {
                        ks.push((l.key_path, l.value_hash));
                        ks.push((l.key_path, rng.bytes32()));
                    }
                }
                1 => ks.push((with_prefix(rng, &base, plen), rng.bytes32())),
                2 if plen > 0 => {
                    let d = rng.below(plen);
                    ks.push((diverge_at(rng, &base, d), rng.bytes32()))
                }
                _ => ks.push((diverge_at(rng, &base, plen.min(255)), rng.bytes32())),
            }
        }
    }
    if !kv.is_empty() {
        ks.push(*rng.pick(kv));
    }
    ks.push((rng.bytes32(), rng.bytes32()));
    ks
}

fn mupdate_line(
    out: &mut Sink,
    reg: usize,
    v: &VerifiedMultiProof,
    ops: &Ops,
    shape: &str,
) -> Option<Result<Node, String>> {
    let op = format!("mupdate {} {}", reg, ops_line(ops));
    let r = catch_unwind(AssertUnwindSafe(|| verify_multi_proof_update::<Blake3Hasher>(v, ops.clone())));
    out.nontrivial(&op);
    match r {
        Ok(Ok(n)) => {
            out.line(op, format!("ok {}", hex(&n)));
            out.count("mupdate_ok");
            Some(Ok(n))
        }
        Ok(Err(e)) => {
            out.line(op, format!("err {:?}", e));
            out.count(&format!("mupdate_err_{:?}", e));
            Some(Err(format!("{:?}", e)))
        }
        Err(_) => {
            let mut short = op.clone();
            short.truncate(400);
            out.fail(format!("C18 PANIC in verify_multi_proof_update: {shape} :: {short} :: after {}", {
                let mut l = out.ops.iter().rev().find(|l| l.starts_with(&format!("mverify {reg} "))).cloned().unwrap_or_default();
                l.truncate(600);
                l
            }));
            out.line(op, "panic".into());
            out.count("mupdate_panic");
            None
        }
    }
}

/// in-scope write sets for the paths of `mp` (sorted, deduplicated), per path
fn gen_update_ops(rng: &mut Rng, kv: &KV, mp: &MultiProof) -> Vec<(usize, Ops)> {
    let mut per_path: Vec<(usize, Ops)> = Vec::new();
    if mp.paths.is_empty() {
        // the whole (empty) trie is in scope
        let any = rng.bytes32();
        let ops = gen_ops_in_scope(rng, kv, &any, 0, None);
        per_path.push((0, ops));
        return per_path;
    }
    let force = rng.below(mp.paths.len());
    for (i, p) in mp.paths.iter().enumerate() {
        if i != force && !rng.chance(1, 2) {
            continue;
        }
        let key = path_key(&p.terminal);
        let plen = p.depth.min(p.terminal.path().len()).min(256);
        let leaf = match &p.terminal {
            PathProofTerminal::Leaf(l) => Some(l.key_path),
            _ => None,
        };
        per_path.push((i, gen_ops_in_scope(rng, kv, &key, plen, leaf)));
    }
    per_path
}

fn flatten(per_path: &[(usize, Ops)]) -> Ops {
    let mut all: Ops = per_path.iter().flat_map(|(_, o)| o.iter().cloned()).collect();
    all.sort_by(|a, b| a.0.cmp(&b.0));
    all.dedup_by(|a, b| a.0 == b.0);
    all
}

/// update lines against a verified multi-proof.  `truth`: the proof was verified against the true
/// root of `kv` (then the result must be the reference root of the updated set and agree with the
/// single-path `verify_update`); `honest`: additionally the proof object is the honest one (then the
/// update must not be rejected).
#[allow(clippy::too_many_arguments)]
fn update_lines(
    rng: &mut Rng,
    out: &mut Sink,
    reg: usize,
    kv: &KV,
    root: Node,
    mp: &MultiProof,
    v: &VerifiedMultiProof,
    truth: bool,
    honest: bool,
    shape: &str,
) {
    let per_path = gen_update_ops(rng, kv, mp);
    let all = flatten(&per_path);
    let res = mupdate_line(out, reg, v, &all, shape);
    if truth {
        let expect = ref_root(&apply_ops(kv, &all));
        match &res {
            Some(Ok(n)) => {
                if *n != expect {
                    out.fail(format!(
                        "C07 verify_multi_proof_update root {} != reference root of the updated set {} ({shape}) :: {}",
                        hex(n), hex(&expect), out.ops.last().unwrap()
                    ));
                }
                out.count("mupdate_checked_vs_truth");
                // the single-path verify_update on the same write set
                let mut ups: Vec<PathUpdate> = Vec::new();
                for (i, ops) in &per_path {
                    if ops.is_empty() {
                        continue;
                    }
                    let key = if mp.paths.is_empty() { ops[0].0 } else { path_key(&mp.paths[*i].terminal) };
                    let (t, sibs) = ref_prove(kv, &key);
                    let p = PathProof { terminal: terminal_of(&t, &key), siblings: sibs };
                    if let Ok(vp) = p.verify::<Blake3Hasher>(key.view_bits::<Msb0>(), root) {
                        ups.push(PathUpdate { inner: vp, ops: ops.clone() });
                    }
                }
                let single = catch_unwind(AssertUnwindSafe(|| verify_update::<Blake3Hasher>(root, &ups)));
                match single {
                    Ok(Ok(n2)) if n2 == *n => out.count("mupdate_checked_vs_single_path"),
                    Ok(Ok(n2)) => out.fail(format!(
                        "C07 multi update root {} != single-path verify_update root {} :: {}",
                        hex(n), hex(&n2), out.ops.last().unwrap()
                    )),
                    Ok(Err(e)) => out.fail(format!("C07 single-path verify_update rejected the same write set: {:?}", e)),
                    Err(_) => out.fail("C18 PANIC in single-path verify_update (multi-proof cross-check)".into()),
                }
            }
            Some(Err(e)) => {
                if honest {
                    out.fail(format!("C07 verify_multi_proof_update rejected an honest update: {e} :: {}", out.ops.last().unwrap()));
                } else {
                    out.count("mupdate_mutant_rejected");
                }
            }
            None => {}
        }
    }
    // malformed write sets
    if rng.chance(2, 3) {
        let mut ops = all.clone();
        let kind = match rng.below(7) {
            0 if ops.len() >= 2 => {
                let i = rng.below(ops.len() - 1);
                ops.swap(i, i + 1);
                "ops_swapped"
            }
            1 if !ops.is_empty() => {
                let i = rng.below(ops.len());
                let o = ops[i].clone();
                ops.insert(i, o);
                "ops_duplicate"
            }
            2 => {
                ops.push((rng.bytes32(), Some(rng.bytes32())));
                "ops_random_appended"
            }
            3 => {
                ops.push((rng.bytes32(), if rng.chance(1, 2) { None } else { Some(rng.bytes32()) }));
                ops.sort_by(|a, b| a.0.cmp(&b.0));
                "ops_random_sorted_in"
            }
            4 if !ops.is_empty() && !mp.paths.is_empty() => {
                // flip a bit inside the prefix of the covering terminal, keep the order
                let i = rng.below(ops.len());
                let d = rng.pick(&mp.paths).depth.min(256);
                if d > 0 {
                    ops[i].0 = flip_bit(&ops[i].0, rng.below(d));
                    ops.sort_by(|a, b| a.0.cmp(&b.0));
                    ops.dedup_by(|a, b| a.0 == b.0);
                }
                "ops_out_of_scope_sorted"
            }
            5 => {
                ops.clear();
                "ops_empty"
            }
            _ => {
                ops.reverse();
                "ops_reversed"
            }
        };
        out.count(&format!("mupdate_{kind}"));
        mupdate_line(out, reg, v, &ops, &format!("{shape}+{kind}"));
    }
}

// ---------------------------------------------------------------------------------------------
// harness-side root of a (possibly malformed) multi-proof object: panic-free, used to obtain
// self-consistent malformed proofs (verified against their own root) that reach confirm / update.

fn hash_up(mut node: Node, bits: &BitSlice<u8, Msb0>, sibs: &[Node]) -> Node {
    for (b, s) in bits.iter().by_vals().rev().zip(sibs.iter().rev()) {
        let (l, r) = if b { (*s, node) } else { (node, *s) };
        node = Blake3Hasher::hash_internal(&InternalData { left: l, right: r });
    }
    node
}

fn mp_root(sd: usize, paths: &[MultiPathProof], sibs: &[Node]) -> Option<(Node, usize)> {
    if paths.is_empty() {
        return Some((TERMINATOR, 0));
    }
    if paths.len() == 1 {
        let p = &paths[0];
        let path = p.terminal.path();
        if p.depth < sd || p.depth > path.len() {
            return None;
        }
        let ul = p.depth - sd;
        if ul > sibs.len() {
            return None;
        }
        let node = match &p.terminal {
            PathProofTerminal::Leaf(l) => Blake3Hasher::hash_leaf(l),
            PathProofTerminal::Terminator(_) => TERMINATOR,
        };
        return Some((hash_up(node, &path[sd..p.depth], &sibs[..ul]), ul));
    }
    let a = paths[0].terminal.path();
    let b = paths[paths.len() - 1].terminal.path();
    if sd > a.len() || sd > b.len() {
        return None;
    }
    let cb = a[sd..].iter().zip(b[sd..].iter()).take_while(|(x, y)| x == y).count();
    let cl = sd + cb;
    if paths.iter().any(|p| p.terminal.path().len() <= cl) || cb > sibs.len() {
        return None;
    }
    let idx = paths.partition_point(|p| !p.terminal.path()[cl]);
    let (l, lu) = mp_root(cl + 1, &paths[..idx], &sibs[cb..])?;
    if cb + lu > sibs.len() {
        return None;
    }
    let (r, ru) = mp_root(cl + 1, &paths[idx..], &sibs[cb + lu..])?;
    let node = Blake3Hasher::hash_internal(&InternalData { left: l, right: r });
    Some((hash_up(node, &a[sd..cl], &sibs[..cb]), cb + lu + ru))
}

// ---------------------------------------------------------------------------------------------
// mutations of an honest multi-proof object

fn mutate(rng: &mut Rng, kv: &KV, m: &mut MultiProof) -> &'static str {
    let np = m.paths.len();
    let ns = m.siblings.len();
    match rng.below(30) {
        0 if np > 0 => {
            let i = rng.below(np);
            m.paths[i].depth += 1;
            "depth_plus_1"
        }
        1 if np > 0 => {
            let i = rng.below(np);
            if m.paths[i].depth > 0 {
                m.paths[i].depth -= 1;
                "depth_minus_1"
            } else {
                m.paths[i].depth = 1;
                "depth_0_to_1"
            }
        }
        2 if np > 0 => {
            let i = rng.below(np);
            m.paths[i].depth = *rng.pick(&[256usize, 257, 300, 1 << 20]);
            "depth_huge"
        }
        3 if np > 1 => {
            // below the start depth of its bisection
            let i = rng.below(np);
            m.paths[i].depth = rng.below(m.paths[i].depth.max(1));
            "depth_below_bisection"
        }
        4 if np > 0 => {
            // terminator whose `depth` exceeds its own position
            let i = rng.below(np);
            let key = path_key(&m.paths[i].terminal);
            let d = m.paths[i].depth.min(255);
            let cut = rng.below(d + 1);
            m.paths[i].terminal = mk_terminator(&key.view_bits::<Msb0>()[..cut]);
            "terminator_shorter_than_depth"
        }
        5 if np > 0 => {
            // terminator position longer than `depth`
            let i = rng.below(np);
            let key = with_prefix(rng, &path_key(&m.paths[i].terminal), m.paths[i].terminal.path().len());
            let len = (m.paths[i].depth + 1 + rng.below(8)).min(256);
            m.paths[i].terminal = mk_terminator(&key.view_bits::<Msb0>()[..len]);
            "terminator_longer_than_depth"
        }
        6 if ns > 0 => {
            m.siblings.pop();
            "drop_last_sibling"
        }
        7 if ns > 0 => {
            m.siblings.remove(rng.below(ns));
            "drop_sibling"
        }
        8 => {
            let n = if rng.chance(1, 3) { [0u8; 32] } else { rng.bytes32() };
            m.siblings.insert(rng.below(ns + 1), n);
            "add_sibling"
        }
        9 => {
            for _ in 0..rng.range(1, 3) {
                m.siblings.push(rng.bytes32());
            }
            "extra_trailing_siblings"
        }
        10 if ns > 0 => {
            let i = rng.below(ns);
            let b = rng.below(256);
            m.siblings[i][b / 8] ^= 1 << (b % 8);
            "flip_sibling_bit"
        }
        11 if ns > 0 => {
            let i = rng.below(ns);
            m.siblings[i] = [0u8; 32];
            "zero_sibling"
        }
        12 if ns > 1 => {
            let i = rng.below(ns - 1);
            m.siblings.swap(i, i + 1);
            "swap_siblings"
        }
        13 if np > 1 => {
            let i = rng.below(np - 1);
            m.paths.swap(i, i + 1);
            "swap_paths"
        }
        14 if np > 0 => {
            let i = rng.below(np);
            let p = m.paths[i].clone();
            m.paths.insert(i, p);
            "duplicate_path"
        }
        15 if np > 0 => {
            m.paths.remove(rng.below(np));
            "remove_path"
        }
        16 if np > 0 => {
            // a terminal replaced by a terminator at a proper prefix of its own / its neighbour's path
            let i = rng.below(np);
            let j = if i + 1 < np && rng.chance(1, 2) { i + 1 } else { i };
            let key = path_key(&m.paths[j].terminal);
            let max = m.paths[j].terminal.path().len().min(m.paths[j].depth + 2);
            let cut = rng.below(max + 1);
            m.paths[i].terminal = mk_terminator(&key.view_bits::<Msb0>()[..cut]);
            if rng.chance(1, 2) {
                m.paths[i].depth = cut;
            }
            "prefix_terminator_replaces"
        }
        17 if np > 0 => {
            // a new path whose terminal path is a proper prefix of an existing one (inserted in order)
            let i = rng.below(np);
            let key = path_key(&m.paths[i].terminal);
            let len = m.paths[i].terminal.path().len();
            let cut = if rng.chance(1, 2) { rng.below(len + 1) } else { rng.below(m.paths[i].depth.min(len) + 1) };
            let t = mk_terminator(&key.view_bits::<Msb0>()[..cut]);
            let d = if rng.chance(2, 3) { cut } else { rng.below(cut + 2) };
            m.paths.insert(i, MultiPathProof { terminal: t, depth: d });
            if rng.chance(1, 2) {
                // give it plausible siblings
                for _ in 0..rng.below(3) {
                    m.siblings.insert(rng.below(m.siblings.len() + 1), rng.bytes32());
                }
            }
            "prefix_terminator_inserted"
        }
        18 if np > 0 => {
            let i = rng.below(np);
            let key = path_key(&m.paths[i].terminal);
            let d = m.paths[i].depth.min(m.paths[i].terminal.path().len());
            m.paths[i].terminal = mk_terminator(&key.view_bits::<Msb0>()[..d]);
            "to_terminator_at_depth"
        }
        19 if np > 0 => {
            let i = rng.below(np);
            let base = path_key(&m.paths[i].terminal);
            let d = m.paths[i].depth.min(m.paths[i].terminal.path().len());
            let k = with_prefix(rng, &base, d);
            m.paths[i].terminal = PathProofTerminal::Leaf(LeafData { key_path: k, value_hash: rng.bytes32() });
            "to_leaf_under_position"
        }
        20 if np > 0 => {
            let i = rng.below(np);
            if !kv.is_empty() {
                let (k, v) = *rng.pick(kv);
                m.paths[i].terminal = PathProofTerminal::Leaf(LeafData { key_path: k, value_hash: v });
            }
            "to_other_real_leaf"
        }
        21 if np > 0 => {
            let i = rng.below(np);
            if let PathProofTerminal::Leaf(l) = &mut m.paths[i].terminal {
                l.value_hash = rng.bytes32();
                "leaf_value"
            } else {
                "none"
            }
        }
        22 if np > 0 => {
            let i = rng.below(np);
            let d = m.paths[i].depth.min(255);
            if let PathProofTerminal::Leaf(l) = &mut m.paths[i].terminal {
                l.key_path = if rng.chance(1, 2) { with_prefix(rng, &l.key_path, d) } else { rng.bytes32() };
                "leaf_key"
            } else {
                "none"
            }
        }
        23 => {
            m.paths.clear();
            if m.siblings.is_empty() || rng.chance(1, 2) {
                m.siblings.push(rng.bytes32());
            }
            "empty_paths_with_siblings"
        }
        24 => {
            m.paths.clear();
            m.siblings.clear();
            "empty_proof"
        }
        25 if np > 0 => {
            // a neighbour that shares every bit up to (and beyond) the depth of path i
            let i = rng.below(np);
            let base = path_key(&m.paths[i].terminal);
            let len = m.paths[i].terminal.path().len();
            let d = m.paths[i].depth;
            let k = with_prefix(rng, &base, len.min(255));
            let t = PathProofTerminal::Leaf(LeafData { key_path: k, value_hash: rng.bytes32() });
            let at = if t.path() > m.paths[i].terminal.path() { i + 1 } else { i };
            m.paths.insert(at, MultiPathProof { terminal: t, depth: d });
            "neighbour_sharing_the_prefix"
        }
        26 if np > 0 => {
            m.paths.truncate(rng.below(np) + 1);
            "truncate_paths"
        }
        27 if ns > 0 => {
            m.siblings.truncate(rng.below(ns));
            "truncate_siblings"
        }
        28 if np > 0 => {
            for p in m.paths.iter_mut() {
                p.depth = p.terminal.path().len();
            }
            "depth_is_path_len"
        }
        _ => "none",
    }
}

struct Item {
    q: Key,
    proof: PathProof,
}

fn honest_items(rng: &mut Rng, kv: &KV, nq: usize) -> Vec<Item> {
    let mut items: Vec<Item> = Vec::new();
    for _ in 0..nq {
        let q = gen_query(rng, kv);
        let (t, sibs) = ref_prove(kv, &q);
        items.push(Item { q, proof: PathProof { terminal: terminal_of(&t, &q), siblings: sibs } });
    }
    // sort by terminal path, dedupe identical terminals, drop a terminal that is a prefix of the next
    items.sort_by(|a, b| a.proof.terminal.path().cmp(b.proof.terminal.path()));
    items.dedup_by(|a, b| a.proof.terminal == b.proof.terminal);
    let mut i = 0;
    while i + 1 < items.len() {
        let p = items[i].proof.terminal.path();
        let n = items[i + 1].proof.terminal.path();
        if p.len() <= n.len() && n[..p.len()] == *p {
            items.remove(i);
        } else {
            i += 1;
        }
    }
    items
}

fn mfrom_line(out: &mut Sink, pps: &[PathProof], honest: bool) -> Option<MultiProof> {
    let op = format!(
        "mfrom {}",
        if pps.is_empty() { "-".to_string() } else { pps.iter().map(pp_str).collect::<Vec<_>>().join("|") }
    );
    let r = catch_unwind(AssertUnwindSafe(|| MultiProof::from_path_proofs(pps.to_vec())));
    match r {
        Ok(mp) => {
            out.line(op, format!("ok {} {}", paths_str(&mp.paths), nodes_line(&mp.siblings)));
            out.count("mfrom_ok");
            Some(mp)
        }
        Err(_) => {
            if honest {
                out.fail(format!("C07 PANIC in from_path_proofs on ordered honest path proofs: {op}"));
            }
            out.line(op, "panic".into());
            out.count("mfrom_panic");
            None
        }
    }
}

pub fn run(seed: u64, cases: usize, out: &mut Sink) {
    let mut rng = Rng::new(seed ^ 0x6d70_0000);
    for case in 0..cases {
        let mut r = rng.fork();
        let rng = &mut r;
        let maxk = match rng.below(10) {
            0 => 60,
            1 => 3,
            _ => 16,
        };
        let kv = gen_kv(rng, maxk);
        out.mark_case(format!("case {case} keys={}", kv.len()));
        let root = ref_root(&kv);
        out.count(&format!("keys_{}", match kv.len() { 0 => "0", 1 => "1", 2..=5 => "2-5", 6..=16 => "6-16", _ => "17+" }));

        // ---- honest multi-proof -------------------------------------------------------------
        let nq = match rng.below(10) {
            0 => 1,
            1..=6 => rng.range(2, 6),
            _ => rng.range(7, 20),
        };
        let items = honest_items(rng, &kv, nq);
        let queries: Vec<Key> = items.iter().map(|i| i.q).collect();
        let pps: Vec<PathProof> = items.iter().map(|i| i.proof.clone()).collect();
        out.count(&format!("paths_{}", match pps.len() { 0 => "0", 1 => "1", 2..=4 => "2-4", 5..=9 => "5-9", _ => "10+" }));
        let honest = match mfrom_line(out, &pps, true) {
            Some(m) => m,
            None => continue,
        };
        let v = match mverify_line(out, 0, &honest, root, "honest") {
            Some(v) => v,
            None => {
                out.fail(format!("C07 honest multi-proof failed to verify: {}", out.ops.last().unwrap()));
                continue;
            }
        };
        for (k, vh) in confirm_keys(rng, &kv, &honest, &queries) {
            let in_scope = queries.contains(&k);
            confirm_lines(rng, out, 0, &kv, root, true, in_scope, &v, honest.paths.len(), k, vh);
        }
        for _ in 0..2 {
            update_lines(rng, out, 0, &kv, root, &honest, &v, true, true, "honest");
        }

        // ---- malformed input of from_path_proofs (documented precondition: ordered) -----------
        if rng.chance(1, 3) && !pps.is_empty() {
            let mut bad: Vec<PathProof> = Vec::new();
            let kind = match rng.below(3) {
                0 => {
                    let p = rng.pick(&pps).clone();
                    bad.push(p.clone());
                    bad.push(p);
                    "mfrom_duplicate"
                }
                1 if pps.len() >= 2 => {
                    let i = rng.below(pps.len() - 1);
                    bad.push(pps[i + 1].clone());
                    bad.push(pps[i].clone());
                    "mfrom_unordered_pair"
                }
                _ => {
                    // a terminator at a proper prefix of the terminal path, before it
                    let p = rng.pick(&pps).clone();
                    let len = p.terminal.path().len();
                    let cut = rng.below(len.max(1));
                    let key = path_key(&p.terminal);
                    let t = mk_terminator(&key.view_bits::<Msb0>()[..cut]);
                    bad.push(PathProof { terminal: t, siblings: p.siblings[..cut.min(p.siblings.len())].to_vec() });
                    bad.push(p);
                    "mfrom_prefix_pair"
                }
            };
            out.count(kind);
            if let Some(m) = mfrom_line(out, &bad, false) {
                // whatever came out is handed to the verifier
                let sig = out.ops.last().unwrap().clone();
                out.nontrivial(&sig);
                mverify_line(out, 1, &m, root, kind);
            }
        }

        // ---- mutated multi-proof objects ------------------------------------------------------
        for _ in 0..6 {
            let mut m = honest.clone();
            let mut shape = mutate(rng, &kv, &mut m).to_string();
            if rng.chance(1, 4) {
                let s2 = mutate(rng, &kv, &mut m);
                shape = format!("{shape}+{s2}");
            }
            let wrong_root = rng.chance(1, 12);
            let use_root = if wrong_root {
                shape = format!("{shape}+wrong_root");
                if rng.chance(1, 2) { rng.bytes32() } else { [0u8; 32] }
            } else {
                root
            };
            out.count(&format!("mut_{shape}"));
            let vm = mverify_line(out, 1, &m, use_root, &shape);
            let sig = out.ops.last().unwrap().clone();
            out.nontrivial(&sig);
            if let Some(vm) = vm {
                if shape != "none" {
                    out.count("mutant_accepted_true_root");
                    out.count(&format!("mutant_accepted_{shape}"));
                }
                let truth = use_root == root;
                for (k, vh) in confirm_keys(rng, &kv, &m, &queries) {
                    confirm_lines(rng, out, 1, &kv, root, truth, false, &vm, m.paths.len(), k, vh);
                }
                update_lines(rng, out, 1, &kv, root, &m, &vm, truth, false, &shape);
            } else if !wrong_root {
                // the same object against the root it hashes to (if any): reaches confirm / update on
                // verified-but-malformed structures
                if let Some((r2, used)) = mp_root(0, &m.paths, &m.siblings) {
                    if used == m.siblings.len() && r2 != root {
                        let shape2 = format!("{shape}+own_root");
                        if let Some(vm) = mverify_line(out, 2, &m, r2, &shape2) {
                            out.count("mutant_accepted_own_root");
                            for (k, vh) in confirm_keys(rng, &kv, &m, &queries) {
                                confirm_lines(rng, out, 2, &kv, r2, false, false, &vm, m.paths.len(), k, vh);
                            }
                            update_lines(rng, out, 2, &kv, r2, &m, &vm, false, false, &shape2);
                        }
                    }
                }
            }
        }
        if case < 2 {
            let from = out.case_marks.last().unwrap().0;
            for l in from..(from + 8).min(out.ops.len()) {
                let mut s = format!("{} => {}", out.ops[l], out.imp[l]);
                s.truncate(400);
                out.samples.push(s);
            }
        }
    }
}

// ---------------------------------------------------------------------------------------------
// corpus replay: `mverify` protocol lines (third tab-separated column of the corpus file, or bare lines)
// are parsed back into a `MultiProof` and handed to the real verifier.

fn parse_terminal(s: &str) -> Option<PathProofTerminal> {
    let parts: Vec<&str> = s.split(':').collect();
    match parts.as_slice() {
        ["L", k, v] if k.len() == 64 && v.len() == 64 => {
            Some(PathProofTerminal::Leaf(LeafData { key_path: unhex32(k), value_hash: unhex32(v) }))
        }
        ["T", b] => {
            let mut bits: BitVec<u8, Msb0> = BitVec::new();
            if *b != "-" {
                for c in b.chars() {
                    bits.push(c == '1');
                }
            }
            if bits.len() > 256 {
                return None;
            }
            Some(mk_terminator(&bits))
        }
        _ => None,
    }
}

fn parse_mverify(line: &str) -> Option<(usize, Node, MultiProof)> {
    let f: Vec<&str> = line.split_whitespace().collect();
    if f.len() != 5 || f[0] != "mverify" || f[2].len() != 64 {
        return None;
    }
    let reg = f[1].parse().ok()?;
    let root = unhex32(f[2]);
    let mut paths = Vec::new();
    if f[3] != "-" {
        for item in f[3].split('|') {
            let (t, d) = item.split_once('@')?;
            paths.push(MultiPathProof { terminal: parse_terminal(t)?, depth: d.parse().ok()? });
        }
    }
    let mut siblings = Vec::new();
    if f[4] != "-" {
        for h in f[4].split(',') {
            if h.len() != 64 {
                return None;
            }
            siblings.push(unhex32(h));
        }
    }
    Some((reg, root, MultiProof { paths, siblings }))
}

pub fn replay(file: &str, out: &mut Sink) {
    let text = std::fs::read_to_string(file).unwrap_or_else(|e| panic!("cannot read corpus {file}: {e}"));
    for (n, l) in text.lines().enumerate() {
        if l.starts_with('#') || l.trim().is_empty() {
            continue;
        }
        let cols: Vec<&str> = l.split('\t').collect();
        let (shape, line) = if cols.len() >= 3 { (format!("corpus:{}", cols[1]), cols[2]) } else { ("corpus".to_string(), cols[0]) };
        match parse_mverify(line) {
            Some((reg, root, mp)) => {
                out.mark_case(format!("corpus line {}", n + 1));
                out.count("corpus_lines");
                mverify_line(out, reg, &mp, root, &shape);
                if cols.len() >= 4 && out.imp.last().map(|s| s.as_str()) != Some(cols[3].trim()) {
                    out.fail(format!(
                        "C18 corpus line {}: expected `{}` but the implementation answered `{}`",
                        n + 1,
                        cols[3].trim(),
                        out.imp.last().unwrap()
                    ));
                }
                let sig = out.ops.last().unwrap().clone();
                out.nontrivial(&sig);
            }
            None => out.fail(format!("corpus line {} is not a well-formed mverify line", n + 1)),
        }
    }
}
