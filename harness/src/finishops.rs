//! `finishops`: what the REAL `Session::finish` makes of the caller's `actuals` (hook H25 on top of H10 / H11).
//!
//! Every case opens (per worker count 1…5, rollback on / off) a real store under /dev/shm, commits a prior state
//! aimed at ONE terminal of the trie — in the root page (depth 0…6) or in a child page (depth ≥ 7, page boundaries
//! 6k, 6k+1) — that is a leaf or a terminator, and finishes a session whose sorted actuals put 2…6 keys below that
//! terminal with every mix of `Read` / `Write` / `ReadThenWrite`: write-backs of the value read, blind write-backs,
//! deletes of present and of absent keys, values EQUAL to the terminal leaf's value written to other keys, only
//! reads, exactly one real write among no-ops; plus a few operations elsewhere.  Sessions run with the witness mode
//! on and off, with `preserve_prior_value` hints (written / unwritten keys, duplicates) and warm-ups, on the
//! committed state or on one uncommitted parent overlay.  A malformed stream hands `finish` unsorted / duplicate
//! actuals, a session whose overlay chain was superseded, and `ReadThenWrite` priors that are not what the session
//! read.
//!
//! Recorded from the real code and compared line by line with the Lean mirror (`nomt_model finishops`,
//! `Api/Finish.lean`): the compact operation list handed to `Updater::update_and_prove` (`Event::Update`), the
//! workers' batches with `has_writes`, the rebuilt / advanced decision per owned exclusive batch (`Event::Advance`),
//! the value transaction's batch, the rollback delta, the root and the canonical witness.
//!
//! Oracles (independent of the model):
//!   C06  the compact list is `Read ↦ read`, `Write(w) ↦ write hash(w)`, `ReadThenWrite(_, w) ↦ read+write hash(w)`
//!        key by key; the witness verifies against the base root, attests the view's values, covers the writes and
//!        `verify_update` replays it to the reported root; no witness when the mode is disabled
//!   C13  `has_writes` of a batch = "some operation of the batch is a write"; a batch is rebuilt iff it has writes,
//!        with exactly its written operations
//!   C02  the reported root = reference trie of the updated BTreeMap (hashes of the values)
//!   C01  the value transaction = the written operations in key order; `Session::read` = BTreeMap before, `Nomt::read`
//!        = BTreeMap after the commit
//!   C09  the delta = the view's value of exactly the written keys (with or without hints / `ReadThenWrite`);
//!        `rollback(1)` after the commit restores values and root
use crate::db::vhash;
use crate::shards::{bits_string, check_witness, has_prefix, ref_terminal, regions, set_top6, view_hashes, Kind};
use crate::util::*;
use nomt::hasher::Blake3Hasher;
use nomt::verif_api::split_trace::{self, Event};
use nomt::{KeyReadWrite, Nomt, Options, Overlay, SessionParams, WitnessMode};
use std::collections::BTreeMap;
use std::panic::{catch_unwind, AssertUnwindSafe};

type Db = Nomt<Blake3Hasher>;
type Val = Vec<u8>;
type Map = BTreeMap<Key, Val>;

const WORKERS: [usize; 5] = [1, 2, 3, 4, 5];

#[derive(Clone, Debug)]
enum Act {
    Read(Option<Val>),
    Write(Option<Val>),
    Rtw(Option<Val>, Option<Val>),
}

impl Act {
    fn kind(&self) -> Kind {
        match self {
            Act::Read(_) => Kind::Read,
            Act::Write(v) => Kind::Write(v.clone()),
            Act::Rtw(_, v) => Kind::ReadWrite(v.clone()),
        }
    }
    fn to_real(&self) -> KeyReadWrite {
        match self {
            Act::Read(v) => KeyReadWrite::Read(v.clone()),
            Act::Write(v) => KeyReadWrite::Write(v.clone()),
            Act::Rtw(p, v) => KeyReadWrite::ReadThenWrite(p.clone(), v.clone()),
        }
    }
    fn written(&self) -> Option<Option<Val>> {
        match self {
            Act::Read(_) => None,
            Act::Write(v) | Act::Rtw(_, v) => Some(v.clone()),
        }
    }
}

fn vtxt(v: &Option<Val>) -> String {
    match v {
        None => "-".into(),
        Some(v) if v.is_empty() => "e".into(),
        Some(v) => hex(v),
    }
}

fn acts_text(a: &[(Key, Act)]) -> String {
    if a.is_empty() {
        return "-".into();
    }
    a.iter()
        .map(|(k, x)| match x {
            Act::Read(v) => format!("{}:r:{}", hex(k), vtxt(v)),
            Act::Write(v) => format!("{}:w:{}", hex(k), vtxt(v)),
            Act::Rtw(p, v) => format!("{}:x:{}:{}", hex(k), vtxt(p), vtxt(v)),
        })
        .collect::<Vec<_>>()
        .join(",")
}

fn kv_text(m: &[(Key, Option<Val>)]) -> String {
    if m.is_empty() {
        return "-".into();
    }
    m.iter().map(|(k, v)| format!("{}:{}", hex(k), vtxt(v))).collect::<Vec<_>>().join(",")
}

fn gen_val(rng: &mut Rng) -> Val {
    let n = match rng.below(12) {
        0 => 0,
        1 => 1,
        2 => rng.range(31, 33),
        _ => rng.range(1, 48),
    };
    (0..n).map(|_| rng.next() as u8).collect()
}

struct Focus {
    prefix: Vec<bool>,
    base: Key,
    leaf: Option<Key>,
}

struct Case {
    view: Map,
    foci: Vec<Focus>,
}

fn pick_depth(rng: &mut Rng) -> usize {
    match rng.below(9) {
        0 | 1 | 2 => rng.range(1, 6),
        3 => *rng.pick(&[7usize, 8, 12, 13, 18, 19, 24, 25]),
        4 | 5 => rng.range(7, 14),
        6 => rng.range(7, 60),
        7 => *rng.pick(&[6usize, 7]),
        _ => rng.range(1, 30),
    }
}

fn gen_case(rng: &mut Rng, n: usize) -> Case {
    let regs = regions(n);
    let mut view = Map::new();
    let mut foci: Vec<Focus> = Vec::new();
    if rng.chance(1, 14) {
        // the terminal is the root: empty trie or a single leaf
        let leaf = if rng.chance(1, 2) { Some(rng.bytes32()) } else { None };
        if let Some(k) = leaf {
            view.insert(k, gen_val(rng));
        }
        foci.push(Focus { prefix: vec![], base: rng.bytes32(), leaf });
        return Case { view, foci };
    }
    let want = if rng.chance(1, 3) { 2 } else { 1 };
    for _ in 0..want {
        let d = pick_depth(rng);
        let mut base = rng.bytes32();
        if n > 1 && rng.chance(1, 2) {
            // first / last root child of a worker's region
            let r = *rng.pick(&regs);
            set_top6(&mut base, if rng.chance(1, 2) { r.0 } else { r.0 + r.1 - 1 });
        }
        let prefix: Vec<bool> = (0..d).map(|i| bit(&base, i)).collect();
        if foci.iter().any(|f| f.prefix.starts_with(&prefix) || prefix.starts_with(&f.prefix)) {
            continue;
        }
        let leaf = if rng.chance(2, 3) { Some(with_prefix(rng, &base, d)) } else { None };
        if let Some(k) = leaf {
            view.insert(k, gen_val(rng));
        }
        // the sibling sub-trie: 1…3 keys (with a leaf under the prefix the parent is internal)
        let sib = flip_bit(&base, d - 1);
        let m = if leaf.is_some() { rng.range(1, 3) } else { rng.range(2, 3) };
        for _ in 0..m {
            view.insert(with_prefix(rng, &sib, d), gen_val(rng));
        }
        foci.push(Focus { prefix, base, leaf });
    }
    for _ in 0..rng.below(11) {
        let k = rng.bytes32();
        if !foci.iter().any(|f| has_prefix(&k, &f.prefix)) {
            view.insert(k, gen_val(rng));
        }
    }
    Case { view, foci }
}

/// the kinds of one operation on `k` (current value `cur`, value of the terminal's leaf `leafval`)
fn gen_act(rng: &mut Rng, which: usize, cur: Option<Val>, leafval: &Option<Val>) -> Act {
    match which {
        0 => Act::Read(cur),
        1 => Act::Write(Some(gen_val(rng))),
        2 => Act::Write(None),
        3 => Act::Write(cur),                    // blind write-back (delete of an absent key when absent)
        4 => Act::Rtw(cur.clone(), cur),          // write back what was read
        5 => Act::Rtw(cur, Some(gen_val(rng))),
        6 => Act::Rtw(cur, None),
        7 => Act::Rtw(cur, leafval.clone()),      // the value of the terminal's leaf, written to this key
        _ => Act::Write(leafval.clone()),
    }
}

fn is_noop(a: &Act, cur: &Option<Val>) -> bool {
    match a.written() {
        None => true,
        Some(w) => &w == cur,
    }
}

/// `deleted`: keys the committed state holds and the parent overlay deletes (absent in the view)
fn gen_actuals(rng: &mut Rng, case: &Case, deleted: &[Key], out: &mut Sink) -> BTreeMap<Key, Act> {
    let mut acc: BTreeMap<Key, Act> = BTreeMap::new();
    for f in &case.foci {
        let d = f.prefix.len();
        let m = rng.range(2, 6);
        let mut keys: Vec<Key> = Vec::new();
        if let Some(l) = f.leaf {
            if rng.chance(4, 5) {
                keys.push(l);
            }
        }
        for k in deleted.iter().filter(|k| has_prefix(k, &f.prefix)) {
            if rng.chance(3, 4) && !keys.contains(k) {
                keys.push(*k);
                out.count("batch_key_deleted_by_parent_overlay");
            }
        }
        while keys.len() < m {
            let k = match (f.leaf, rng.below(3)) {
                (Some(l), 0) if d < 255 => {
                    // forks off the leaf's key below the terminal, at any depth
                    let hi = (d + rng.range(1, 40)).min(255);
                    let at = rng.range(d, hi);
                    diverge_at(rng, &l, at)
                }
                _ => with_prefix(rng, &f.base, d),
            };
            if has_prefix(&k, &f.prefix) && !keys.contains(&k) {
                keys.push(k);
            }
        }
        keys.sort();
        let leafval = f.leaf.and_then(|l| case.view.get(&l).cloned());
        let mode = rng.below(7);
        out.count(&format!("focus_mode_{mode}"));
        out.count(&format!("focus_depth_{}", if d <= 6 { format!("{d}_rootpage") } else if d <= 12 { "07_12".into() } else { "13_plus".into() }));
        out.count(if f.leaf.is_some() { "focus_terminal_leaf" } else { "focus_terminal_terminator" });
        out.count(&format!("focus_keys_{}", keys.len()));
        let real = rng.below(keys.len());
        for (i, k) in keys.iter().enumerate() {
            let cur = case.view.get(k).cloned();
            let which = match mode {
                0 => 0,
                1 => 4,
                2 => *rng.pick(&[0usize, 3, 4]),
                3 => {
                    if i == real {
                        *rng.pick(&[1usize, 5, 6, 2, 7])
                    } else {
                        *rng.pick(&[0usize, 3, 4])
                    }
                }
                4 => {
                    // the leaf is written back, the other keys receive the leaf's value
                    if Some(*k) == f.leaf {
                        *rng.pick(&[4usize, 0, 3])
                    } else {
                        *rng.pick(&[7usize, 8, 7])
                    }
                }
                5 => *rng.pick(&[6usize, 2, 4]),
                _ => rng.below(9),
            };
            // a key the overlay deleted: mostly blind writes (the prior must come from the overlay, not the store)
            let which = if deleted.contains(k) && rng.chance(2, 3) { *rng.pick(&[1usize, 2, 1]) } else { which };
            let a = gen_act(rng, which, cur.clone(), &leafval);
            acc.insert(*k, a);
        }
    }
    for k in deleted {
        if !acc.contains_key(k) && rng.chance(1, 2) {
            let w = *rng.pick(&[1usize, 2, 5, 6]);
            acc.insert(*k, gen_act(rng, w, None, &None));
        }
    }
    // a few operations elsewhere
    let existing: Vec<Key> = case.view.keys().cloned().collect();
    for _ in 0..rng.below(5) {
        let k = if !existing.is_empty() && rng.chance(1, 2) { *rng.pick(&existing) } else { rng.bytes32() };
        if acc.contains_key(&k) {
            continue;
        }
        let cur = case.view.get(&k).cloned();
        let w = rng.below(7);
        acc.insert(k, gen_act(rng, w, cur, &None));
    }
    acc
}

fn open_db(dir: &str, n: usize, rollback: bool, rng: &mut Rng) -> Option<Db> {
    let _ = std::fs::remove_dir_all(dir);
    let mut o = Options::new();
    o.path(dir);
    o.commit_concurrency(n);
    o.hashtable_buckets(4096);
    o.rollback(rollback);
    o.max_rollback_log_len(8);
    o.warm_up(rng.chance(1, 2));
    o.page_cache_size(*rng.pick(&[1usize, 4]));
    o.leaf_cache_size(1);
    o.io_workers(rng.range(1, 2));
    o.preallocate_ht(false);
    match catch_unwind(AssertUnwindSafe(|| Db::open(o))) {
        Ok(Ok(db)) => Some(db),
        _ => None,
    }
}

pub fn run(seed: u64, cases: usize, out: &mut Sink) {
    let mut rng = Rng::new(seed ^ 0xf1a15);
    let pid = std::process::id();
    let configs: Vec<(usize, bool)> = WORKERS.iter().flat_map(|n| [(*n, false), (*n, true)]).collect();
    for (ci, (n, rb)) in configs.iter().enumerate() {
        let ncases = cases / configs.len() + usize::from(ci < cases % configs.len());
        if ncases == 0 {
            continue;
        }
        let dir = format!("/dev/shm/nomt-verif-finishops-{pid}-{seed}-{n}-{}", u8::from(*rb));
        let mut orng = rng.fork();
        let db = match open_db(&dir, *n, *rb, &mut orng) {
            Some(db) => db,
            None => {
                out.fail(format!("OPEN FAILED (finishops workers={n} rollback={rb})"));
                continue;
            }
        };
        let mut view = Map::new();
        for case_no in 0..ncases {
            let mut crng = rng.fork();
            out.mark_case(format!("finishops workers={n} rollback={rb} case {case_no}"));
            out.count(&format!("workers_{n}"));
            out.count(if *rb { "rollback_on" } else { "rollback_off" });
            if !run_case(&mut crng, *n, *rb, &db, &mut view, out) {
                break;
            }
        }
        drop(db);
        let _ = std::fs::remove_dir_all(&dir);
    }
}

fn commit_diff(db: &Db, from: &Map, to: &Map) -> Result<(), String> {
    let s = db.begin_session(SessionParams::default().witness_mode(WitnessMode::disabled()));
    let mut actuals: BTreeMap<Key, KeyReadWrite> = BTreeMap::new();
    for k in from.keys() {
        if !to.contains_key(k) {
            actuals.insert(*k, KeyReadWrite::Write(None));
        }
    }
    for (k, v) in to.iter() {
        if from.get(k) != Some(v) {
            actuals.insert(*k, KeyReadWrite::Write(Some(v.clone())));
        }
    }
    let actuals: Vec<(Key, KeyReadWrite)> = actuals.into_iter().collect();
    match catch_unwind(AssertUnwindSafe(|| s.finish(actuals).and_then(|f| f.commit(db)))) {
        Ok(Ok(_)) => Ok(()),
        Ok(Err(e)) => Err(format!("{e:#}")),
        Err(_) => Err("panic".into()),
    }
}

/// an overlay on the committed state `from` holding the difference to `to`
fn overlay_diff(db: &Db, from: &Map, to: &Map) -> Result<Overlay, String> {
    let s = db.begin_session(SessionParams::default().witness_mode(WitnessMode::disabled()));
    let mut actuals: BTreeMap<Key, KeyReadWrite> = BTreeMap::new();
    for k in from.keys() {
        if !to.contains_key(k) {
            actuals.insert(*k, KeyReadWrite::Write(None));
        }
    }
    for (k, v) in to.iter() {
        if from.get(k) != Some(v) {
            actuals.insert(*k, KeyReadWrite::Write(Some(v.clone())));
        }
    }
    let actuals: Vec<(Key, KeyReadWrite)> = actuals.into_iter().collect();
    match catch_unwind(AssertUnwindSafe(|| s.finish(actuals).map(|f| f.into_overlay()))) {
        Ok(Ok(o)) => Ok(o),
        Ok(Err(e)) => Err(format!("{e:#}")),
        Err(_) => Err("panic".into()),
    }
}

fn panic_text(p: &Box<dyn std::any::Any + Send>) -> String {
    if let Some(s) = p.downcast_ref::<String>() {
        s.clone()
    } else if let Some(s) = p.downcast_ref::<&str>() {
        s.to_string()
    } else {
        "?".into()
    }
}

/// returns false when the store can no longer be used
fn run_case(rng: &mut Rng, n: usize, rb: bool, db: &Db, committed: &mut Map, out: &mut Sink) -> bool {
    let case = gen_case(rng, n);
    // the session's view is `case.view`: either committed as it is, or a committed part + one parent overlay
    let with_overlay = rng.chance(1, 5);
    let superseded = with_overlay && rng.chance(1, 4);
    let mut base = case.view.clone();
    if with_overlay {
        // keep some of the view's keys (and some stale ones) out of the committed part
        let ks: Vec<Key> = case.view.keys().cloned().collect();
        for k in ks {
            match rng.below(4) {
                0 => {
                    base.remove(&k);
                }
                1 => {
                    base.insert(k, gen_val(rng));
                }
                _ => {}
            }
        }
        for f in &case.foci {
            if rng.chance(1, 2) {
                // a key below the focus terminal that the overlay deletes
                let k = with_prefix(rng, &f.base, f.prefix.len());
                if !case.view.contains_key(&k) {
                    base.insert(k, gen_val(rng));
                }
            }
        }
    }
    if let Err(e) = commit_diff(db, committed, &base) {
        out.fail(format!("C01 commit of the prior state failed: {e} (workers={n})"));
        return false;
    }
    *committed = base.clone();
    let overlay = if with_overlay {
        match overlay_diff(db, &base, &case.view) {
            Ok(o) => Some(o),
            Err(e) => {
                out.fail(format!("C11 building the parent overlay failed: {e}"));
                return false;
            }
        }
    } else {
        None
    };
    if superseded {
        // the committed state moves on under the overlay
        let mut moved = base.clone();
        moved.insert(rng.bytes32(), gen_val(rng));
        if let Err(e) = commit_diff(db, committed, &moved) {
            out.fail(format!("C01 commit failed: {e}"));
            return false;
        }
        *committed = moved;
        out.count("session_on_superseded_chain");
    }

    let view = &case.view;
    let vh = view_hashes(view);
    let witness_on = rng.chance(3, 4);
    let mut params = SessionParams::default().witness_mode(if witness_on { WitnessMode::read_write() } else { WitnessMode::disabled() });
    if let Some(o) = overlay.as_ref() {
        params = match params.overlay([o]) {
            Ok(p) => p,
            Err(_) => {
                out.fail("C11 LiveOverlay::new refused a valid single-overlay chain".into());
                return false;
            }
        };
        out.count("session_on_parent_overlay");
    }
    let s = db.begin_session(params);
    let prev_root = s.prev_root().into_inner();
    let prev_root_ref = ref_root(&vh);
    if prev_root != prev_root_ref {
        out.fail(format!("C02 session base root {} != reference root {} (workers={n})", hex(&prev_root), hex(&prev_root_ref)));
    }
    let view_txt: Vec<(Key, Option<Val>)> = view.iter().map(|(k, v)| (*k, Some(v.clone()))).collect();
    out.line(format!("view {}", kv_text(&view_txt)), hex(&prev_root));

    let deleted: Vec<Key> = if with_overlay { base.keys().filter(|k| !view.contains_key(*k)).cloned().collect() } else { vec![] };
    let mut acts: Vec<(Key, Act)> = gen_actuals(rng, &case, &deleted, out).into_iter().collect();

    // C01: what the session reads is the view
    for (k, _) in acts.iter() {
        if rng.chance(1, 3) {
            match catch_unwind(AssertUnwindSafe(|| s.read(*k))) {
                Ok(Ok(v)) => {
                    if v.as_ref() != view.get(k) {
                        out.fail(format!("C01 Session::read of {} differs from the sequential model (overlay={with_overlay})", &hex(k)[..16]));
                    }
                }
                _ => out.fail("C01 Session::read failed".into()),
            }
        }
    }

    // malformed streams
    let mut untruthful = false;
    let mut bad_order = false;
    match rng.below(14) {
        0 if acts.len() >= 2 => {
            let i = rng.below(acts.len() - 1);
            acts.swap(i, i + 1);
            bad_order = true;
            out.count("malformed_swapped_neighbours");
        }
        1 if !acts.is_empty() => {
            let i = rng.below(acts.len());
            let mut dup = acts[i].clone();
            if rng.chance(1, 2) {
                dup.1 = Act::Write(Some(gen_val(rng)));
            }
            acts.insert(i + 1, dup);
            bad_order = true;
            out.count("malformed_duplicate_key");
        }
        2 if acts.len() >= 2 => {
            acts.reverse();
            bad_order = true;
            out.count("malformed_reversed");
        }
        3 if rb => {
            // a `ReadThenWrite` whose prior is not what the session read
            if let Some(i) = (0..acts.len()).find(|i| matches!(acts[*i].1, Act::Rtw(_, _))) {
                if let Act::Rtw(p, v) = acts[i].1.clone() {
                    let lie = match p {
                        Some(_) if rng.chance(1, 2) => None,
                        _ => Some(gen_val(rng)),
                    };
                    if lie != p {
                        acts[i].1 = Act::Rtw(lie, v);
                        untruthful = true;
                        out.count("malformed_untruthful_rtw_prior");
                    }
                }
            }
        }
        _ => {}
    }

    // hints and warm-ups
    let mut hints: Vec<Key> = Vec::new();
    for (k, _) in acts.iter() {
        if rng.chance(1, 3) {
            hints.push(*k);
            if rng.chance(1, 5) {
                hints.push(*k);
            }
        }
    }
    if rng.chance(1, 4) {
        hints.push(rng.bytes32());
    }
    if rng.chance(1, 2) {
        hints.reverse();
    }
    for k in &hints {
        s.preserve_prior_value(*k);
    }
    for (k, _) in acts.iter() {
        if rng.chance(1, 3) {
            s.warm_up(*k);
        }
    }
    if rb && !hints.is_empty() {
        out.count("sessions_with_preserve_prior_hints");
    }

    let actuals: Vec<(Key, KeyReadWrite)> = acts.iter().map(|(k, a)| (*k, a.to_real())).collect();
    let hints_txt = if hints.is_empty() { "-".to_string() } else { hints.iter().map(|k| hex(k)).collect::<Vec<_>>().join(",") };
    let fin_line = format!(
        "fin {n} {} {} {} {} {hints_txt} {}",
        u8::from(cfg!(debug_assertions)),
        u8::from(superseded),
        u8::from(witness_on),
        u8::from(rb),
        acts_text(&acts)
    );

    split_trace::begin();
    let r = catch_unwind(AssertUnwindSafe(move || s.finish(actuals)));
    let events = split_trace::take();
    let mut fin = match r {
        Ok(Ok(fin)) => fin,
        Ok(Err(e)) => {
            let msg = format!("{e:#}");
            if superseded && msg.contains("not based on the committed state") {
                out.line(fin_line, "err superseded".into());
                if !events.is_empty() {
                    out.fail(format!("C15 a refused finish reached the merkle updater ({} events)", events.len()));
                }
                out.count("finish_refused_superseded");
                out.nontrivial(&format!("superseded|{n}|{}", acts.len()));
                return true;
            }
            out.line(fin_line, format!("err {msg}"));
            out.fail(format!("C14 finish error (finishops): {msg}"));
            return false;
        }
        Err(p) => {
            let msg = panic_text(&p);
            let idx = msg.strip_prefix("actuals are not sorted at index ").map(|x| x.to_string());
            match idx {
                Some(i) if bad_order => {
                    out.line(fin_line, format!("panic unsorted {i}"));
                    if !events.is_empty() {
                        out.fail(format!("C06 a rejected finish reached the merkle updater ({} events)", events.len()));
                    }
                    out.count("finish_rejected_unsorted");
                    out.nontrivial(&format!("unsorted|{n}|{i}|{}", acts.len()));
                    // the store must still be usable
                    return true;
                }
                _ => {
                    out.line(fin_line, format!("panic {msg}"));
                    out.fail(format!("C01 finish PANIC (finishops) workers={n}: {msg}; actuals={}", acts_text(&acts).chars().take(600).collect::<String>()));
                    return false;
                }
            }
        }
    };
    if bad_order {
        out.fail(format!("C06 finish ACCEPTED unsorted / duplicate actuals (debug_assertions={})", cfg!(debug_assertions)));
    }
    if superseded {
        out.fail("C15 finish of a session on a superseded overlay chain succeeded".into());
    }
    let root = fin.root().into_inner();

    // ---- the compact operation list ----------------------------------------------------------------
    let upd: Vec<&Event> = events.iter().filter(|e| matches!(e, Event::Update { .. })).collect();
    let (real_ops, real_wit) = match upd.as_slice() {
        [Event::Update { read_write, witness }] => (read_write.clone(), *witness),
        _ => {
            out.fail(format!("C06 expected exactly one update_and_prove per finish, saw {}", upd.len()));
            return false;
        }
    };
    let ops_txt = if real_ops.is_empty() {
        "-".to_string()
    } else {
        real_ops
            .iter()
            .map(|(k, kind, v)| match kind {
                0 => format!("{}:R", hex(k)),
                1 => format!("{}:W:{}", hex(k), v.map(|v| hex(&v)).unwrap_or("-".into())),
                _ => format!("{}:RW:{}", hex(k), v.map(|v| hex(&v)).unwrap_or("-".into())),
            })
            .collect::<Vec<_>>()
            .join(",")
    };
    out.line(fin_line, format!("ops {ops_txt}"));
    // C06 oracle: key by key
    let expect_ops: Vec<([u8; 32], u8, Option<[u8; 32]>)> = acts
        .iter()
        .map(|(k, a)| match a {
            Act::Read(_) => (*k, 0u8, None),
            Act::Write(v) => (*k, 1u8, v.as_ref().map(|v| vhash(v))),
            Act::Rtw(_, v) => (*k, 2u8, v.as_ref().map(|v| vhash(v))),
        })
        .collect();
    if expect_ops != real_ops {
        out.fail(format!("C06 the operation list handed to the merkle updater is not the compact form of the actuals ({} vs {} entries)", real_ops.len(), expect_ops.len()));
    }
    if real_wit != witness_on {
        out.fail(format!("C06 witness flag handed to the updater is {real_wit}, the session's mode is {witness_on}"));
    }

    // ---- batches, has_writes, rebuilt ---------------------------------------------------------------
    let kinds: Vec<(Key, Kind)> = acts.iter().map(|(k, a)| (*k, a.kind())).collect();
    let keys: Vec<Key> = acts.iter().map(|x| x.0).collect();
    let terms: Vec<Vec<bool>> = keys.iter().map(|k| ref_terminal(&vh, k)).collect();
    let mut per_worker: Vec<Vec<String>> = vec![Vec::new(); n];
    let mut adv: Vec<Vec<String>> = vec![Vec::new(); n];
    let mut owned: Vec<(usize, usize, bool, bool)> = Vec::new(); // start, next, non_exclusive, has_writes
    for e in &events {
        match e {
            Event::Batch { shard, start, next, position, owned: o, non_exclusive, has_writes } if *shard < n => {
                per_worker[*shard].push(format!(
                    "{}-{}-{}-{}{}{}",
                    start,
                    next,
                    bits_string(position),
                    if *o { 'o' } else { 's' },
                    if !*o { '-' } else if *non_exclusive { 'n' } else { 'x' },
                    if *has_writes { 'w' } else { 'r' }
                ));
                let any_write = kinds[*start..(*next).min(kinds.len())].iter().any(|(_, k)| !matches!(k, Kind::Read));
                if *has_writes != any_write {
                    out.fail(format!(
                        "C13 batch {start}..{next} under {}: has_writes={has_writes} but the operations say {any_write} (workers={n})",
                        bits_string(position)
                    ));
                }
                if *o {
                    owned.push((*start, *next, *non_exclusive, *has_writes));
                    if *start < terms.len() && *position != terms[*start] {
                        out.fail(format!("C13 batch at {start} has terminal {} but the reference trie says {}", bits_string(position), bits_string(&terms[*start])));
                    }
                    out.count(if *has_writes { "owned_batches_with_writes" } else { "owned_batches_read_only" });
                    let noop_writes = acts[*start..(*next).min(acts.len())].iter().all(|(k, a)| is_noop(a, &view.get(k).cloned()));
                    if *has_writes && noop_writes {
                        out.count("batches_whose_writes_are_all_noops");
                    }
                }
            }
            Event::Advance { shard, start, rebuilt, ops } if *shard < n => {
                adv[*shard].push(format!("{}/{}", start, if *rebuilt { format!("R{ops}") } else { "A".into() }));
                out.count(if *rebuilt { "exclusive_batches_rebuilt" } else { "exclusive_batches_only_advanced" });
            }
            _ => {}
        }
    }
    // every owned exclusive batch has exactly one Advance event: rebuilt iff it has writes, with its writes
    for (s0, e0, nonex, hw) in &owned {
        if *nonex {
            continue;
        }
        let nwrites = kinds[*s0..(*e0).min(kinds.len())].iter().filter(|(_, k)| !matches!(k, Kind::Read)).count();
        let want = format!("{}/{}", s0, if nwrites > 0 { format!("R{nwrites}") } else { "A".into() });
        let got: Vec<&String> = adv.iter().flatten().filter(|a| a.starts_with(&format!("{s0}/"))).collect();
        if got.len() != 1 || *got[0] != want {
            out.fail(format!("C13 batch {s0}..{e0} (has_writes={hw}): expected the walker step {want}, saw {got:?} (workers={n})"));
        }
    }
    let mut sorted_owned: Vec<(usize, usize)> = owned.iter().map(|x| (x.0, x.1)).collect();
    sorted_owned.sort();
    let mut ref_batches: Vec<(usize, usize)> = Vec::new();
    let mut i = 0;
    while i < keys.len() {
        let mut j = i + 1;
        while j < keys.len() && terms[j] == terms[i] {
            j += 1;
        }
        ref_batches.push((i, j));
        i = j;
    }
    if sorted_owned != ref_batches {
        out.fail(format!("C13 batches are not owned exactly once: owned {sorted_owned:?}, batches of the sorted operations {ref_batches:?} (workers={n})"));
    }
    out.add("max_batch", ref_batches.iter().map(|b| b.1 - b.0).max().unwrap_or(0) as u64);
    let join_semi = |v: &Vec<Vec<String>>| v.iter().map(|w| if w.is_empty() { "-".to_string() } else { w.join(",") }).collect::<Vec<_>>().join(";");
    out.line("batches".into(), join_semi(&per_worker));
    out.line("adv".into(), join_semi(&adv));

    // ---- value changes ------------------------------------------------------------------------------
    let changes = fin.verif_value_changes();
    out.line("changes".into(), kv_text(&changes));
    let expect_changes: Vec<(Key, Option<Val>)> = acts.iter().filter_map(|(k, a)| a.written().map(|w| (*k, w))).collect();
    if changes != expect_changes {
        out.fail(format!("C01 the value transaction holds {} changes, the actuals write {} keys (or other values / order)", changes.len(), expect_changes.len()));
    }

    // ---- rollback delta -----------------------------------------------------------------------------
    let delta = fin.verif_rollback_delta();
    out.line("delta".into(), match &delta { None => "none".into(), Some(d) => kv_text(d) });
    match (&delta, rb) {
        (None, false) => {}
        (Some(d), true) => {
            let expect: Vec<(Key, Option<Val>)> = acts
                .iter()
                .filter(|(_, a)| a.written().is_some())
                .map(|(k, a)| match a {
                    // observation point: the builder keeps the prior the caller CLAIMS
                    Act::Rtw(p, _) if untruthful => (*k, p.clone()),
                    _ => (*k, view.get(k).cloned()),
                })
                .collect();
            if *d != expect {
                out.fail(format!(
                    "C09 the rollback delta is not the prior view of the written keys: {} entries, expected {} (hints={}, overlay={with_overlay}, workers={n})",
                    d.len(),
                    expect.len(),
                    hints.len()
                ));
            }
            if untruthful {
                let truth: Vec<(Key, Option<Val>)> = acts.iter().filter(|(_, a)| a.written().is_some()).map(|(k, _)| (*k, view.get(k).cloned())).collect();
                if *d != truth {
                    out.count("untruthful_rtw_prior_ends_up_in_the_delta");
                }
            }
        }
        _ => out.fail(format!("C09 rollback={rb} but the finished session {} a delta", if delta.is_some() { "has" } else { "has no" })),
    }

    // ---- root ---------------------------------------------------------------------------------------
    let mut view_after = view.clone();
    for (k, a) in &acts {
        match a.written() {
            Some(Some(v)) => {
                view_after.insert(*k, v);
            }
            Some(None) => {
                view_after.remove(k);
            }
            None => {}
        }
    }
    let vh_after = view_hashes(&view_after);
    let expect_root = ref_root(&vh_after);
    out.line("root".into(), hex(&root));
    if root != expect_root {
        out.fail(format!(
            "C02 root after finish {} != reference root {} ({} keys, {} ops, workers={n})",
            hex(&root),
            hex(&expect_root),
            view_after.len(),
            acts.len()
        ));
    }
    if view_after == *view {
        out.count("sessions_that_change_nothing");
        if root != prev_root {
            out.fail("C02 a session whose writes are all no-ops reports another root".into());
        }
    }

    // ---- witness ------------------------------------------------------------------------------------
    let witness = fin.take_witness();
    match (witness, witness_on) {
        (Some(w), true) => {
            out.add("witness_paths", w.path_proofs.len() as u64);
            check_witness(&w, n, prev_root, root, view, &kinds, out);
        }
        (None, false) => out.line("spec".into(), "none".into()),
        (Some(_), false) => out.fail("C06 witness mode disabled but a witness was produced".into()),
        (None, true) => out.fail("C06 witness mode enabled but no witness produced".into()),
    }

    let sig: String = ref_batches
        .iter()
        .map(|(a, b)| {
            let ks: String = kinds[*a..*b].iter().map(|(_, k)| match k { Kind::Read => 'r', Kind::Write(None) => 'd', Kind::Write(_) => 'w', Kind::ReadWrite(None) => 'D', Kind::ReadWrite(_) => 'x' }).collect();
            format!("{}:{}", terms[*a].len(), ks)
        })
        .collect::<Vec<_>>()
        .join("|");
    out.nontrivial(&format!("{n}|{rb}|{witness_on}|{with_overlay}|{sig}"));
    out.add("operations", acts.len() as u64);
    out.count("finished_sessions");

    // ---- commit, read back, roll back ---------------------------------------------------------------
    if with_overlay {
        // the changeset stands on an uncommitted overlay: commit the chain oldest first
        let o = overlay.unwrap();
        let child = fin.into_overlay();
        let r = catch_unwind(AssertUnwindSafe(|| o.commit(db).and_then(|_| child.commit(db))));
        match r {
            Ok(Ok(_)) => {}
            Ok(Err(e)) => {
                out.fail(format!("C11 commit of the overlay chain failed: {e:#}"));
                return false;
            }
            Err(_) => {
                out.fail("C11 commit of the overlay chain PANICKED".into());
                return false;
            }
        }
    } else {
        match catch_unwind(AssertUnwindSafe(|| fin.commit(db))) {
            Ok(Ok(_)) => {}
            Ok(Err(e)) => {
                out.fail(format!("C14 commit error (finishops): {e:#}"));
                return false;
            }
            Err(_) => {
                out.fail("C01 commit PANIC (finishops)".into());
                return false;
            }
        }
    }
    if db.root().into_inner() != root {
        out.fail("C02 the committed root differs from the finished session's root".into());
    }
    for (k, _) in &acts {
        match db.read(*k) {
            Ok(v) => {
                if v.as_ref() != view_after.get(k) {
                    out.fail(format!("C01 Nomt::read of {} after the commit differs from the sequential model", &hex(k)[..16]));
                    break;
                }
            }
            Err(e) => out.fail(format!("C14 read error: {e:#}")),
        }
    }
    *committed = view_after.clone();
    if rb && !untruthful && rng.chance(1, 3) {
        // the delta in action
        match catch_unwind(AssertUnwindSafe(|| db.rollback(1))) {
            Ok(Ok(_)) => {
                out.count("rollbacks");
                if db.root().into_inner() != prev_root {
                    out.fail(format!("C09 rollback(1) gives root {} but the state before the commit had {}", hex(&db.root().into_inner()), hex(&prev_root)));
                }
                for (k, _) in &acts {
                    if let Ok(v) = db.read(*k) {
                        if v.as_ref() != view.get(k) {
                            out.fail(format!("C09 after rollback(1) key {} does not read its prior value", &hex(k)[..16]));
                            break;
                        }
                    }
                }
                *committed = view.clone();
            }
            Ok(Err(e)) => out.fail(format!("C09 rollback(1) failed: {e:#}")),
            Err(_) => {
                out.fail("C09 rollback(1) PANICKED".into());
                return false;
            }
        }
    } else if rb && untruthful {
        // observation: what the lie does to a rollback
        if let Ok(Ok(_)) = catch_unwind(AssertUnwindSafe(|| db.rollback(1))) {
            let mut same = db.root().into_inner() == prev_root;
            for (k, _) in &acts {
                if let Ok(v) = db.read(*k) {
                    same &= v.as_ref() == view.get(k);
                }
            }
            out.count(if same { "untruthful_rtw_rollback_still_exact" } else { "untruthful_rtw_rollback_restores_the_claim" });
            // resynchronise the oracle with whatever the store holds now
            let mut now = view.clone();
            for (k, a) in &acts {
                if let Act::Rtw(p, _) = a {
                    match p {
                        Some(v) => {
                            now.insert(*k, v.clone());
                        }
                        None => {
                            now.remove(k);
                        }
                    }
                }
            }
            *committed = now;
        } else {
            return false;
        }
    }
    true
}
