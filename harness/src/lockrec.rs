//! C15 (secondarily C12, C13): LOCK / STEP RECORDER for the real store and the conformance replay of real
//! multi-threaded schedules in the two-lock LTS (`lean/NomtModel/Api/Locks2*.lean`, driver mode `locks`).
//!
//! The hook H19 (`nomt::verif_hook::{set_lock_handler, LockEvent}`) reports, from inside the real code, the start
//! of every API call (with the identifiers the LTS needs) and a named marker at every micro-step of the locking
//! protocol: acquisition / release of the access lock for reading and for writing, `try_write` success / failure,
//! every `shared.lock()` scope, the sampling of a session's base root, `Nomt::root`, reads through a session, the
//! parent-marker / poison / root checks, the publication of the root, rollback-log push / pop, start / end of
//! `Store::commit`.  The handler below appends every marker to ONE process-global, mutex-protected log — the order
//! of the log is a real-time order — and pauses at random at marker sites to diversify the interleavings.
//!
//! After a scenario (2…6 threads running generated tasks on one fresh store: sessions begin / read / finish /
//! drop, blocking and non-blocking commits of sessions and of overlay chains prepared on the same or successive
//! bases, commits out of order, non-blocking commits while a session is alive, rollbacks, `Nomt::root`,
//! `Nomt::read`) the log is rendered as `call` / `at` lines for `nomt_model locks` (`ops.txt`) together with what
//! the real code answered (`impl.txt`): `ok ran` for every step that happened, `ok finished <result>` for the
//! returns with the REAL result.  The replay must answer the same on every line: every recorded micro-step is the
//! thread's next instruction in the LTS, is ENABLED in the LTS state reached by the recorded prefix, every call's
//! result is the model's, and the final committed state (`final` line) is the model's.
//!
//! ## From markers to LTS micro-steps (the linearizer)
//!
//! A marker is not atomic with the lock operation it is about, so what the log gives for every lock operation is an
//! INTERVAL: `X.wait … X.got` for a blocking acquisition (the acquisition happened in between), `X_unlock.pre …
//! X_unlock.post` for a release, `A.try_write.pre … A.try_write.ok|busy` for an attempt.  The renderer places each
//! LTS step inside its interval:
//!   * an acquisition at its `got` marker (lock held), a release of `shared` at its `M.unlock` marker (before the
//!     real release): a POSITIVE observation (somebody acquired) then always finds the model's lock free;
//!   * a release of the access lock LAZILY — at the `post` marker, at the thread's next event, or when another
//!     thread's acquisition needs it — because a FAILED `try_write` is a negative observation: the lock must still be
//!     held in the model while it is really held;
//!   * a failed `try_write` at the first moment of its interval at which the model's lock is not free; if there is
//!     none, the acquisition of the thread that logs `got` next (it already holds the lock, its marker is late) is
//!     placed just before it (`early_acquire`).
//! parking_lot's two phases of `write()` (WRITER_BIT, then wait for the readers) are not visible from outside: both
//! LTS steps `A.write1`, `A.write2` are placed at `A.write.got` (or `A.write1` earlier by the rule above).
//! `Nomt::root`, the marker check of the overlay commits: the guard of `shared` is a temporary, ONE marker is
//! reported while it is held; it is rendered as `M.lock`, the step, `M.unlock` at that point.
use crate::db::DbCfg;
use crate::util::*;
use nomt::hasher::Blake3Hasher;
use nomt::{FinishedSession, KeyReadWrite, Nomt, Overlay, Session, SessionParams};
use std::collections::{BTreeMap, HashMap};
use std::sync::atomic::{AtomicBool, AtomicU64, Ordering};
use std::sync::{Arc, Barrier, Mutex};
use std::time::Duration;

type Db = Nomt<Blake3Hasher>;

#[derive(Clone, Debug)]
struct Ev {
    tid: u32,
    name: String,
    detail: String,
}

struct Recorder {
    log: Mutex<Vec<Ev>>,
    on: AtomicBool,
    seed: AtomicU64,
    pause: AtomicU64, // 0 = no pauses, else the denominator scale
}

static REC: std::sync::OnceLock<Arc<Recorder>> = std::sync::OnceLock::new();
/// messages of the panics of the current scenario (all threads, the store's worker threads included)
static PANICS: Mutex<Vec<String>> = Mutex::new(vec![]);

thread_local! {
    static PAUSE_RNG: std::cell::RefCell<Option<(u64, Rng)>> = std::cell::RefCell::new(None);
}

fn rec() -> &'static Arc<Recorder> {
    REC.get_or_init(|| {
        let r = Arc::new(Recorder { log: Mutex::new(vec![]), on: AtomicBool::new(false), seed: AtomicU64::new(0), pause: AtomicU64::new(0) });
        let r2 = r.clone();
        nomt::verif_hook::set_lock_handler(Some(Arc::new(move |e: &nomt::verif_hook::LockEvent<'_>| {
            record(&r2, e.tid, e.name, e.detail);
        })));
        r
    })
}

/// pause at a marker site (a yield or a short sleep), from a per-thread PRNG derived from the scenario seed
fn maybe_pause(r: &Recorder, tid: u32) {
    let level = r.pause.load(Ordering::Relaxed);
    if level == 0 {
        return;
    }
    let seed = r.seed.load(Ordering::Relaxed);
    let choice = PAUSE_RNG.with(|c| {
        let mut c = c.borrow_mut();
        if c.as_ref().map(|(s, _)| *s) != Some(seed) {
            *c = Some((seed, Rng::new(seed ^ ((tid as u64) << 32) ^ 0xA5A5)));
        }
        let rng = &mut c.as_mut().unwrap().1;
        let x = rng.below(16 * level as usize);
        (x, rng.below(250) as u64)
    });
    match choice.0 {
        0 | 1 => std::thread::sleep(Duration::from_micros(20 + choice.1)),
        2..=5 => std::thread::yield_now(),
        _ => {}
    }
}

/// where the pause goes relative to the log entry: a marker reported BEFORE its operation may pause on either side; a
/// marker reported AFTER an acquisition (lock held) is logged at once and pauses afterwards (holding the lock: other
/// threads pile up); a marker reported before a release pauses first and is logged right before the release
fn record(r: &Recorder, tid: u32, name: &str, detail: &str) {
    if !r.on.load(Ordering::Relaxed) {
        return;
    }
    let pre_release = name.ends_with("_unlock.pre") || name == "M.unlock";
    if pre_release {
        maybe_pause(r, tid);
    }
    r.log.lock().unwrap().push(Ev { tid, name: name.to_string(), detail: detail.to_string() });
    if !pre_release {
        maybe_pause(r, tid);
    }
}

/// a harness-side event (call of an API without a call marker, the return of a call with its result)
fn hev(name: &str, detail: String) {
    let r = rec();
    record(r, nomt::verif_hook::lock_tid(), name, &detail);
}

const STAMP: Key = [0x5A; 32];

fn stamp_of(v: &Option<Vec<u8>>) -> u64 {
    match v {
        Some(b) if b.len() >= 8 => u64::from_le_bytes(b[..8].try_into().unwrap()),
        _ => 0,
    }
}

fn short(n: &[u8; 32]) -> String {
    hex(&n[..8])
}

fn classify(e: &anyhow::Error) -> &'static str {
    let s = format!("{e:#}");
    if s.contains("poisoned") {
        "err-poisoned"
    } else if s.contains("no longer valid") {
        "err-stale"
    } else if s.contains("parent not committed") {
        "err-parent"
    } else if s.contains("not enough logged") {
        "err-not-enough"
    } else {
        "err-other"
    }
}

/// one task of a thread
#[derive(Clone, Debug)]
enum Task {
    /// begin, read `reads` times, finish, commit (blocking / non-blocking with up to `retries` retries)
    SessionCommit { reads: usize, blocking: bool, retries: usize, linger: bool },
    /// begin, read, drop
    SessionDrop { reads: usize },
    /// a chain of `len` overlays (each prepared by a session on top of the previous ones), then committed oldest
    /// first — or, if `child_first`, the youngest first (refused: parent not committed)
    OverlayChain { len: usize, blocking: bool, child_first: bool },
    /// prepare a changeset, open a second session, try to commit the changeset while that session is alive (busy),
    /// end the session, commit
    TryWhileSession,
    Rollback { n: usize },
    Root,
    NomtRead,
}

struct Shared {
    db: Arc<Db>,
    next_stamp: AtomicU64,
    /// stamp -> short root of the state that carries it
    roots: Mutex<HashMap<u64, String>>,
    next_ov: AtomicU64,
    problems: Mutex<Vec<String>>,
    observations: Mutex<Vec<String>>,
}

fn caught<R>(sh: &Shared, what: &str, f: impl FnOnce() -> R) -> Option<R> {
    match std::panic::catch_unwind(std::panic::AssertUnwindSafe(f)) {
        Ok(r) => Some(r),
        Err(_) => {
            hev("h.ret", "panic".into());
            sh.problems.lock().unwrap().push(format!("C15 panic in {what}"));
            None
        }
    }
}

fn begin(sh: &Shared, chain: &[Overlay], base: Option<[u8; 32]>) -> Option<Session<Blake3Hasher>> {
    if let Some(b) = base {
        // the state the chain was built on (previous root of its oldest member: no member is committed while the chain is built)
        hev("h.ovbase", format!("base={}", short(&b)));
    }
    let params = if chain.is_empty() {
        SessionParams::default()
    } else {
        match SessionParams::default().overlay(chain.iter().rev()) {
            Ok(p) => p,
            Err(_) => return None,
        }
    };
    let s = caught(sh, "begin_session", || sh.db.begin_session(params))?;
    hev("h.ret", format!("done prev={}", short(&s.prev_root().into_inner())));
    Some(s)
}

fn read(sh: &Shared, s: &Session<Blake3Hasher>) {
    if let Some(r) = caught(sh, "Session::read", || s.read(STAMP)) {
        match r {
            Ok(v) => {
                let st = stamp_of(&v);
                let root = sh.roots.lock().unwrap().get(&st).cloned().unwrap_or_else(|| format!("unknown-stamp-{st}"));
                // oracle (independent of the model): a session reads the state its base root names
                let prev = short(&s.prev_root().into_inner());
                if root != prev {
                    sh.problems.lock().unwrap().push(format!("C15 a session based on root {prev} read stamp {st}, which belongs to the state with root {root} (the session does not read its own base state)"));
                }
                hev("h.ret", format!("done val={root}"));
            }
            Err(e) => {
                sh.problems.lock().unwrap().push(format!("C15 read error {e:#}"));
                hev("h.ret", "err-other".into());
            }
        }
    }
}

/// finish the session with a fresh stamp; registers the new root
fn finish(sh: &Shared, s: Session<Blake3Hasher>, rng: &mut Rng, on_overlay: bool, superseded: Option<bool>) -> Option<FinishedSession> {
    let id = sh.next_stamp.fetch_add(1, Ordering::SeqCst);
    let mut val = id.to_le_bytes().to_vec();
    if rng.chance(1, 6) {
        val.extend(std::iter::repeat(7u8).take(1500));
    }
    let mut actuals = vec![(STAMP, KeyReadWrite::Write(Some(val)))];
    if rng.chance(1, 2) {
        let mut k = rng.bytes32();
        k[0] |= 0x80; // never the stamp key
        actuals.push((k, KeyReadWrite::Write(Some(vec![id as u8; 20]))));
    }
    actuals.sort_by(|a, b| a.0.cmp(&b.0));
    hev("h.finish", format!("sid={}", s.verif_sid()));
    let r = match std::panic::catch_unwind(std::panic::AssertUnwindSafe(|| s.finish(actuals))) {
        Ok(r) => r,
        Err(_) => {
            // the guard was dropped while unwinding
            hev("h.end_done", "panic".into());
            sh.problems.lock().unwrap().push(format!("C15 C11 panic in Session::finish (session on an overlay chain: {on_overlay})"));
            return None;
        }
    };
    match r {
        Ok(f) => {
            hev("h.end_done", "ok".into());
            if superseded == Some(true) {
                sh.problems.lock().unwrap().push("C11 F23 a session on an overlay chain whose base is not the committed root (Nomt::root asked under the session's own read guard) was finished: Session::finish must refuse it".into());
            }
            sh.roots.lock().unwrap().insert(id, short(&f.root().into_inner()));
            Some(f)
        }
        Err(e) => {
            let msg = format!("{e:#}");
            if msg.contains("not based on the committed state") {
                hev("h.end_done", "err-superseded".into());
                sh.observations.lock().unwrap().push("superseded_chain_finish_refused".into());
                if superseded != Some(true) {
                    sh.problems.lock().unwrap().push("C11 C15 Session::finish refused a session as superseded although its chain's base was the committed root under the session's read guard".into());
                }
            } else {
                hev("h.end_done", "err-other".into());
                sh.problems.lock().unwrap().push(format!("C15 finish error {msg}"));
            }
            None
        }
    }
}

fn drop_session(sh: &Shared, s: Session<Blake3Hasher>) {
    caught(sh, "drop(Session)", || drop(s));
    hev("h.end_done", String::new());
}

fn commit_fin(sh: &Shared, f: FinishedSession) {
    if let Some(r) = caught(sh, "FinishedSession::commit", || f.commit(&*sh.db)) {
        hev("h.ret", match r { Ok(()) => "ok".into(), Err(e) => classify(&e).to_string() });
    }
}

fn try_commit_fin(sh: &Shared, f: FinishedSession) -> Option<FinishedSession> {
    match caught(sh, "FinishedSession::try_commit_nonblocking", || f.try_commit_nonblocking(&*sh.db))? {
        Ok(None) => {
            hev("h.ret", "ok".into());
            None
        }
        Ok(Some(back)) => {
            hev("h.ret", "busy".into());
            Some(back)
        }
        Err(e) => {
            hev("h.ret", classify(&e).to_string());
            None
        }
    }
}

/// a fresh scenario-local id for a new overlay, logged with the address of its status cell (the identity the
/// commit-order check compares): the renderer resolves the addresses a `call.ov_*` marker carries in log order, so
/// an address that comes back after its overlay died names the NEW overlay
fn register_overlay(sh: &Shared, ov: &Overlay) {
    let (addr, _) = ov.verif_ids();
    let n = sh.next_ov.fetch_add(1, Ordering::SeqCst);
    hev("h.ov", format!("id={n} addr={addr:x}"));
}

fn run_task(sh: &Shared, task: &Task, rng: &mut Rng) {
    match task {
        Task::SessionCommit { reads, blocking, retries, linger } => {
            let Some(s) = begin(sh, &[], None) else { return };
            for _ in 0..*reads {
                read(sh, &s);
            }
            if *linger {
                std::thread::sleep(Duration::from_micros(rng.range(50, 400) as u64));
            }
            let Some(f) = finish(sh, s, rng, false, None) else { return };
            if *blocking {
                commit_fin(sh, f);
            } else {
                let mut f = Some(f);
                for _ in 0..=*retries {
                    match try_commit_fin(sh, f.take().unwrap()) {
                        None => break,
                        Some(back) => {
                            f = Some(back);
                            std::thread::sleep(Duration::from_micros(rng.range(20, 200) as u64));
                        }
                    }
                }
            }
        }
        Task::SessionDrop { reads } => {
            let Some(s) = begin(sh, &[], None) else { return };
            for _ in 0..*reads {
                read(sh, &s);
            }
            std::thread::sleep(Duration::from_micros(rng.range(0, 300) as u64));
            drop_session(sh, s);
        }
        Task::OverlayChain { len, blocking, child_first } => {
            let mut chain: Vec<Overlay> = vec![];
            let mut base: Option<[u8; 32]> = None;
            for _ in 0..*len {
                let Some(s) = begin(sh, &chain, base) else { return };
                let mut superseded: Option<bool> = None;
                match base {
                    None => base = Some(s.prev_root().into_inner()),
                    Some(b) => {
                        // The session holds the read guard, so the answer of `Nomt::root` cannot change until it ends: this is the
                        // harness's own (model-independent) knowledge of whether the chain still stands on the committed state.
                        // Since the repair of F23 `Session::finish` must refuse exactly the superseded ones.
                        hev("h.call.root", String::new());
                        let cur = caught(sh, "Nomt::root", || sh.db.root());
                        if let Some(r) = &cur {
                            hev("h.ret", format!("done root={}", short(&r.into_inner())));
                        }
                        superseded = cur.map(|r| r.into_inner() != b);
                    }
                }
                let Some(f) = finish(sh, s, rng, !chain.is_empty(), superseded) else { break };
                let ov = f.into_overlay();
                register_overlay(sh, &ov);
                chain.push(ov);
            }
            if *child_first && chain.len() >= 2 {
                let child = chain.pop().unwrap();
                chain.insert(0, child);
            }
            for ov in chain {
                if *blocking {
                    if let Some(r) = caught(sh, "Overlay::commit", || ov.commit(&*sh.db)) {
                        hev("h.ret", match r { Ok(()) => "ok".into(), Err(e) => classify(&e).to_string() });
                    }
                } else {
                    let mut o = Some(ov);
                    for _ in 0..4 {
                        match caught(sh, "Overlay::try_commit_nonblocking", || o.take().unwrap().try_commit_nonblocking(&*sh.db)) {
                            Some(Ok(None)) => {
                                hev("h.ret", "ok".into());
                                break;
                            }
                            Some(Ok(Some(back))) => {
                                hev("h.ret", "busy".into());
                                o = Some(back);
                                std::thread::sleep(Duration::from_micros(rng.range(20, 200) as u64));
                            }
                            Some(Err(e)) => {
                                hev("h.ret", classify(&e).to_string());
                                break;
                            }
                            None => break,
                        }
                    }
                }
            }
        }
        Task::TryWhileSession => {
            let Some(s) = begin(sh, &[], None) else { return };
            let Some(f) = finish(sh, s, rng, false, None) else { return };
            let Some(s2) = begin(sh, &[], None) else { return };
            // the caller discipline of T15.7 allows a session owner the NON-blocking commit: it is handed back
            let back = try_commit_fin(sh, f);
            read(sh, &s2);
            drop_session(sh, s2);
            if let Some(f) = back {
                commit_fin(sh, f);
            }
        }
        Task::Rollback { n } => {
            if let Some(r) = caught(sh, "Nomt::rollback", || sh.db.rollback(*n)) {
                hev("h.ret", match r { Ok(()) => "ok".into(), Err(e) => classify(&e).to_string() });
            }
        }
        Task::Root => {
            hev("h.call.root", String::new());
            if let Some(r) = caught(sh, "Nomt::root", || sh.db.root()) {
                hev("h.ret", format!("done root={}", short(&r.into_inner())));
            }
        }
        Task::NomtRead => {
            if let Some(r) = caught(sh, "Nomt::read", || sh.db.read(STAMP)) {
                match r {
                    Ok(v) => {
                        let st = stamp_of(&v);
                        let root = sh.roots.lock().unwrap().get(&st).cloned().unwrap_or_else(|| format!("unknown-stamp-{st}"));
                        hev("h.ret", format!("done val={root}"));
                    }
                    Err(_) => hev("h.ret", "err-other".into()),
                }
            }
        }
    }
}

fn gen_tasks(rng: &mut Rng, focus: usize) -> Vec<Task> {
    let n = rng.range(2, 4);
    (0..n)
        .map(|_| {
            let k = match focus {
                // writers racing on one base
                1 => *rng.pick(&[0usize, 0, 0, 5, 2]),
                // readers vs writers
                2 => *rng.pick(&[0usize, 1, 1, 4, 6, 7]),
                // overlays and rollbacks
                3 => *rng.pick(&[2usize, 2, 3, 0, 5]),
                _ => rng.below(8),
            };
            match k {
                0 => Task::SessionCommit { reads: rng.below(3), blocking: rng.chance(1, 2), retries: rng.below(4), linger: rng.chance(1, 3) },
                1 => Task::SessionDrop { reads: rng.range(1, 3) },
                2 => Task::OverlayChain { len: rng.range(1, 3), blocking: rng.chance(1, 2), child_first: rng.chance(1, 4) },
                3 => Task::Rollback { n: *rng.pick(&[1usize, 1, 1, 2, 3, 0]) },
                4 => Task::Root,
                5 => Task::TryWhileSession,
                6 => Task::NomtRead,
                _ => Task::SessionCommit { reads: 1, blocking: false, retries: 0, linger: true },
            }
        })
        .collect()
}

// ------------------------------------------------------------------------------------------------
// rendering
// ------------------------------------------------------------------------------------------------

#[derive(Clone, Copy, PartialEq, Debug)]
enum Kind {
    Begin,
    /// on a chain of overlays: the committed root is read under `shared` to compare it with the chain's base (F23 repair)
    BeginOv,
    /// `Session::finish`
    Fin,
    End,
    SRead,
    NRead,
    Root,
    Commit,
    TryCommit,
    OvCommit,
    OvTryCommit,
    Rollback,
}

#[derive(Clone, Debug)]
struct Ctx {
    kind: Kind,
    sid: usize,
    /// the model's call is over (busy / err-parent answered by the failing step): the remaining events are skipped
    finished: bool,
    /// inside `Nomt::rollback`: the inner `FinishedSession::commit` has started
    inner: bool,
    /// `A.write1` / `A.read` placed before the `got` marker
    early: bool,
    is_write: bool,
}

/// a thread between the `wait` / `pre` marker of an acquisition that will succeed and its `got` / `ok` marker
#[derive(Clone, Copy, Debug)]
enum Waiting {
    Read(usize),
    Write,
    Try,
}

#[derive(Clone, Debug)]
enum PendingRel {
    Read(usize),
    Write,
}

struct Render<'a> {
    evs: &'a [Ev],
    tmap: HashMap<u32, usize>,
    smap: HashMap<String, usize>,
    ops: Vec<String>,
    imp: Vec<String>,
    ctx: HashMap<usize, Ctx>,
    pending: HashMap<usize, PendingRel>,
    waiting: HashMap<usize, Waiting>,
    /// the chain base announced by the harness for the thread's next `begin_session` on overlays
    ovbase: HashMap<usize, String>,
    /// threads inside a `try_write` that will fail and has not been placed yet
    busy_try: Vec<usize>,
    readers: Vec<(usize, usize)>,
    wbit: Option<usize>,
    wown: bool,
    next_sid: usize,
    verdicts: Vec<String>,
    /// independent oracle: sequential state in write-guard order
    sections: Vec<(usize, String)>,
    stats: BTreeMap<String, u64>,
    problems: Vec<String>,
    nat: usize,
    overlaps: u64,
}

fn field<'b>(detail: &'b str, key: &str) -> Option<&'b str> {
    detail.split(' ').find_map(|kv| kv.strip_prefix(key).and_then(|r| r.strip_prefix('=')))
}

impl<'a> Render<'a> {
    fn bump(&mut self, k: &str) {
        *self.stats.entry(k.to_string()).or_insert(0) += 1;
    }
    fn tid(&mut self, t: u32) -> usize {
        let n = self.tmap.len() + 1;
        *self.tmap.entry(t).or_insert(n)
    }
    fn sid(&mut self, s: &str) -> usize {
        if let Some(x) = self.smap.get(s) {
            return *x;
        }
        self.next_sid += 1;
        self.smap.insert(s.to_string(), self.next_sid);
        self.next_sid
    }
    fn call(&mut self, t: usize, text: String, kind: Kind, sid: usize) {
        let is_write = matches!(kind, Kind::Commit | Kind::TryCommit | Kind::OvCommit | Kind::OvTryCommit | Kind::Rollback);
        let active = self.ctx.len();
        if active >= 1 {
            self.overlaps += 1;
        }
        if is_write {
            self.bump("write_attempts");
            if self.ctx.values().any(|c| c.is_write) {
                self.bump("overlapping_write_attempts");
            }
        }
        self.ops.push(format!("call {t} {text}"));
        self.imp.push("started".into());
        self.ctx.insert(t, Ctx { kind, sid, finished: false, inner: false, early: false, is_write });
    }
    fn at(&mut self, t: usize, step: &str, ans: &str) {
        self.nat += 1;
        self.ops.push(format!("at {t} {step}"));
        self.imp.push(ans.to_string());
    }
    fn atv(&mut self, t: usize, step: &str, val: &str) {
        self.nat += 1;
        self.ops.push(format!("atv {t} {step}"));
        self.imp.push(format!("ok ran {val}"));
    }
    fn free(&self) -> bool {
        self.wbit.is_none() && self.readers.is_empty()
    }
    /// place the pending release of the access lock of thread `u`
    fn flush(&mut self, u: usize) {
        match self.pending.remove(&u) {
            Some(PendingRel::Read(sid)) => {
                self.at(u, "A.read_unlock", "ok ran");
                self.readers.retain(|x| *x != (u, sid));
            }
            Some(PendingRel::Write) => {
                self.at(u, "A.write_unlock", "ok ran");
                self.wbit = None;
                self.wown = false;
                let v = self.sections.iter().rev().find(|s| s.0 == u).map(|s| s.1.clone()).unwrap_or_else(|| "?".into());
                self.verdicts.push(v);
            }
            None => {}
        }
    }
    /// before an acquisition: the releases it needs (those already announced by a `pre` marker)
    fn make_room(&mut self, t: usize, for_write: bool) {
        if let Some(w) = self.wbit {
            if w != t && self.pending.contains_key(&w) {
                self.bump("forced_release");
                self.flush(w);
            }
        }
        if for_write {
            let owners: Vec<usize> = self.readers.iter().map(|x| x.0).collect();
            for u in owners {
                if matches!(self.pending.get(&u), Some(PendingRel::Read(_))) {
                    self.bump("forced_release");
                    self.flush(u);
                }
            }
        }
    }
    /// failed `try_write`s waiting for a moment at which the model's lock is not free
    fn place_busy(&mut self) {
        if self.free() {
            return;
        }
        for t in std::mem::take(&mut self.busy_try) {
            self.bump("res_busy");
            self.at(t, "A.try_write", "ok finished busy");
            if let Some(c) = self.ctx.get_mut(&t) {
                c.finished = true;
            }
        }
    }
    /// the result the thread's current call returns (the next `h.ret` of the thread)
    fn result_after(&self, i: usize, raw_tid: u32) -> String {
        for e in &self.evs[i + 1..] {
            if e.tid == raw_tid && e.name == "h.ret" {
                return e.detail.split(' ').next().unwrap_or("").to_string();
            }
        }
        "?".into()
    }
    fn ret_field(&self, i: usize, raw_tid: u32, key: &str) -> String {
        for e in &self.evs[i + 1..] {
            if e.tid == raw_tid && e.name == "h.ret" {
                return field(&e.detail, key).unwrap_or("?").to_string();
            }
        }
        "?".into()
    }
    fn next_name(&self, i: usize, raw_tid: u32) -> &str {
        for e in &self.evs[i + 1..] {
            if e.tid == raw_tid {
                return &e.name;
            }
        }
        ""
    }

    fn run(&mut self) {
        let mut ov_ids: HashMap<String, String> = HashMap::new();
        for i in 0..self.evs.len() {
            let e = self.evs[i].clone();
            let t = self.tid(e.tid);
            let name = e.name.as_str();
            // per-thread order: a pending release is placed before the thread's next step
            if !name.ends_with("_unlock.post") && self.pending.contains_key(&t) {
                self.flush(t);
            }
            if self.ctx.get(&t).map(|c| c.finished).unwrap_or(false) {
                if name == "h.ret" {
                    self.ctx.remove(&t);
                }
                continue;
            }
            if name == "h.ov" {
                ov_ids.insert(field(&e.detail, "addr").unwrap_or("?").to_string(), field(&e.detail, "id").unwrap_or("?").to_string());
                continue;
            }
            let ov = |s: &str| -> String {
                if s == "-" {
                    "-".into()
                } else {
                    ov_ids.get(s).cloned().unwrap_or_else(|| "999".into())
                }
            };
            match name {
                "h.ovbase" => {
                    self.ovbase.insert(t, field(&e.detail, "base").unwrap_or("?").to_string());
                }
                "h.finish" => {
                    let sid = self.sid(field(&e.detail, "sid").unwrap_or("?"));
                    self.call(t, format!("finish {sid}"), Kind::Fin, sid);
                    self.at(t, "fin_chk", "ok ran");
                }
                "call.begin_session" => {
                    if field(&e.detail, "guard") == Some("0") {
                        // the session `Nomt::rollback` opens under its write guard
                    } else {
                        let sid = self.sid(field(&e.detail, "sid").unwrap_or("?"));
                        let ov = field(&e.detail, "overlay") == Some("1");
                        if ov {
                            let base = self.ovbase.remove(&t).unwrap_or_else(|| "?".into());
                            self.call(t, format!("beginov {sid} {base}"), Kind::BeginOv, sid);
                        } else {
                            self.call(t, format!("begin {sid}"), Kind::Begin, sid);
                        }
                    }
                }
                "A.read.wait" => {
                    let sid = self.ctx.get(&t).map(|c| c.sid).unwrap_or(0);
                    self.waiting.insert(t, Waiting::Read(sid));
                }
                "A.read.got" => {
                    self.waiting.remove(&t);
                    let (sid, early) = self.ctx.get(&t).map(|c| (c.sid, c.early)).unwrap_or((0, false));
                    if !early {
                        self.make_room(t, false);
                        self.at(t, "A.read", "ok ran");
                        self.readers.push((t, sid));
                    }
                    self.place_busy();
                }
                "read_root" => {
                    let kind = self.ctx.get(&t).map(|c| c.kind);
                    self.at(t, "M.lock", "ok ran");
                    match kind {
                        Some(Kind::Begin) => {
                            let v = self.ret_field(i, e.tid, "prev");
                            self.atv(t, "sess_root", &v);
                        }
                        Some(Kind::Root) => {
                            let v = self.ret_field(i, e.tid, "root");
                            self.atv(t, "read_root", &v);
                        }
                        Some(Kind::BeginOv) => self.at(t, "sess_base", "ok ran"),
                        _ => self.at(t, "read_root", "ok ran"),
                    }
                    self.at(t, "M.unlock", "ok ran");
                }
                "h.call.root" => self.call(t, "root".into(), Kind::Root, 0),
                "call.sess_read" => {
                    let sid = self.sid(field(&e.detail, "sid").unwrap_or("?"));
                    self.call(t, format!("sread {sid}"), Kind::SRead, sid);
                }
                "call.nomt_read" => {
                    self.next_sid += 1;
                    let sid = self.next_sid;
                    self.call(t, format!("nread {sid}"), Kind::NRead, sid);
                }
                "sess_read" => {
                    let v = self.ret_field(i, e.tid, "val");
                    self.atv(t, "sess_read", &v);
                }
                "A.read_unlock.pre" => {
                    if matches!(self.ctx.get(&t).map(|c| c.kind), Some(Kind::NRead) | Some(Kind::Fin)) {
                        let sid = self.ctx[&t].sid;
                        self.pending.insert(t, PendingRel::Read(sid));
                    } else {
                        let sid = self.sid(field(&e.detail, "sid").unwrap_or("?"));
                        self.call(t, format!("end {sid}"), Kind::End, sid);
                        self.pending.insert(t, PendingRel::Read(sid));
                    }
                }
                "A.read_unlock.post" | "A.write_unlock.post" => self.flush(t),
                "h.end_done" => {
                    // (a session without a guard — none is created by the scenarios — would have no `end` call)
                    match self.ctx.get(&t).map(|c| c.kind) {
                        Some(Kind::End) => {
                            self.at(t, "ret", "ok finished done");
                            self.ctx.remove(&t);
                        }
                        Some(Kind::Fin) => {
                            let res = if e.detail.is_empty() { "ok".to_string() } else { e.detail.clone() };
                            self.bump(&format!("finish_{}", res.replace('-', "_")));
                            self.at(t, "ret", &format!("ok finished {res}"));
                            self.ctx.remove(&t);
                        }
                        _ => {}
                    }
                }
                "h.ret" => {
                    let res = e.detail.split(' ').next().unwrap_or("").to_string();
                    self.bump(&format!("res_{}", res.replace('-', "_")));
                    self.at(t, "ret", &format!("ok finished {res}"));
                    self.ctx.remove(&t);
                }
                "call.commit" | "call.try_commit" => {
                    if field(&e.detail, "guard") == Some("0") {
                        if let Some(c) = self.ctx.get_mut(&t) {
                            c.inner = true;
                        }
                    } else {
                        let (b, n) = (field(&e.detail, "base").unwrap_or("?").to_string(), field(&e.detail, "new").unwrap_or("?").to_string());
                        let d = if field(&e.detail, "delta") == Some("1") { b.clone() } else { "-".into() };
                        let (kw, kind) = if name == "call.commit" { ("commit", Kind::Commit) } else { ("trycommit", Kind::TryCommit) };
                        self.call(t, format!("{kw} {b} {n} {d} ok"), kind, 0);
                        self.sections.push((t, format!("commit {b} {n} {}", self.result_after(i, e.tid))));
                    }
                }
                "call.ov_commit" | "call.ov_try_commit" => {
                    let (b, n) = (field(&e.detail, "base").unwrap_or("?").to_string(), field(&e.detail, "new").unwrap_or("?").to_string());
                    let d = if field(&e.detail, "delta") == Some("1") { b.clone() } else { "-".into() };
                    let id = ov(field(&e.detail, "id").unwrap_or("-"));
                    let parent = ov(field(&e.detail, "parent").unwrap_or("-"));
                    let (kw, kind) = if name == "call.ov_commit" { ("ovcommit", Kind::OvCommit) } else { ("ovtrycommit", Kind::OvTryCommit) };
                    self.call(t, format!("{kw} {b} {n} {d} {id} {parent} ok"), kind, 0);
                    self.sections.push((t, format!("commit {b} {n} {}", self.result_after(i, e.tid))));
                }
                "call.rollback" => {
                    let n = field(&e.detail, "n").unwrap_or("0").to_string();
                    self.call(t, format!("rollback {n} ok"), Kind::Rollback, 0);
                    self.sections.push((t, format!("rollback {n} {}", self.result_after(i, e.tid))));
                }
                "chk_marker" => {
                    self.at(t, "M.lock", "ok ran");
                    if self.next_name(i, e.tid) == "h.ret" && self.result_after(i, e.tid) == "err-parent" {
                        self.at(t, "chk_marker", "ok finished err-parent");
                        self.bump("res_err_parent");
                        if let Some(c) = self.ctx.get_mut(&t) {
                            c.finished = true;
                        }
                    } else {
                        self.at(t, "chk_marker", "ok ran");
                        self.at(t, "M.unlock", "ok ran");
                    }
                }
                "A.write.wait" => {
                    self.waiting.insert(t, Waiting::Write);
                }
                "A.write.got" => {
                    self.waiting.remove(&t);
                    let early = self.ctx.get(&t).map(|c| c.early).unwrap_or(false);
                    self.make_room(t, true);
                    if !early {
                        self.at(t, "A.write1", "ok ran");
                    }
                    self.at(t, "A.write2", "ok ran");
                    self.wbit = Some(t);
                    self.wown = true;
                    self.place_busy();
                }
                "A.try_write.pre" => {
                    if self.next_name(i, e.tid) == "A.try_write.busy" {
                        self.busy_try.push(t);
                        self.place_busy();
                    } else {
                        self.waiting.insert(t, Waiting::Try);
                    }
                }
                "A.try_write.ok" => {
                    self.waiting.remove(&t);
                    if !self.ctx.get(&t).map(|c| c.early).unwrap_or(false) {
                        self.make_room(t, true);
                        self.at(t, "A.try_write", "ok ran");
                        self.wbit = Some(t);
                        self.wown = true;
                    }
                    self.place_busy();
                }
                "A.try_write.busy" => {
                    if self.busy_try.contains(&t) {
                        // nobody holds the lock in the model: the holder's `got` marker is late — it is the first thread to log
                        // `got` among those that are waiting now
                        let mut cand: Option<usize> = None;
                        // got / ok markers of OTHER threads logged before the candidate's: (is a write acquisition)
                        let mut between: Vec<bool> = vec![];
                        for f in &self.evs[i + 1..] {
                            if f.name == "A.read.got" || f.name == "A.write.got" || f.name == "A.try_write.ok" {
                                // (threads that were not waiting at this moment may log a `got` first — the trier itself, with its
                                // next call, or another reader next to a reader)
                                if let Some(u) = self.tmap.get(&f.tid).copied() {
                                    if self.waiting.contains_key(&u) && !self.ctx.get(&u).map(|c| c.early).unwrap_or(false) {
                                        cand = Some(u);
                                        break;
                                    }
                                }
                                between.push(f.name != "A.read.got");
                            }
                        }
                        // placing the candidate's acquisition here is consistent with the rest of the log iff nobody whom it
                        // would exclude acquires before the candidate's own marker
                        let consistent = match cand.map(|u| self.waiting[&u]) {
                            Some(Waiting::Read(_)) => !between.iter().any(|w| *w),
                            Some(_) => between.is_empty(),
                            None => false,
                        };
                        if consistent {
                            let u = cand.unwrap();
                            self.bump("early_acquire");
                            match self.waiting[&u] {
                                Waiting::Write => {
                                    self.at(u, "A.write1", "ok ran");
                                    self.wbit = Some(u);
                                }
                                Waiting::Read(sid) => {
                                    self.at(u, "A.read", "ok ran");
                                    self.readers.push((u, sid));
                                }
                                Waiting::Try => {
                                    self.make_room(u, true);
                                    self.at(u, "A.try_write", "ok ran");
                                    self.wbit = Some(u);
                                    self.wown = true;
                                }
                            }
                            if let Some(c) = self.ctx.get_mut(&u) {
                                c.early = true;
                            }
                            self.place_busy();
                        } else {
                            // nobody held the lock: parking_lot's `try_write` (compare_exchange(0, WRITER_BIT)) also fails while the
                            // state word carries PARKED_BIT, i.e. while a thread is queued at the lock
                            let queued = self
                                .waiting
                                .iter()
                                .filter(|(u, w)| **u != t && !matches!(w, Waiting::Try) && !self.ctx.get(u).map(|c| c.early).unwrap_or(false))
                                .map(|(u, _)| *u)
                                .min();
                            self.busy_try.retain(|x| *x != t);
                            self.bump("res_busy");
                            match queued {
                                Some(u) => {
                                    self.bump("spurious_busy");
                                    self.nat += 1;
                                    self.ops.push(format!("spur {t} {u}"));
                                    self.imp.push("ok finished busy".into());
                                }
                                None => {
                                    self.bump("unexplained_busy");
                                    self.at(t, "A.try_write", "ok finished busy");
                                }
                            }
                            if let Some(c) = self.ctx.get_mut(&t) {
                                c.finished = true;
                            }
                        }
                    }
                }
                "A.write_unlock.pre" => {
                    self.pending.insert(t, PendingRel::Write);
                }
                "chk_poison" | "M.lock" | "M.unlock" | "log_push" | "log_pop" => self.at(t, name, "ok ran"),
                "chk_root" | "pub_root" | "store.begin" => {
                    let inner = self.ctx.get(&t).map(|c| c.inner).unwrap_or(false);
                    let step = match (name, inner) {
                        ("chk_root", false) => "chk_root",
                        ("chk_root", true) => "chk_seen",
                        ("pub_root", false) => "pub_root",
                        ("pub_root", true) => "pub_rb",
                        (_, false) => "store",
                        (_, true) => "store_rb",
                    };
                    self.at(t, step, "ok ran");
                }
                "store.end" => {}
                "log_push.busy" => self.problems.push("C15 lockrec: the rollback log was busy inside a write-guard section (commit_nonblocking handed the delta back)".into()),
                other => self.problems.push(format!("C15 lockrec: unknown marker {other}")),
            }
        }
        let ts: Vec<usize> = self.pending.keys().copied().collect();
        for t in ts {
            self.flush(t);
        }
    }
}

/// the sequential oracle (independent of the Lean model): the write sections in write-guard order, each accepted iff
/// its base is the current root; returns (final root, log length)
fn sequential(initial: &str, verdicts: &[String], problems: &mut Vec<String>) -> (String, usize) {
    let mut cur = initial.to_string();
    let mut log: Vec<String> = vec![];
    for v in verdicts {
        let f: Vec<&str> = v.split(' ').collect();
        match f.as_slice() {
            ["commit", b, n, res] => {
                let expect = if *b == cur { "ok" } else { "err-stale" };
                if *res != expect && *res != "err-parent" {
                    problems.push(format!("C15 C12 write sections in write-guard order: a commit with base {b} on root {cur} returned {res}, sequentially it is {expect}"));
                }
                if *res == "ok" {
                    log.push(cur.clone());
                    cur = n.to_string();
                }
            }
            ["rollback", n, res] => {
                let n: usize = n.parse().unwrap_or(0);
                let expect = if n > log.len() { "err-not-enough" } else { "ok" };
                if *res != expect {
                    problems.push(format!("C15 C12 write sections in write-guard order: rollback {n} with {} logged returned {res}, sequentially it is {expect}", log.len()));
                }
                if *res == "ok" {
                    for _ in 0..n {
                        cur = log.pop().unwrap_or_default();
                    }
                }
            }
            _ => {}
        }
    }
    (cur, log.len())
}

/// `lockrec --seed S --cases N [--threads T] [--no-pause] [--dump]`
pub fn run(seed: u64, cases: usize, out: &mut Sink, args: &[String]) {
    let fixed_threads: Option<usize> = args.iter().position(|a| a == "--threads").and_then(|i| args.get(i + 1)).and_then(|s| s.parse().ok());
    let no_pause = args.iter().any(|a| a == "--no-pause");
    let dump = args.iter().any(|a| a == "--dump");
    let outdir = args.iter().position(|a| a == "--out").and_then(|i| args.get(i + 1).cloned()).unwrap_or_else(|| "work/out".into());
    let pid = std::process::id();
    let r = rec().clone();
    let forced_focus: Option<usize> = args.iter().position(|a| a == "--focus").and_then(|i| args.get(i + 1)).and_then(|s| s.parse().ok());
    let forced_workers: Option<usize> = args.iter().position(|a| a == "--workers").and_then(|i| args.get(i + 1)).and_then(|s| s.parse().ok());
    std::panic::set_hook(Box::new(|info| {
        let msg = info.payload().downcast_ref::<&str>().map(|s| s.to_string()).or_else(|| info.payload().downcast_ref::<String>().cloned()).unwrap_or_default();
        let loc = info.location().map(|l| format!("{}:{}", l.file().rsplit('/').next().unwrap_or(""), l.line())).unwrap_or_default();
        let th = std::thread::current().name().unwrap_or("?").to_string();
        if let Ok(mut p) = PANICS.lock() {
            p.push(format!("[{th} @ {loc}: {}]", msg.chars().take(160).collect::<String>()));
        }
    }));
    let mut rng = Rng::new(seed);
    // watchdog: a scenario that does not end is a deadlock of the real store
    let progress = Arc::new(AtomicU64::new(0));
    {
        let (progress, r, outdir) = (progress.clone(), r.clone(), outdir.clone());
        std::thread::spawn(move || {
            let mut last = (0u64, std::time::Instant::now());
            loop {
                std::thread::sleep(Duration::from_millis(200));
                let p = progress.load(Ordering::SeqCst);
                if p == u64::MAX {
                    return;
                }
                if p != last.0 {
                    last = (p, std::time::Instant::now());
                } else if last.1.elapsed() > Duration::from_secs(20) {
                    let log = r.log.lock().map(|l| l.iter().rev().take(40).map(|e| format!("{} {} {}", e.tid, e.name, e.detail)).collect::<Vec<_>>().join(" | ")).unwrap_or_default();
                    let _ = std::fs::create_dir_all(&outdir);
                    let _ = std::fs::write(format!("{outdir}/oracle_failures.txt"), format!("C15 lockrec WATCHDOG: scenario {p} (seed {seed}) did not finish within 20 s — DEADLOCK of the real store outside the F19 pattern; last markers (newest first): {log}\n"));
                    let _ = std::fs::write(format!("{outdir}/ops.txt"), "");
                    let _ = std::fs::write(format!("{outdir}/impl.txt"), "");
                    println!("lines=0 oracle_failures=1 distinct_nontrivial=0");
                    std::process::exit(0);
                }
            }
        });
    }
    for case in 0..cases {
        progress.store(case as u64 + 1, Ordering::SeqCst);
        let mut crng = rng.fork();
        let nthreads = fixed_threads.unwrap_or_else(|| crng.range(2, 6));
        let focus = forced_focus.unwrap_or_else(|| crng.below(4));
        let dir = format!("/dev/shm/nomt-verif-db-{pid}-lockrec-{seed}-{case}");
        let _ = std::fs::remove_dir_all(&dir);
        let mut cfg = DbCfg::gen(&mut crng);
        cfg.buckets = 4096;
        cfg.rollback = true;
        cfg.maxlog = 100;
        cfg.warm_up = false;
        cfg.prepopulate = false;
        cfg.workers = forced_workers.unwrap_or_else(|| *crng.pick(&[1usize, 2, 4]));
        PANICS.lock().unwrap().clear();
        let db: Arc<Db> = match Db::open(cfg.options(&dir)) {
            Ok(d) => Arc::new(d),
            Err(e) => {
                out.fail(format!("C15 lockrec: open failed: {e:#}"));
                continue;
            }
        };
        let initial = short(&db.root().into_inner());
        let sh = Arc::new(Shared {
            db: db.clone(),
            next_stamp: AtomicU64::new(1),
            roots: Mutex::new(HashMap::from([(0u64, initial.clone())])),
            next_ov: AtomicU64::new(1),
            problems: Mutex::new(vec![]),
            observations: Mutex::new(vec![]),
        });
        let scripts: Vec<Vec<Task>> = (0..nthreads).map(|_| gen_tasks(&mut crng, focus)).collect();
        r.log.lock().unwrap().clear();
        r.seed.store(crng.next(), Ordering::SeqCst);
        r.pause.store(if no_pause { 0 } else { *crng.pick(&[1u64, 1, 2, 4]) }, Ordering::SeqCst);
        r.on.store(true, Ordering::SeqCst);
        let barrier = Arc::new(Barrier::new(nthreads));
        let handles: Vec<_> = scripts
            .iter()
            .cloned()
            .enumerate()
            .map(|(k, script)| {
                let (sh, barrier) = (sh.clone(), barrier.clone());
                let mut trng = Rng::new(crng.next() ^ k as u64);
                std::thread::spawn(move || {
                    barrier.wait();
                    for task in &script {
                        run_task(&sh, task, &mut trng);
                        if trng.chance(1, 3) {
                            std::thread::yield_now();
                        }
                    }
                })
            })
            .collect();
        for h in handles {
            if h.join().is_err() {
                out.fail("C15 lockrec: a scenario thread panicked outside the API calls".into());
            }
        }
        r.on.store(false, Ordering::SeqCst);
        let evs: Vec<Ev> = std::mem::take(&mut *r.log.lock().unwrap());
        // what the real store holds now
        let final_root = short(&db.root().into_inner());
        let final_stamp = stamp_of(&db.read(STAMP).unwrap_or(None));
        let final_content = sh.roots.lock().unwrap().get(&final_stamp).cloned().unwrap_or_else(|| format!("unknown-stamp-{final_stamp}"));
        let loglen = db.verif_rollback_view().map(|v| v.log.len()).unwrap_or(0);
        let poisoned = db.is_poisoned();
        // render
        let mut rd = Render {
            evs: &evs,
            tmap: HashMap::new(),
            smap: HashMap::new(),
            ops: vec![],
            imp: vec![],
            ctx: HashMap::new(),
            pending: HashMap::new(),
            waiting: HashMap::new(),
            ovbase: HashMap::new(),
            busy_try: vec![],
            readers: vec![],
            wbit: None,
            wown: false,
            next_sid: 0,
            verdicts: vec![],
            sections: vec![],
            stats: BTreeMap::new(),
            problems: vec![],
            nat: 0,
            overlaps: 0,
        };
        rd.run();
        out.mark_case(format!("lockrec scenario seed={seed} case={case} threads={nthreads} focus={focus} pause={} {}", r.pause.load(Ordering::SeqCst), cfg.describe()));
        out.line(format!("init {initial}"), "ok".into());
        let sig = rd.ops.join("\n");
        for (o, i) in rd.ops.iter().zip(rd.imp.iter()) {
            out.line(o.clone(), i.clone());
        }
        let res_list: Vec<String> = rd.verdicts.iter().map(|v| v.split(' ').last().unwrap_or("?").to_string()).collect();
        out.line(
            "final".into(),
            format!("root={final_root} content={final_content} log={loglen} poisoned={poisoned} verdicts={}", if res_list.is_empty() { "-".to_string() } else { res_list.join(",") }),
        );
        // oracles independent of the model
        let mut problems = std::mem::take(&mut rd.problems);
        problems.extend(sh.problems.lock().unwrap().drain(..));
        let (seq_root, seq_log) = sequential(&initial, &rd.verdicts, &mut problems);
        if seq_root != final_root {
            problems.push(format!("C15 C12 final root {final_root} is not the result {seq_root} of the write sections in write-guard order (a committed batch was lost or applied out of order)"));
        }
        if seq_log != loglen {
            problems.push(format!("C15 C09 rollback log holds {loglen} deltas, the write sections in write-guard order leave {seq_log}"));
        }
        if final_content != final_root {
            problems.push(format!("C15 final state is torn: root {final_root}, stamp of the state with root {final_content}"));
        }
        if poisoned {
            problems.push("C15 lockrec: the store is poisoned although no I/O failure was injected".into());
        }
        let panics = PANICS.lock().unwrap().join(" ");
        for p in problems.iter().take(6) {
            out.fail(format!("{p} [replay: vharness lockrec --seed {seed} --cases {} (scenario {case})]{}", case + 1, if panics.is_empty() { String::new() } else { format!(" panics of the scenario in order: {panics}") }));
        }
        // evidence
        out.count("schedules");
        out.add("micro_steps", rd.nat as u64);
        out.add("recorded_markers", evs.len() as u64);
        out.add("overlapping_calls", rd.overlaps);
        for (k, v) in &rd.stats {
            out.add(k, *v);
        }
        for o in sh.observations.lock().unwrap().iter() {
            out.count(&format!("observation_{o}"));
        }
        out.count(&format!("threads_{nthreads}"));
        if rd.overlaps >= 2 {
            out.count("schedules_with_overlap");
            out.nontrivial(&sig);
        }
        if dump || rd.stats.contains_key("unexplained_busy") {
            let mut s = String::new();
            for e in &evs {
                s.push_str(&format!("{} {} {}\n", e.tid, e.name, e.detail));
            }
            let _ = std::fs::create_dir_all(&outdir);
            let _ = std::fs::write(format!("{outdir}/markers-{case}.txt"), s);
        }
        drop(sh);
        drop(db);
        let _ = std::fs::remove_dir_all(&dir);
    }
    progress.store(u64::MAX, Ordering::SeqCst);
}

/// `lockrec-aba --seed S --cases N`: single-threaded search for the pattern seen in recorded schedules — a changeset
/// (finished session, or a chain of overlays) is prepared on the state with root r; another changeset is committed and
/// rolled back (root r again); the first changeset is then accepted (its base root is current).  Afterwards the store
/// is used normally.  Any panic / torn read is reported.
pub fn aba(seed: u64, cases: usize, out: &mut Sink) {
    let pid = std::process::id();
    std::panic::set_hook(Box::new(|info| {
        let msg = info.payload().downcast_ref::<&str>().map(|s| s.to_string()).or_else(|| info.payload().downcast_ref::<String>().cloned()).unwrap_or_default();
        let loc = info.location().map(|l| format!("{}:{}", l.file().rsplit('/').next().unwrap_or(""), l.line())).unwrap_or_default();
        if let Ok(mut p) = PANICS.lock() {
            p.push(format!("[{loc}: {}]", msg.chars().take(160).collect::<String>()));
        }
    }));
    let mut rng = Rng::new(seed);
    for case in 0..cases {
        let mut crng = rng.fork();
        PANICS.lock().unwrap().clear();
        let dir = format!("/dev/shm/nomt-verif-db-{pid}-aba-{seed}-{case}");
        let _ = std::fs::remove_dir_all(&dir);
        let mut cfg = DbCfg::gen(&mut crng);
        cfg.buckets = 4096;
        cfg.rollback = true;
        cfg.maxlog = 100;
        cfg.warm_up = false;
        cfg.prepopulate = false;
        cfg.workers = 1;
        let db: Db = match Db::open(cfg.options(&dir)) {
            Ok(d) => d,
            Err(_) => continue,
        };
        let use_overlay = crng.chance(2, 3);
        let chain_len = crng.range(1, 3);
        // the variant seen in the recorded schedules: the LAST overlay of the chain is prepared (by a session on the
        // earlier ones) while the competing commit X is in place, i.e. on a base that is not current at that moment
        let stale_mid = use_overlay && crng.chance(1, 2);
        let mut oracle: BTreeMap<Key, Vec<u8>> = BTreeMap::new();
        let mut key = |rng: &mut Rng| {
            let mut k = rng.bytes32();
            k[0] |= 0x80;
            k
        };
        let mut script = String::new();
        let res = std::panic::catch_unwind(std::panic::AssertUnwindSafe(|| -> Result<(), String> {
            let mut stamp = 0u64;
            let mut mk = |rng: &mut Rng, num: usize, den: usize, keyf: &mut dyn FnMut(&mut Rng) -> Key| -> Vec<(Key, Vec<u8>)> {
                stamp += 1;
                let mut w = vec![(STAMP, stamp.to_le_bytes().to_vec())];
                if rng.chance(num, den) {
                    w.push((keyf(rng), vec![stamp as u8; 20]));
                }
                w.sort();
                w
            };
            let commit_plain = |w: &Vec<(Key, Vec<u8>)>| -> Result<(), String> {
                let s = db.begin_session(SessionParams::default());
                let f = s.finish(w.iter().map(|(k, v)| (*k, KeyReadWrite::Write(Some(v.clone())))).collect()).map_err(|e| format!("finish {e:#}"))?;
                f.commit(&db).map_err(|e| format!("commit {e:#}"))
            };
            // A
            let wa = mk(&mut crng, 1, 2, &mut key);
            script.push_str(&format!("A={} ", wa.len()));
            commit_plain(&wa)?;
            for (k, v) in &wa {
                oracle.insert(*k, v.clone());
            }
            // F prepared on r
            let mut fin: Option<FinishedSession> = None;
            let mut chain: Vec<Overlay> = vec![];
            let mut fw: Vec<Vec<(Key, Vec<u8>)>> = vec![];
            let mut wx_early: Option<Vec<(Key, Vec<u8>)>> = None;
            let mut superseded_refused = false;
            if use_overlay {
                let n = if stale_mid { chain_len + 1 } else { chain_len };
                for j in 0..n {
                    if stale_mid && j + 1 == n {
                        let wx = mk(&mut crng, 3, 4, &mut key);
                        commit_plain(&wx)?;
                        wx_early = Some(wx);
                    }
                    let w = mk(&mut crng, 1, 2, &mut key);
                    let s = db.begin_session(SessionParams::default().overlay(chain.iter().rev()).map_err(|e| format!("{e:?}"))?);
                    let f = match s.finish(w.iter().map(|(k, v)| (*k, KeyReadWrite::Write(Some(v.clone())))).collect()) {
                        Ok(f) => f,
                        // a session on a chain whose base has been superseded may (since the repair of F23: must) be refused: the chain
                        // goes on without this overlay; if it is NOT refused the root oracle below decides
                        Err(e) if stale_mid && j + 1 == n && format!("{e:#}").contains("not based on the committed state") => {
                            superseded_refused = true;
                            continue;
                        }
                        Err(e) => return Err(format!("finish {e:#}")),
                    };
                    chain.push(f.into_overlay());
                    fw.push(w);
                }
            } else {
                let w = mk(&mut crng, 1, 2, &mut key);
                let s = db.begin_session(SessionParams::default());
                fin = Some(s.finish(w.iter().map(|(k, v)| (*k, KeyReadWrite::Write(Some(v.clone())))).collect()).map_err(|e| format!("finish {e:#}"))?);
                fw.push(w);
            }
            script.push_str(&format!("F={}x{:?} ", if use_overlay { "ov" } else { "fin" }, fw.iter().map(|w| w.len()).collect::<Vec<_>>()));
            // X committed and rolled back
            let wx = match wx_early {
                Some(wx) => wx,
                None => {
                    let wx = mk(&mut crng, 3, 4, &mut key);
                    commit_plain(&wx)?;
                    wx
                }
            };
            script.push_str(&format!("X={} stale_mid={stale_mid} refused={superseded_refused} ", wx.len()));
            db.rollback(1).map_err(|e| format!("rollback {e:#}"))?;
            // F accepted
            if let Some(f) = fin {
                f.commit(&db).map_err(|e| format!("commit F {e:#}"))?;
            }
            for ov in chain {
                ov.commit(&db).map_err(|e| format!("commit F-overlay {e:#}"))?;
            }
            for w in &fw {
                for (k, v) in w {
                    oracle.insert(*k, v.clone());
                }
            }
            // the store is used normally
            for (k, v) in &oracle {
                let got = db.read(*k).map_err(|e| format!("read {e:#}"))?;
                if got.as_ref() != Some(v) {
                    return Err(format!("read of {} returns {:?}, expected {}", hex(&k[..4]), got.map(|g| hex(&g[..g.len().min(8)])), hex(&v[..v.len().min(8)])));
                }
            }
            // the root must be the root of the content (reference trie of the harness, independent of the store)
            let kvs: Vec<(Key, [u8; 32])> = oracle.iter().map(|(k, v)| (*k, crate::db::vhash(v))).collect();
            let want = ref_root(&kvs);
            let got = db.root().into_inner();
            if want != got {
                return Err(format!("ROOT of the committed state is {} but the content (all keys read back as expected) has root {}: the merkle pages do not describe the stored key-value set", hex(&got[..8]), hex(&want[..8])));
            }
            for (k, _) in &wx {
                if !oracle.contains_key(k) && db.read(*k).map_err(|e| format!("read {e:#}"))?.is_some() {
                    return Err(format!("rolled-back key {} is still readable", hex(&k[..4])));
                }
            }
            let wg = mk(&mut crng, 1, 1, &mut key);
            commit_plain(&wg)?;
            Ok(())
        }));
        out.mark_case(format!("aba seed={seed} case={case} {script}"));
        out.count("aba_cases");
        match res {
            Ok(Ok(())) => out.nontrivial(&script),
            // a changeset whose LAST element was prepared by a session on a SUPERSEDED overlay chain (stale_mid=true) is finding F23 (C11);
            // a changeset prepared on r itself must go through unharmed after the competing commit was rolled back (C12 / C09)
            Ok(Err(e)) if script.contains("stale_mid=true") => out.fail(format!("C11 F23 superseded-chain: an overlay prepared by a session on a chain whose base had been superseded is accepted after the competing commit was rolled back: {e} [{script}] [replay: vharness lockrec-aba --seed {seed} --cases {}]", case + 1)),
            Err(_) if script.contains("stale_mid=true") => out.fail(format!("C11 F23 superseded-chain: PANIC after an overlay prepared by a session on a superseded chain was accepted [{script}] panics: {} [replay: vharness lockrec-aba --seed {seed} --cases {}]", PANICS.lock().unwrap().join(" "), case + 1)),
            Ok(Err(e)) => out.fail(format!("C12 ABA: changeset prepared on root r, another commit rolled back, changeset accepted: {e} [{script}] [replay: vharness lockrec-aba --seed {seed} --cases {}]", case + 1)),
            Err(_) => out.fail(format!("C12 ABA: PANIC after a changeset prepared on root r was accepted once a competing commit had been rolled back [{script}] panics: {} [replay: vharness lockrec-aba --seed {seed} --cases {}]", PANICS.lock().unwrap().join(" "), case + 1)),
        }
        drop(db);
        let _ = std::fs::remove_dir_all(&dir);
    }
}
